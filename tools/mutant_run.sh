#!/usr/bin/env bash
# tools/mutant_run.sh <repo_worktree_dir> <Cxx> [tier] [extra args…]
# Builds the harness against a *scratch copy/worktree* of the repository (never /repo) and runs
# one check there. Everything (target dir, evidence, replays) stays inside the sibling directory <dir>.verif,
# remove it together with the worktree: rm -rf <dir>.verif  VERIF_SCALE=<percent> scales the amount of work.
set -eu
set -o pipefail
WT="$(cd "$1" && pwd)"; PROP="$2"; TIER="${3:-quick}"; shift; shift; [ $# -gt 0 ] && shift
ROOT="$(cd "$(dirname "${BASH_SOURCE[0]}")/.." && pwd)"
SCR="${WT}.verif"; H="$SCR/harness"
mkdir -p "$H/.cargo" "$SCR/root/evidence" "$SCR/root/replays"
sed "s#path = \"/repo\"#path = \"$WT\"#" "$ROOT/harness/Cargo.toml" > "$H/Cargo.toml"
cp "$ROOT/harness/Cargo.lock" "$H/Cargo.lock"
cp "$ROOT/harness/.cargo/config.toml" "$H/.cargo/config.toml"
rm -rf "$H/vcore" "$H/props"; ln -s "$ROOT/harness/vcore" "$H/vcore"; ln -s "$ROOT/harness/props" "$H/props"
# spbin (workspace member): a real copy whose main.rs is the WORKTREE's server_persistent.rs
if [ -d "$ROOT/harness/spbin" ]; then
  mkdir -p "$H/spbin/src"; cp "$ROOT/harness/spbin/Cargo.toml" "$H/spbin/Cargo.toml"
  cmp -s "$WT/src/bin/server_persistent.rs" "$H/spbin/src/main.rs" || cp "$WT/src/bin/server_persistent.rs" "$H/spbin/src/main.rs"
fi
cp "$ROOT/properties.jsonl" "$SCR/root/"; cp "$ROOT/known_findings.json" "$SCR/root/" 2>/dev/null || true
rm -rf "$SCR/root/known_findings.d"; cp -r "$ROOT/known_findings.d" "$SCR/root/" 2>/dev/null || true
pkg=$(echo "$PROP" | tr 'A-Z' 'a-z')
# process-level tier (props/e2e + spbin = the worktree's server binary) for the properties it serves
e2e_prop=no; case "$PROP" in C04|C08|C09|C11|C15) e2e_prop=yes ;; esac
# --replay <file>: a replay of an e2e sub-check (or of the probe of an e2e finding) goes to the e2e binary only
only=""; prev=""
for a in "$@"; do
  if [ "$prev" = "--replay" ] && [ -f "$a" ]; then
    chk=$(python3 -c "import json,sys; print(json.load(open(sys.argv[1])).get('check',''))" "$a" 2>/dev/null || true)
    case "$chk" in
      e2e_*) only=e2e ;;
      probe:*) if grep -qs "\"${chk#probe:}\"" "$ROOT"/harness/props/e2e/src/*.rs; then only=e2e; else only=main; fi ;;
      *) only=main ;;
    esac
  fi
  prev="$a"
done
build_pkgs() { ( cd "$H" && CARGO_TARGET_DIR="$SCR/target" CARGO_NET_OFFLINE=true cargo build --release "$@" 2>&1 | tail -3 ) || { echo "mutant_run: build ($*) against $WT failed (inconclusive)" >&2; exit 2; }; }
if [ "$only" != e2e ]; then
  build_pkgs -p "$pkg"
  set +e
  VERIF_ROOT="$SCR/root" "$SCR/target/release/$pkg" --tier "$TIER" --seed "${VERIF_SEED:-0}" "$@"; rc=$?
  set -e
  [ $rc -eq 0 ] || exit $rc
fi
if [ "$e2e_prop" = yes ] && [ "$only" != main ]; then
  build_pkgs -p spbin -p e2e
  [ -x "$SCR/target/release/sp_server" ] || { echo "mutant_run: sp_server was not built (inconclusive)" >&2; exit 2; }
  set +e
  VERIF_ROOT="$SCR/root" VERIF_EVIDENCE_DIR="$SCR/root/e2e-evidence" "$SCR/target/release/e2e" --property "$PROP" --tier "$TIER" --seed "${VERIF_SEED:-0}" "$@"; rc=$?
  set -e
  exit $rc
fi
exit 0
