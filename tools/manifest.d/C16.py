check(
    "C16",
    "exploration",
    "Parser half: searches for an argv on which Command::from_resp and Command::from_resp_zero_copy do not produce the same Command (Debug rendering) or the same "
    "error string, or on which either panics. The argv come from a grammar table of every command and subcommand name either parser knows: two exhaustive "
    "enumerations (every arity 0..max+2 of every name in three letter cases plus EVAL/EVALSHA x numkeys; every sequence with repetition of up to three option "
    "keywords with and without values) and 18 M (quick) / 30 M (thorough) generated frames with integers at and beyond the i64/u64/isize limits, floats incl. "
    "nan/inf/1e400, non-UTF-8 and empty arguments, shuffled and repeated options, arity perturbation and one adversarial replacement. "
    "The same comparison on frames whose elements are not all bulk strings (what the frame decoders also deliver): an exhaustive matrix (27 884 frames: every single position of every "
    "arity prefix of every command as integer / simple string / error / nil bulk / nil array / nested array / empty array, every numeric text as an integer element singly and "
    "all at once incl. option values, integer elements at the i64/u32 limits, nil-array and non-array frames) and 3 M (quick) / 10 M (thorough) generated frames with a type overlay. "
    "Lua half: searches for a (state, invocation) on which executing the invocation directly and through EVAL 'return redis.call|pcall(table.unpack(ARGV))' on a twin "
    "executor with the same state and clock differ in keyspace dump or in reply under the documented RESP->Lua->RESP conversion (600 000 quick / 3 M thorough twins; in about one "
    "twin in six the script passes the integer-valued arguments as Lua integers or floats instead of strings, "
    "plus an exhaustive walk of which command names scripts can call at all). Silence means no counterexample among those inputs. Eleven root causes are listed and "
    "searched past by exact signatures (KF-C16-01..11: two text/acceptance differences between the parsers, two panics in both parsers, the translator's coverage gap "
    "of 70 command names, five drifts inside covered commands, and its own argument-error texts).",
    "two Commands that differ render differently under Debug; the RESP->Lua->RESP conversion is the one Redis documents (status<->{ok=}, error raised by call / returned "
    "by pcall, integer<->number, bulk<->string, nil->false->nil, array<->table, nil inside an array ends the table; a Lua number argument that is an integer of magnitude <= 2^53 is passed as its canonical decimal text); for redis.call an error only has to contain the "
    "direct error text; SMEMBERS/HGETALL/KEYS/HKEYS/HVALS are compared as multisets and RANDOMKEY/SPOP/SCAN*/INFO only by outcome kind (two executor instances iterate "
    "hash tables differently); commands Redis flags noscript may be refused from scripts; the command-name table in the check is complete for the tree at hand (a name "
    "added to the parsers later is only covered by the generic Unknown / coverage checks); the unstructured libFuzzer target cmd_parse_diff (thorough tier) is separate",
    "property-based testing (proptest, shrinking to replay files) + exhaustive enumeration of bounded grammars, differential (parser vs parser, direct vs script)",
    "DESIGN.md §3 C16",
)
