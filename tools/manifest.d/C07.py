check(
    "C07",
    "exploration",
    "Searches for a pair or triple of co-reachable replicated values on which ReplicatedValue::merge is not commutative, associative or idempotent in the peer-visible "
    "projection (CRDT payload incl. per-field stamps, tombstones and OR-set tags; vector clock; expiry; outer stamp; replication factor), reported per component. "
    "Values come from generated histories of three ShardReplicaState replicas (record_write/delete/hash_write/hash_delete, apply_remote_delta with gossip and delayed "
    "delivery, Causal/Eventual mix, G/PN counters and G/OR sets through their mutators); operands of one comparison always belong to one history. In addition every "
    "op word of a fixed length over an 18-symbol (2 replicas; length 4 quick / 5 thorough) and a 30-symbol (3 replicas; length 3 / 4) alphabet is enumerated and ALL "
    "pairs and triples of each such world's values are checked (exhaustive within that bound only). Silence means no counterexample in the explored space. Two root "
    "causes are listed and searched past by component-level signatures: the outer stamp keeps self's replica id (KF-C07-01) and type-mismatch resolution is not a join (KF-C07-02).",
    "vcore::proj::peer_view is the notion of 'everything it exposes'; one Lamport stamp (time, replica) identifies one write within a history (so values of different "
    "histories are never mixed); counters/sets have no production constructor, they are built with ReplicatedValue::with_crdt + crdt_mut() and stamped either by the "
    "ticked replica clock or not at all; the cfg(kani) harnesses in the tree are not run",
    "property-based testing (proptest, shrinking to replay files) + exhaustive enumeration of a bounded universe",
    "DESIGN.md §3 C07",
)
