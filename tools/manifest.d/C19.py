check(
    "C19",
    "exploration",
    "Searches generated cluster memberships (1-12 nodes, sparse 64-bit ids, 1-200 virtual nodes, rf 0-6, ~200 keys each) for a counterexample to: "
    "every join order yields the same ordered replica list (all n! orders up to 6 nodes, sampled above), lists have min(rf, n) distinct members of the membership, "
    "per-key rf overrides are heads of one preference order, adding/removing one node only inserts/removes that node in the lists that involve it, "
    "and a ring after any add/remove history equals a fresh ring of the same membership; and to: GossipRouter (new / from_config) and "
    "GossipState::queue_deltas deliver every delta to get_replicas(key) minus the sender exactly once and to nobody else, for every member as sender; "
    "the production GossipManager sender loops and server (loopback sockets) and the production GossipActor, driven through its handle with generated mailbox sequences "
    "(delta batches and bursts, joins/leaves as ring update + set_router, drains, ticks, control messages, harness-owned interleaving on a current-thread runtime), "
    "hand every delta to the responsible replicas of the membership in force when it was enqueued (two-sided bounds for updates in flight during a change that moves their key). "
    "Silence means no counterexample in the explored space, not absence. The from_config off-by-one (KF-C19-01) is listed and searched past.",
    "HashRing::get_replicas is the routing oracle (as the property states); SipHash ring positions never collide; from_config's convention is ids 1..=n with peers in id order; "
    "the actor is scheduled at mailbox granularity only (it runs when the case awaits); real multi-thread schedules, MAX_OUTBOUND_QUEUE overflow and membership changes without a matching set_router are out of scope",
    "property-based testing (proptest, shrinking to replay files) + exhaustive permutation enumeration",
    "DESIGN.md §3 C19",
)
