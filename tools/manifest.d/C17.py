check(
    "C17",
    "exploration",
    "Searches for a (keyspace state, command) pair in which a command that replied with an error, or a command classified by Command::is_read_only(), "
    "changed anything a later command can observe. States are generated on a 10-key pool: all five types with boundary contents (i64::MAX/MIN, 1.5e308, "
    "non-numeric, empty, one-element and three-element collections, hash fields that are integers / not integers / at the i64 limits), TTLs, eager and lazy "
    "clock moves (expired keys lingering in the map), stirred by generated data commands. The one command is drawn from the full Command set with a bias towards "
    "failure (wrong-type operand in every position, INCR*/HINCRBY/INCRBYFLOAT overflow, indices and offsets out of range, conflicting options, multi-element "
    "commands with one bad element, two-key commands RPOPLPUSH/LMOVE/RENAME/RENAMENX/SORT STORE with a wrong-typed or missing operand, stubs, admin, transaction "
    "and script commands), also forwarded by EVAL scripts through redis.call / redis.pcall. Compared: the dump through read commands (keys, types, full values, "
    "PTTL at a held clock) before and after, get_data() restricted to unexpired keys, and a twin executor that never ran the command, including a probe for expiry "
    "entries left behind on absent keys. A second, enumerated sub-check (big_values, 116 cases) holds one 1 MiB..130 MiB element (sizes aimed at powers of two) as string / list element / "
    "set member / hash value and runs every data-returning write and large-reply read directly and through one-call redis.call/pcall scripts, plus 64 MiB+ arguments and the 512 MiB "
    "limit of APPEND/SETRANGE/SETBIT: it looks for resource-limit failures that strike between a command's effect and its reply. Two further generated sub-checks state the same oracle through the production entry points "
    "above the bare executor, observing the keyspace through that same entry point (KEYS * as a multiset, DBSIZE, per key TYPE / full value / PTTL, clock held): sharded_entry drives ShardedActorState::execute with a generated "
    "shard count (1..16) and key placement (so the keys of two-key commands live on the same or on different shards); replicated_wal drives ReplicatedShardedState::execute with no WAL / FsyncPolicy Always / EverySecond / No over a "
    "WAL store whose create/append/fsync calls fail at generated call indices, from a generated call on, or exactly around the command under test, with the delta sink absent / live / disconnected. They look for glue that splits a command and "
    "half-applies it, or that turns a side-channel fault into an error reply after the effect. Silence means no such pair among the generated ones (fail_or_ro 150 000 quick / 6 M thorough; sharded_entry 6 000 / 400 000; replicated_wal 4 000 / 300 000; "
    "quick sizes before the work factor), not that none exists. One root cause "
    "was found and is fixed in the tree: RPOPLPUSH/LMOVE popped the source before checking the destination's type (KF-C17-01, fixed).",
    "the read commands used for the snapshot (KEYS, TYPE, GET, LRANGE, SMEMBERS, HGETALL, ZRANGE WITHSCORES, PTTL) report the state faithfully (C01 validates them); "
    "keys already expired at the held clock are invisible, so their lazy removal is not a change; a script that itself changed the keyspace before a later call failed "
    "is not a violation (no rollback in Redis) and abstains; commands rejected by the parser never reach the executor; an executor panic is not an error reply "
    "(left to C01; in the entry-point tiers a dead shard actor abstains likewise); MULTI is followed by DISCARD before the snapshot; replies 'QUEUED' and EXEC's array are outside the property; "
    "in the entry-point tiers nothing is asserted about replies or about where a successful two-key command puts its result (KF-C03-02 is C03's subject), and hidden expiry state is not probed there (no twin); "
    "the connection handler (MULTI/EXEC queueing, ACL) is not an entry point of this check; WAL faults are injected at the WalStore trait (create/append/fsync results), real-time effects (the 5 s ack timeout, a full actor channel) are not reachable",
    "property-based testing (proptest, shrinking to replay files), state-aimed generators, differential against a twin executor, generated configurations and injected WAL-store faults at the production entry points",
    "DESIGN.md §3 C17",
)
