check(
    "C18",
    "exploration",
    "Searches generated pairs of follower replica states (deltas of one generated 3-writer history over 20 keys - strings, tombstones, hashes, expiries, G-counters, OR-sets - "
    "delivered in two different orders plus none/one/several extra deliveries; merkle_tree_depth 0/1/2/4/8) for: equal content on independently built HashMaps giving "
    "different digests or divergent buckets; buckets whose key digests differ being reported equal; a client-visible difference that does not show in the key digest; "
    "and, for max_keys_per_sync 1/2/5/1000, a digest-driven exchange (driven through AntiEntropyManager by hand and through MultiNodeSimulation::run_anti_entropy_sync, "
    "ceil(keys/limit)+2 rounds) after which a replica holds something other than its prior value or the merge, or - where all keys of the divergent buckets fit into one "
    "round - has not converged to the merge with equal digests. Silence means no counterexample among the sampled pairs. Three root causes are listed and searched past: "
    "bucket fold in map iteration order (KF-C18-01), key digest blind to everything but outer stamp and string bytes (KF-C18-02), limited rounds re-send the same keys "
    "(KF-C18-03; while open, liveness is not asserted for states with more keys in divergent buckets than the limit); consequences of KF-C07-01/02 are recognised by their C07 signatures.",
    "divergence is judged from sorted KeyDigest lists per bucket (64-bit collisions ignored); followers only apply remote deltas; the code under test iterates RandomState "
    "HashMaps, so which keys a limited round carries is not reproducible and liveness under a binding limit is covered only by the deterministic probe; peer-only differences "
    "(same client view) are not required to show in the digest; gossip/network delivery and src/stateright models are out of scope",
    "property-based testing (proptest, shrinking to replay files) with order-independent reference digests",
    "DESIGN.md §3 C18",
)
