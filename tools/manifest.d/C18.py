check(
    "C18",
    "exploration",
    "Searches generated pairs of follower replica states (deltas of one generated 3-writer history over 20 keys - strings, tombstones, hashes, expiries, G-counters, OR-sets - "
    "delivered in two different orders plus none/one/several extra deliveries; merkle_tree_depth 0/1/2/4/8) for: equal content on independently built HashMaps giving "
    "different digests or divergent buckets; buckets whose key digests differ being reported equal; a client-visible difference that does not show in the key digest; "
    "and, for max_keys_per_sync 1/2/5/1000, a digest-driven exchange (driven through AntiEntropyManager by hand and through MultiNodeSimulation::run_anti_entropy_sync, "
    "ceil(keys/limit)+2 rounds) after which a replica holds something other than its prior value or the merge, or - where all keys of the divergent buckets fit into one "
    "round - has not converged to the merge with equal digests. Also drives long-lived replicas: 2-3 AntiEntropyManagers through generated sequences of local writes, "
    "replication, digest exchanges, request/response round trips, heal and time (every process_peer_digest verdict against the states), and one MultiNodeSimulation "
    "(2-3 SimulatedNodes, SET/DEL, gossip rounds with loss, partition/heal, run_anti_entropy_sync, run_full_anti_entropy) in which every digest a node computes - also after "
    "state that arrived by replication or by an earlier sync - is compared with the digest of an independent replica holding the same state and with the peer's, and every "
    "pair sync / full pass with the merges. Silence means no counterexample among the sampled pairs. Three root causes are listed and searched past: "
    "bucket fold in map iteration order (KF-C18-01), key digest blind to everything but outer stamp and string bytes (KF-C18-02), limited rounds re-send the same keys "
    "(KF-C18-03; while open, liveness is not asserted for states with more keys in divergent buckets than the limit); consequences of KF-C07-01/02 are recognised by their C07 signatures.",
    "divergence is judged from sorted KeyDigest lists per bucket (64-bit collisions ignored); followers only apply remote deltas; the code under test iterates RandomState "
    "HashMaps, so which keys a limited round carries is not reproducible and liveness under a binding limit is covered only by the deterministic probe; peer-only differences "
    "(same client view) are not required to show in the digest; simulator sessions hold LWW strings/tombstones only, <= 3 nodes, <= 6 keys, <= 24 events, the simulator's seeded "
    "gossip timing; real network delivery and src/stateright models are out of scope",
    "property-based testing (proptest, shrinking to replay files) with order-independent reference digests",
    "DESIGN.md §3 C18",
)
