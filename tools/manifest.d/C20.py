check(
    "C20",
    "exploration",
    "For 23 built-in simulations / DST harnesses (executor, list, set, hash, sorted set, transaction, 4 CRDT harnesses, DSTSimulation, RedisDSTSimulation, "
    "MultiNodeSimulation broadcast and partitioned with loss and partitions, partition scenarios, streaming, compaction, WAL, SimulatedConnection, PipelineSimulator, "
    "ScenarioBuilder/SimulationHarness, the discrete-event Simulation, SimulatedObjectStore) generated (seed, preset, operation count) triples are each run four times: "
    "twice in one process and twice in fresh child processes; the four canonical transcripts (operation log, results, violations, final state, verdict) must be identical, "
    "otherwise the first differing field is reported. Silence means no divergence among the sampled triples (12 per harness quick, 150 thorough), not reproducibility in general. "
    "Five root causes of non-reproducibility are listed (KF-C20-01..05) and matched narrowly by harness + first diverging field + shape of the difference.",
    "the transcript is what the public API exposes, with hash-map renderings canonicalised by the harness; BUGGIFY thread-local statistics are reset by the caller; "
    "library-style harnesses are driven by a seed-determined workload of the check's own; the ACL DST (cargo feature `acl`) is not built and not covered; child stderr is ignored",
    "metamorphic property-based testing across process boundaries (proptest triples, child re-invocation)",
    "DESIGN.md §3 C20",
)
