#!/usr/bin/env bash
# tools/seed_final_eval.sh <worktree> <ids…> — clean re-evaluation of kept seeded changes (from /verif/seeded/<id>/patch.diff)
# against the property's own check plus every check recorded as having caught it; folds the result into meta.json ("final_eval").
ROOT="$(cd "$(dirname "${BASH_SOURCE[0]}")/.." && pwd)"
WT="$1"; shift
for id in "$@"; do
  d="$ROOT/seeded/$id"
  checks=$(python3 - "$d/meta.json" <<'PY'
import json,sys
m=json.load(open(sys.argv[1])); own=m["breaks_property"]
cs=[own]+[r["check"] for r in m.get("checks_run",{}).get("results",[]) if r.get("rc")==1 and r["check"]!=own]
print(" ".join(dict.fromkeys(cs)))
PY
)
  SEED_EVAL_WT="$WT" SEED_EVAL_CHECKS="$checks" "$ROOT/tools/seed_eval.sh" "$d" >/dev/null 2>&1
  python3 - "$d" <<'PY'
import json,sys,os
d=sys.argv[1]; m=json.load(open(d+"/meta.json")); e=json.load(open(d+"/eval.json"))
m["final_eval"]={"repo_head":e.get("head"),"results":e.get("results",[]),"detected":any(r.get("rc")==1 for r in e.get("results",[])),"error":e.get("error")}
json.dump(m,open(d+"/meta.json","w"),indent=1)
print(m["id"], "detected" if m["final_eval"]["detected"] else "MISSED", [(r["check"],r["rc"]) for r in e.get("results",[])], e.get("error",""))
PY
  rm -f "$d"/eval.json "$d"/eval_*.log
done
