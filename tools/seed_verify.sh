#!/usr/bin/env bash
# tools/seed_verify.sh <candidate_dir>...   e.g. /tmp/seed-out/C19/1
# Confirms a seeded change independently: in a scratch worktree of /repo HEAD (reused across
# calls for incremental builds): demo passes without the patch, fails with it, and the full
# existing suite still passes with it. Writes <candidate_dir>/verify.json.
set -u
WT=${SEED_VERIFY_WT:-/tmp/seed-verify-wt}
if [ ! -d "$WT" ]; then git -C /repo worktree add --detach "$WT" HEAD >/dev/null 2>&1 || exit 2; fi
cd "$WT" || exit 2
git checkout -q --detach "$(git -C /repo rev-parse HEAD)" 2>/dev/null
for D in "$@"; do
  git reset -q --hard HEAD ; git clean -fdq tests/ src/ examples/ 2>/dev/null
  id=$(echo "$D" | sed -E 's#.*/(C[0-9]+)/([0-9]+)/?$#\1_\2#' | tr 'A-Z' 'a-z')
  name="seed_demo_$id"
  if [ ! -f "$D/demo.rs" ]; then echo "{\"candidate\":\"$D\",\"error\":\"no demo.rs\"}" > "$D/verify.json"; continue; fi
  cp "$D/demo.rs" "tests/$name.rs"
  RUSTFLAGS="--cfg redis_rust_verif" CARGO_TARGET_DIR="$WT/target-verif" RUSTC_WRAPPER= cargo test --offline --test "$name" >"$D/v_demo_without.log" 2>&1; rc_without=$?
  if ! git apply --check -3 "$D/patch.diff" 2>"$D/v_apply.log" && ! git apply --check "$D/patch.diff" 2>>"$D/v_apply.log"; then
    echo "{\"candidate\":\"$D\",\"error\":\"patch does not apply\"}" > "$D/verify.json"; rm -f "tests/$name.rs"; continue; fi
  git apply "$D/patch.diff" 2>/dev/null || git apply -3 "$D/patch.diff"
  RUSTFLAGS="--cfg redis_rust_verif" CARGO_TARGET_DIR="$WT/target-verif" RUSTC_WRAPPER= cargo test --offline --test "$name" >"$D/v_demo_with.log" 2>&1; rc_with=$?
  rm -f "tests/$name.rs"
  RUSTC_WRAPPER= cargo nextest run --workspace --no-fail-fast --offline --test-threads 8 >"$D/v_suite_with.log" 2>&1; rc_suite=$?
  summary=$(grep -E "^\s*Summary" "$D/v_suite_with.log" | tail -1 | sed 's/"/\\"/g')
  echo "{\"candidate\":\"$D\",\"head\":\"$(git rev-parse --short HEAD)\",\"demo_without_rc\":$rc_without,\"demo_with_rc\":$rc_with,\"suite_rc\":$rc_suite,\"suite_summary\":\"$summary\"}" > "$D/verify.json"
  cat "$D/verify.json"
  git reset -q --hard HEAD ; git clean -fdq tests/ src/ examples/ 2>/dev/null
done
