#!/usr/bin/env python3
"""Regenerates the generated regions of DESIGN.md (findings table §8, seeded-change table §9)
from known_findings*.json and seeded/*/meta.json."""
import json, glob, os, re, subprocess
ROOT = os.path.dirname(os.path.dirname(os.path.abspath(__file__)))

def findings():
    rows = []
    files = [os.path.join(ROOT, "known_findings.json")] + sorted(glob.glob(os.path.join(ROOT, "known_findings.d", "*.json")))
    for f in files:
        if not os.path.exists(f): continue
        for e in json.load(open(f)).get("findings", []):
            rows.append(e)
    rows.sort(key=lambda e: e["id"])
    out = ["| id | status | what fails (exact signature in the findings file) |", "|---|---|---|"]
    for e in rows:
        t = e.get("title", "")
        t = re.sub(r"^fixed: property=C\d+ [0-9a-f]+ ", "", t)
        t = t.replace("|", "\\|").replace("\n", " ")
        if len(t) > 330: t = t[:327] + "…"
        st = "open" if e.get("status") == "open" else f"fixed `{e.get('commit','')}`"
        out.append(f"| {e['id']} | {st} | {t} |")
    n_open = sum(1 for e in rows if e.get("status") == "open")
    n_fixed = len(rows) - n_open
    commits = sorted(set(e.get("commit") for e in rows if e.get("status") != "open" and e.get("commit")))
    head = f"{len(rows)} finding ids: {n_fixed} repaired by {len(commits)} `fix:` commits in /repo, {n_open} open (listed, each with a probe and a narrow matcher).\n"
    return head + "\n" + "\n".join(out) + "\n"

def seeded():
    out = ["| seeded change | needs to manifest | result |", "|---|---|---|"]
    det = tot = neutral = 0
    for d in sorted(glob.glob(os.path.join(ROOT, "seeded", "*"))):
        mf = os.path.join(d, "meta.json")
        if not os.path.exists(mf): continue
        m = json.load(open(mf))
        tot += 1
        res = m.get("checks_run", {}).get("results", [])
        detected = m.get("checks_run", {}).get("detected")
        fe = m.get("final_eval") or {}
        late = False
        if not detected and fe.get("detected"):
            # missed at first evaluation, caught by the final evaluation after strengthening
            res, detected, late = fe.get("results", []), True, True
        det += 1 if detected else 0
        by = ", ".join(sorted(set(r["check"] + ":" + (re.search(r"in check '([^']+)'", r.get("first","")) or re.search(r"()", "")).group(1) for r in res if r.get("rc") == 1)))
        hist = m.get("history", "")
        needs = m.get("needs_to_manifest", "").replace("|", "\\|")
        if len(needs) > 260: needs = needs[:257] + "…"
        summ = m.get("summary", "")
        r = ("**caught** by " + by) if detected else "**missed**"
        nz = m.get("neutralised_by_fix")
        if nz:
            neutral += 1
            note = "since /repo `%s` the change no longer breaks the property (the seeder's own demonstration passes with the patch applied)" % nz.get("fix", "").split()[0]
            r = (r + " at the time; " + note) if detected else ("**neutralised**: " + note + "; missed by the check before that")
        if hist: r += " — " + hist
        elif late: r += " — missed by the check as first evaluated (exit 0); caught after the check was strengthened for the class of the miss (final evaluation, see notes)"
        out.append(f"| `{m['id']}` {summ} | {needs} | {r} |")
    return f"{tot} confirmed seeded changes, {det} caught by the registered quick checks; {neutral} no longer break their property since a later `fix:` commit (marked neutralised).\n\n" + "\n".join(out) + "\n"

def checks():
    ns = {}
    exec(open(os.path.join(ROOT, "tools", "design_oracles.py")).read(), ns)
    out = ["| id | level | sub-checks and their measured quick sizes (cases; from the committed evidence) | generator / oracle in brief |", "|---|---|---|---|"]
    for i in range(1, 21):
        pid = "C%02d" % i
        f = os.path.join(ROOT, "evidence", pid + ".json")
        if not os.path.exists(f): continue
        e = json.load(open(f))
        subs = "; ".join(f"`{k}` {v.get('evaluations', 0):,}" + (f" (+{v['inner_evaluations']:,} inner)" if v.get("inner_evaluations") else "") for k, v in e["coverage"].get("checks", {}).items())
        out.append(f"| {pid} | {e['level']} | {subs} | {ns['ORACLES'].get(pid, '')} |")
    return "\n".join(out) + "\n"

s = open(os.path.join(ROOT, "DESIGN.md")).read()
for name, fn in (("findings", findings), ("seeded", seeded), ("checks", checks)):
    b, e = f"<!-- BEGIN GENERATED:{name} -->", f"<!-- END GENERATED:{name} -->"
    if b in s and e in s:
        s = s[:s.index(b) + len(b)] + "\n" + fn() + s[s.index(e):]
open(os.path.join(ROOT, "DESIGN.md"), "w").write(s)
print("DESIGN.md tables regenerated")
