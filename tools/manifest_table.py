check("C15", "exploration",
      "Exhaustive enumeration of all byte strings up to length 6 (quick) / 7 (thorough) over a 12-symbol RESP alphabet, plus generated mutated frames, fragmented streams, every executor reply through all three encoders, and child-process runs for deep nesting / huge lengths; each against a strict harness-owned RESP2 decoder, a one-step prefix-stability relation and a counting allocator. Absence beyond the enumerated bound is not established.",
      "Trusts the harness' strict RESP2 decoder as the reference grammar and the per-thread counting allocator; allocation bound 64*len+4096 bytes is the stated threshold.",
      "exhaustive small-alphabet enumeration + proptest generators vs strict reference decoder (differential, round-trip, prefix metamorphic)",
      "DESIGN.md §3 C15")
