#!/usr/bin/env bash
# tools/sweep.sh <seeds…> — runs every check's quick tier for each seed against /repo; prints one line
# per run. Evidence/replays go to a scratch root (.work/sweeproot) so the committed evidence
# (seed 0) is not overwritten. Binaries must be built (./check --build).
cd "$(dirname "${BASH_SOURCE[0]}")/.." || exit 2
ROOT=$(pwd); SR="$ROOT/.work/sweeproot"
mkdir -p "$SR/evidence" "$SR/replays"
cp properties.jsonl known_findings.json "$SR/"; rm -rf "$SR/known_findings.d"; cp -r known_findings.d "$SR/"
. tools/scale.sh
PROPS=${SWEEP_PROPS:-"C01 C02 C03 C04 C05 C06 C07 C08 C09 C10 C11 C12 C13 C14 C15 C16 C17 C18 C19 C20"}
# the workspace needs harness/spbin/src/main.rs (generated copy of the shipped server binary's source)
mkdir -p harness/spbin/src; cmp -s /repo/src/bin/server_persistent.rs harness/spbin/src/main.rs || cp /repo/src/bin/server_persistent.rs harness/spbin/src/main.rs
for seed in "$@"; do
  for p in $PROPS; do
    pkg=$(echo "$p" | tr 'A-Z' 'a-z'); start=$(date +%s)
    ( cd harness && cargo build --release -p "$pkg" >/dev/null 2>&1 )
    VERIF_ROOT="$SR" VERIF_SCALE=$(quick_scale "$p") timeout -s KILL 3600 harness/target/release/$pkg --tier quick --seed "$seed" > .work/sweep-$p-$seed.log 2>&1; rc=$?
    # process-level tier for the properties it serves (scratch root, its own evidence dir)
    case "$p" in C04|C08|C09|C11|C15)
      if [ $rc -eq 0 ]; then
        ( cd harness && cargo build --release -p spbin -p e2e >/dev/null 2>&1 )
        VERIF_ROOT="$SR" VERIF_EVIDENCE_DIR="$SR/e2e-evidence" VERIF_SCALE=${SWEEP_E2E_SCALE:-100} timeout -s KILL 3600 harness/target/release/e2e --property "$p" --tier quick --seed "$seed" >> .work/sweep-$p-$seed.log 2>&1; rc=$?
      fi ;;
    esac
    echo "seed=$seed $p rc=$rc viol=$(grep -c ^VIOLATION .work/sweep-$p-$seed.log) $(( $(date +%s) - start ))s"
  done
done
