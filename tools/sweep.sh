#!/usr/bin/env bash
# tools/sweep.sh <seeds…> — runs every check's quick tier for each seed; prints one line per run.
cd "$(dirname "${BASH_SOURCE[0]}")/.." || exit 2
for seed in "$@"; do
  for p in C01 C02 C03 C04 C05 C06 C07 C08 C09 C10 C11 C12 C13 C14 C15 C16 C17 C18 C19 C20; do
    start=$(date +%s)
    VERIF_SEED=$seed ./check $p quick > .work/sweep-$p-$seed.log 2>&1; rc=$?
    echo "seed=$seed $p rc=$rc viol=$(grep -c ^VIOLATION .work/sweep-$p-$seed.log) $(( $(date +%s) - start ))s"
  done
done
