#!/usr/bin/env bash
# tools/sweep.sh <seeds…> — runs every check's quick tier for each seed against /repo; prints one line
# per run. Evidence/replays go to a scratch root (.work/sweeproot) so the committed evidence
# (seed 0) is not overwritten. Binaries must be built (./check --build).
cd "$(dirname "${BASH_SOURCE[0]}")/.." || exit 2
ROOT=$(pwd); SR="$ROOT/.work/sweeproot"
mkdir -p "$SR/evidence" "$SR/replays"
cp properties.jsonl known_findings.json "$SR/"; rm -rf "$SR/known_findings.d"; cp -r known_findings.d "$SR/"
. tools/scale.sh
PROPS=${SWEEP_PROPS:-"C01 C02 C03 C04 C05 C06 C07 C08 C09 C10 C11 C12 C13 C14 C15 C16 C17 C18 C19 C20"}
for seed in "$@"; do
  for p in $PROPS; do
    pkg=$(echo "$p" | tr 'A-Z' 'a-z'); start=$(date +%s)
    ( cd harness && cargo build --release -p "$pkg" >/dev/null 2>&1 )
    VERIF_ROOT="$SR" VERIF_SCALE=$(quick_scale "$p") timeout -s KILL 3600 harness/target/release/$pkg --tier quick --seed "$seed" > .work/sweep-$p-$seed.log 2>&1; rc=$?
    echo "seed=$seed $p rc=$rc viol=$(grep -c ^VIOLATION .work/sweep-$p-$seed.log) $(( $(date +%s) - start ))s"
  done
done
