#!/usr/bin/env bash
# tools/seed_eval.sh <candidate_dir> [more candidate dirs…]
# Runs the property's quick check against a scratch worktree of /repo HEAD with the seeded
# change applied (never /repo itself). Writes <candidate_dir>/eval.json: detected or not,
# exit code, the VIOLATION lines and the first violation message.
set -u
ROOT="$(cd "$(dirname "${BASH_SOURCE[0]}")/.." && pwd)"
WT=${SEED_EVAL_WT:-/tmp/seed-eval-wt}
if [ ! -d "$WT" ]; then git -C /repo worktree add --detach "$WT" HEAD >/dev/null 2>&1 || exit 2; fi
( cd "$WT" && git reset -q --hard HEAD && git checkout -q --detach "$(git -C /repo rev-parse HEAD)" )
for D in "$@"; do
  prop=$(echo "$D" | sed -E 's#.*/(C[0-9]+)[-/]([0-9]+)/?$#\1#')
  ( cd "$WT" && git reset -q --hard HEAD && git clean -fdq src/ tests/ examples/ 2>/dev/null )
  if ! ( cd "$WT" && { git apply "$D/patch.diff" 2>/dev/null || git apply -3 "$D/patch.diff" 2>/dev/null; } ); then
    echo "{\"candidate\":\"$D\",\"error\":\"patch does not apply at $(git -C /repo rev-parse --short HEAD)\"}" | tee "$D/eval.json"; continue
  fi
  checks="${SEED_EVAL_CHECKS:-$prop}"
  res=""
  for c in $checks; do
    log="$D/eval_$c.log"
    . "$ROOT/tools/scale.sh"
    VERIF_SCALE=${SEED_EVAL_SCALE:-$(quick_scale "$c")} "$ROOT/tools/mutant_run.sh" "$WT" "$c" "${SEED_EVAL_TIER:-quick}" >"$log" 2>&1; rc=$?
    nviol=$(grep -c "^VIOLATION" "$log")
    first=$(grep -m1 -E "violation in check" "$log" | cut -c1-300 | python3 -c 'import sys,json; print(json.dumps(sys.stdin.read().strip())[1:-1])')
    res="$res{\"check\":\"$c\",\"rc\":$rc,\"violation_lines\":$nviol,\"first\":\"$first\"},"
  done
  echo "{\"candidate\":\"$D\",\"head\":\"$(git -C /repo rev-parse --short HEAD)\",\"results\":[${res%,}]}" | tee "$D/eval.json"
done
( cd "$WT" && git reset -q --hard HEAD )
