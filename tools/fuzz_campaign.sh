#!/usr/bin/env bash
# tools/fuzz_campaign.sh <property> <target> <runs> [max_len]
# Coverage-guided campaign (libFuzzer via cargo-fuzz, nightly) with the semantic oracle inside
# the target. Fresh work corpus from fuzz/seeds/<target> (+ an empty input), -seed=VERIF_SEED,
# -runs=<runs>. A crash is copied to replays/ and reported as a VIOLATION (exit 1); build
# failure or tool trouble is exit 2. Writes one line of JSON to .work/fuzz/<target>.stats
# (executions, coverage, corpus size, and the counters of the target's own VERIF-STAT line).
set -u
ROOT="$(cd "$(dirname "${BASH_SOURCE[0]}")/.." && pwd)"
PROP="$1"; TARGET="$2"; RUNS="$3"; MAXLEN="${4:-1024}"
SEED="${VERIF_SEED:-0}"; [ "$SEED" = "0" ] && SEED=1   # libFuzzer: 0 means random
mkdir -p "$ROOT/.work/fuzz"
cd "$ROOT/fuzz" || exit 2
if ! RUSTFLAGS="--cfg redis_rust_verif" CARGO_NET_OFFLINE=true cargo +nightly fuzz build -O --fuzz-dir "$ROOT/fuzz" "$TARGET" >"$ROOT/.work/fuzz/build-$TARGET.log" 2>&1; then
  echo "fuzz: build of $TARGET failed (inconclusive)" >&2; tail -20 "$ROOT/.work/fuzz/build-$TARGET.log" >&2; exit 2
fi
BIN="$ROOT/fuzz/target/x86_64-unknown-linux-gnu/release/$TARGET"
WORK="$ROOT/.work/fuzz/$TARGET-corpus"; ART="$ROOT/.work/fuzz/$TARGET-artifacts"
rm -rf "$WORK" "$ART"; mkdir -p "$WORK" "$ART"
[ -d "$ROOT/fuzz/seeds/$TARGET" ] && cp "$ROOT/fuzz/seeds/$TARGET"/* "$WORK"/ 2>/dev/null
: > "$WORK/empty"
LOG="$ROOT/.work/fuzz/$TARGET.log"
"$BIN" "$WORK" -runs="$RUNS" -seed="$SEED" -max_len="$MAXLEN" -len_control=0 -rss_limit_mb=4096 -malloc_limit_mb=1024 \
   -timeout=20 -artifact_prefix="$ART/" -print_final_stats=1 >"$LOG" 2>&1
rc=$?
execs=$(grep -E "stat::number_of_executed_units" "$LOG" | awk '{print $2}'); execs=${execs:-0}
cov=$(grep -E "cov: [0-9]+" "$LOG" | tail -1 | sed -E 's/.*cov: ([0-9]+).*/\1/'); cov=${cov:-0}
corp=$(ls "$WORK" | wc -l)
crash=$(ls "$ART" 2>/dev/null | head -1)
# counters the structured targets print at exit ("VERIF-STAT target=… name=N …"): what was built
# from the bytes, and what was set aside under an open known finding (kf_* / abstained_*)
tstats=$(grep -E "^VERIF-STAT " "$LOG" | tail -1 | tr ' ' '\n' | grep -E "^[a-z0-9_]+=[0-9]+$" | sed -E 's/^([a-z0-9_]+)=([0-9]+)$/"\1":\2/' | paste -sd, -)
echo "{\"target\":\"$TARGET\",\"runs_requested\":$RUNS,\"executions\":$execs,\"coverage_edges\":$cov,\"corpus\":$corp,\"seed\":$SEED,\"crash\":\"${crash}\",\"target_stats\":{${tstats}}}" > "$ROOT/.work/fuzz/$TARGET.stats"
if [ -n "$crash" ]; then
  mkdir -p "$ROOT/replays"
  dest="$ROOT/replays/fuzz-$PROP-$TARGET-$(echo "$crash" | sed 's/[^a-zA-Z0-9]/_/g').bin"
  cp "$ART/$crash" "$dest"
  grep -E "panicked at|assertion|ERROR: (AddressSanitizer|libFuzzer)" -A3 "$LOG" | head -12 >&2
  echo "VIOLATION property=$PROP replay=$dest"
  exit 1
fi
if [ $rc -ne 0 ]; then echo "fuzz: $TARGET exited $rc without an artifact (inconclusive)" >&2; tail -5 "$LOG" >&2; exit 2; fi
echo "[${PROP}] fuzz ${TARGET}: executions=$execs cov=$cov corpus=$corp" >&2
exit 0
