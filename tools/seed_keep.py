#!/usr/bin/env python3
"""tools/seed_keep.py <candidate_dir>…  — copies a confirmed seeded change into /verif/seeded/<Cxx>-<n>/
(patch.diff, demo.rs, README.md from the sub-agent, meta.json with what was verified and which check caught it)."""
import json, os, re, shutil, sys
ROOT = os.path.dirname(os.path.dirname(os.path.abspath(__file__)))
for d in sys.argv[1:]:
    d = d.rstrip("/")
    m = re.search(r"(C\d+)/(\d+)$", d)
    prop, n = m.group(1), str(int(m.group(2)) + int(os.environ.get("SEED_ID_OFFSET", "0")))
    ver = json.load(open(os.path.join(d, "verify.json"))) if os.path.exists(os.path.join(d, "verify.json")) else {}
    ev = json.load(open(os.path.join(d, "eval.json"))) if os.path.exists(os.path.join(d, "eval.json")) else {}
    confirmed = ver.get("demo_without_rc") == 0 and ver.get("demo_with_rc", 0) != 0 and ver.get("suite_rc") == 0
    if not confirmed:
        print("NOT CONFIRMED, not kept:", d, ver); continue
    dest = os.path.join(ROOT, "seeded", f"{prop}-{n}")
    os.makedirs(dest, exist_ok=True)
    for f in ("patch.diff", "demo.rs", "README.md"):
        if os.path.exists(os.path.join(d, f)):
            shutil.copy(os.path.join(d, f), os.path.join(dest, f))
    readme = open(os.path.join(d, "README.md")).read() if os.path.exists(os.path.join(d, "README.md")) else ""
    needs = ""
    mm = re.search(r"(?is)(what it needs[^\n]*\n+)(.*?)(\n#|\n\*\*|\Z)", readme)
    if mm: needs = " ".join(mm.group(2).split())[:600]
    results = ev.get("results", [])
    # one-line summary: files touched by the patch
    files = re.findall(r"^\+\+\+ b/(\S+)", open(os.path.join(d, "patch.diff")).read(), re.M)
    summary = "(" + ", ".join(files) + ")"
    old_meta = {}
    if os.path.exists(os.path.join(ROOT, "seeded", f"{prop}-{n}", "meta.json")):
        old_meta = json.load(open(os.path.join(ROOT, "seeded", f"{prop}-{n}", "meta.json")))
    history = old_meta.get("history", "")
    was_missed = old_meta.get("checks_run", {}).get("detected") is False
    now_detected = any(r.get("rc") == 1 for r in results)
    if ev.get("first_eval_missed_by_own_check") and now_detected and not history:
        history = "missed by the property's own check as first evaluated (exit 0); caught after that check was strengthened for the class of the miss (see notes/%s.md)" % prop
    if was_missed and now_detected and not history:
        history = "missed by the check as first built (exit 0); caught after the check was strengthened for the class of the miss (see notes/%s.md)" % prop
    meta = {
        "id": f"{prop}-{n}",
        "breaks_property": prop,
        "summary": summary,
        "history": history,
        "origin": "independent sub-agent given only the property text and a scratch worktree (nothing from /verif)" + ({"2": " - second round, told which sites the first round had used", "4": " - third round, told which sites rounds 1-2 had used and pointed at the glue code", "6": " - fourth round, pointed at scale, configuration, long histories and restart cycles", "8": " - fifth round, told which regions rounds 1-4 had used and asked for two cooperating sites, error/retry/recovery paths, interleavings and unusual inputs", "10": " - sixth round (session 4): fresh seeders, only the property record and general guidance (sites a reviewer would not look at first: callers, helpers, configuration, error/retry/recovery paths, thresholds, long-lived state)", "16": " - ninth round (session 4, ten properties, 25-minute limit, one or two changes each): told the sites of rounds 6-8 and asked to stay inside the way the shipped binaries and the public API are really used", "14": " - eighth round (session 4): told which sites rounds 6-7 had used and asked for two cooperating sites, ordering assumptions, numeric and boundary semantics, life-cycle, well-meant fixes wrong for a rarer legal case", "12": " - seventh round (session 4): told which sites round 6 had used for the property and asked for scale thresholds, abstraction-keyed comparisons/caches, state surviving or lost across resets/restarts, error paths returning partial success, rare commands/options, ambient process state"}.get(os.environ.get("SEED_ID_OFFSET", ""), "")),
        "needs_to_manifest": needs or "see README.md",
        "confirmed_by_me": {
            "how": "tools/seed_verify.sh in scratch worktree /tmp/seed-verify-wt: demo.rs as tests/seed_demo_*.rs without the patch (must pass), with the patch (must fail), then the full existing suite with the patch (cargo nextest, must be 691 passed)",
            "repo_head": ver.get("head"),
            "demo_without_patch_rc": ver.get("demo_without_rc"),
            "demo_with_patch_rc": ver.get("demo_with_rc"),
            "suite_with_patch": ver.get("suite_summary", "").strip(),
        },
        "checks_run": {
            "how": "tools/seed_eval.sh: patch applied to scratch worktree of /repo HEAD, `tools/mutant_run.sh <wt> <check> quick`",
            "repo_head": ev.get("head"),
            "results": results,
            "detected": any(r.get("rc") == 1 for r in results),
        },
    }
    json.dump(meta, open(os.path.join(dest, "meta.json"), "w"), indent=1)
    print("kept", dest, "detected=", meta["checks_run"]["detected"])
