#!/usr/bin/env bash
# tools/fuzz_mutant_run.sh <repo_worktree_dir> <target> <runs> [max_len]
# Sensitivity runs for the libFuzzer targets: builds the fuzz crate against a *scratch
# worktree* of the repository (never /repo) and runs one campaign there, exactly as
# tools/fuzz_campaign.sh runs it (seed corpus + empty input, -seed=VERIF_SEED, -runs).
# Everything lives in the sibling directory <dir>.fzverif (fuzz crate copy, a one-member copy
# of the harness workspace so that vcore, too, is built against the worktree, target dir,
# corpus, artifacts); remove it together with the worktree: rm -rf <dir>.fzverif
# exit 1 = the target crashed (mutant caught), 0 = clean, 2 = build or tool trouble.
set -u
WT="$(cd "$1" && pwd)"; TARGET="$2"; RUNS="$3"; MAXLEN="${4:-1024}"
ROOT="$(cd "$(dirname "${BASH_SOURCE[0]}")/.." && pwd)"
SEED="${VERIF_SEED:-0}"; [ "$SEED" = "0" ] && SEED=1
SCR="${WT}.fzverif"; H="$SCR/harness"; F="$SCR/fuzz"
mkdir -p "$H" "$F" "$SCR/work"
# one-member harness workspace: vcore (symlink) resolved against the worktree
sed -e "s#path = \"/repo\"#path = \"$WT\"#" -e 's#^members = .*#members = ["vcore"]#' "$ROOT/harness/Cargo.toml" > "$H/Cargo.toml"
cp "$ROOT/harness/Cargo.lock" "$H/Cargo.lock"
rm -rf "$H/vcore"; ln -s "$ROOT/harness/vcore" "$H/vcore"
# fuzz crate copy pointing at the worktree and at that vcore
rm -rf "$F/fuzz_targets"; cp -r "$ROOT/fuzz/fuzz_targets" "$F/fuzz_targets"
sed -e "s#path = \"/repo\"#path = \"$WT\"#" -e "s#path = \"../harness/vcore\"#path = \"$H/vcore\"#" "$ROOT/fuzz/Cargo.toml" > "$F/Cargo.toml"
cp "$ROOT/fuzz/Cargo.lock" "$F/Cargo.lock"
cd "$F" || exit 2
if ! RUSTFLAGS="--cfg redis_rust_verif" CARGO_NET_OFFLINE=true cargo +nightly fuzz build -O --fuzz-dir "$F" "$TARGET" >"$SCR/work/build-$TARGET.log" 2>&1; then
  echo "fuzz_mutant_run: build of $TARGET against $WT failed" >&2; tail -20 "$SCR/work/build-$TARGET.log" >&2; exit 2
fi
grep -q "Compiling redis-sim .*($WT)" "$SCR/work/build-$TARGET.log" && echo "fuzz_mutant_run: redis-sim compiled from $WT" >&2
BIN="$F/target/x86_64-unknown-linux-gnu/release/$TARGET"
WORK="$SCR/work/$TARGET-corpus"; ART="$SCR/work/$TARGET-artifacts"; LOG="$SCR/work/$TARGET.log"
rm -rf "$WORK" "$ART"; mkdir -p "$WORK" "$ART"
# VERIF_FUZZ_NO_SEEDS=1: start from the empty input alone (how fast does the fuzzer get there by itself?)
[ -z "${VERIF_FUZZ_NO_SEEDS:-}" ] && [ -d "$ROOT/fuzz/seeds/$TARGET" ] && cp "$ROOT/fuzz/seeds/$TARGET"/* "$WORK"/ 2>/dev/null
: > "$WORK/empty"
st=$(date +%s)
"$BIN" "$WORK" -runs="$RUNS" -seed="$SEED" -max_len="$MAXLEN" -len_control=0 -rss_limit_mb=4096 -malloc_limit_mb=1024 \
   -timeout=20 -artifact_prefix="$ART/" -print_final_stats=1 >"$LOG" 2>&1
rc=$?
en=$(date +%s)
execs=$(grep -E "stat::number_of_executed_units" "$LOG" | awk '{print $2}'); execs=${execs:-?}
crash=$(ls "$ART" 2>/dev/null | head -1)
if [ -n "$crash" ]; then
  # libFuzzer prints no final stats on a crash: the last status line carries the execution count
  at=$(grep -E "^#[0-9]+" "$LOG" | tail -1 | sed -E 's/^#([0-9]+).*/\1/')
  grep -E "panicked at" -A6 "$LOG" | head -14 >&2
  echo "CAUGHT target=$TARGET after about ${at:-0} executions, $((en-st)) s; artifact $ART/$crash"
  exit 1
fi
[ $rc -ne 0 ] && { echo "fuzz_mutant_run: $TARGET exited $rc without an artifact" >&2; tail -5 "$LOG" >&2; exit 2; }
echo "NOT CAUGHT target=$TARGET executions=$execs in $((en-st)) s"
exit 0
