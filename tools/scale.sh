# quick-tier work factor (percent of each crate's base quick size); sourced by ./check and tools/seed_eval.sh
quick_scale() {
  case "$1" in
    C01) VERIF_SCALE=1500 ;; C02) VERIF_SCALE=300 ;;  C03) VERIF_SCALE=120 ;;  C04) VERIF_SCALE=400 ;;
    C05) VERIF_SCALE=600 ;;  C06) VERIF_SCALE=600 ;;  C07) VERIF_SCALE=800 ;;  C08) VERIF_SCALE=400 ;;
    C09) VERIF_SCALE=150 ;;  C10) VERIF_SCALE=800 ;;  C11) VERIF_SCALE=300 ;;  C12) VERIF_SCALE=400 ;;
    C13) VERIF_SCALE=1200 ;; C14) VERIF_SCALE=400 ;;  C15) VERIF_SCALE=1000 ;; C16) VERIF_SCALE=600 ;;
    C17) VERIF_SCALE=800 ;;  C18) VERIF_SCALE=1000 ;; C19) VERIF_SCALE=300 ;;  C20) VERIF_SCALE=100 ;;
    *) VERIF_SCALE=100 ;;
  esac
  echo "$VERIF_SCALE"
}
