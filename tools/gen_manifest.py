#!/usr/bin/env python3
"""Regenerates /verif/MANIFEST.json from the table below (single source of truth)."""
import json, os, sys
ROOT = os.path.dirname(os.path.dirname(os.path.abspath(__file__)))

# id -> (level category, level text, level note, technique, design ref)
CHECKS = {}
NOT_YET = {}
READY = set(l.strip() for l in open(os.path.join(ROOT, "tools", "ready.txt")) if l.strip())

def check(pid, cat, text, note, technique, ref):
    CHECKS[pid] = dict(cat=cat, text=text, note=note, technique=technique, ref=ref)

exec(open(os.path.join(ROOT, "tools", "manifest_table.py")).read())
import glob
for f in sorted(glob.glob(os.path.join(ROOT, "tools", "manifest.d", "*.py"))):
    exec(open(f).read())

# additions of the fourth session (seed rounds 6 and 7), appended to the level text
ADDENDA = {
 "C01": "Session 4: KEYS/SCAN patterns are generated (1-5 atoms out of literal, *, ?, [set], [^set], [a-b]) next to the fixed list.",
 "C02": "Session 4: GETSET is also spelled SET k v GET and SETNX as one-pair MSETNX; key names now include hash-tag, unicode and long names; response pools that start (almost) empty ((16,0), (64,1), (256,0), (256,2)) next to the tiny and the default ones.",
 "C04": "Session 4: the scale class (1 case in 400) also writes to sockets that take 1000..65536 bytes per write, has frames around 256 KiB and pipelines of 70..1100 medium replies.",
 "C05": "Session 4: interferer Permute (rearrangements that keep type, size and the multiset of strings of the watched value); sub-check long_bodies (enumerated transaction lengths 255..16385, thorough 100001: every command +QUEUED, EXEC returns exactly n results equal to consecutive execution).",
 "C06": "Session 4: scale class (1 case in 30): a short program, 1100/4200/5200 filler writes at one node (Bulk step), a short program; late delivery of what the first part left in flight.",
 "C07": "Session 4: KF-C07-02 is delimited by its exact rule: for every pair of operands of different CRDT kinds merge keeps the operand with the newer outer stamp whole (ties keep self); any other resolution is a violation.",
 "C08": "Session 4: every third operation writes the same bytes (a write equal to what is held is still a write with its own stamp).",
 "C09": "Session 4: append faults with partial progress reported as Io / DiskFull (not only PartialWrite).",
 "C10": "Session 4: entry sizes up to 16 MiB+1; sub-check rejected_appends (append calls rejected without a byte written, two logs written from one thread: each log recovers exactly the entries whose append returned Ok).",
 "C11": "Session 4: every store call of a recovery is hit by a time-out, NotFound (objects the manifest names), a flipped bit or a truncation (segment/checkpoint objects): recover()/recover_with_wal() must fail or return exactly the full merge; half of the arrangements produce their checkpoint object through CheckpointManager::create_checkpoint.",
 "C12": "Session 4: sub-check large_values (enumerated: one update of 64 KiB+1 / 1 MiB+1 / 4 MiB+1 / 16 MiB+1, thorough 64 MiB+1, as a long string or a wide hash, through three confirmed flushes and three compaction passes with recovery after each); write_buffer also runs two overlapping flushes on the shared buffer.",
 "C13": "Session 4: layouts carry re-delivered exact copies of earlier updates in later segments, and leftovers of failed operations (an unreferenced object under the next segment key: valid copy / half / garbage).",
 "C19": "Session 4: write-burst batches up to 5000 deltas in router_new; sub-check router_lifecycle (one long-lived selective router, peers learnt and forgotten between batches, senders outside the ring).",
 "C20": "Session 4: the scenario harness draws absolute-time commands (PEXPIRETIME, EXPIRETIME, PEXPIREAT, SET PXAT); harness crash_sim drives CrashSimulator directly with coarse ticks (several recoveries due in one advance_time call).",
}
for _pid, _t in ADDENDA.items():
    if _pid in CHECKS:
        CHECKS[_pid]["text"] = CHECKS[_pid]["text"].rstrip() + " " + _t

props = [json.loads(l)["id"] for l in open(os.path.join(ROOT, "properties.jsonl")) if l.strip()]
checks = []
na = []
for pid in props:
    if pid in CHECKS and pid in READY and os.path.isdir(os.path.join(ROOT, "harness", "props", pid.lower())):
        c = CHECKS[pid]
        checks.append({
            "property_id": pid,
            "quick_cmd": f"./check {pid} quick",
            "thorough_cmd": f"./check {pid} thorough",
            "evidence_file": f"evidence/{pid}.json",
            "replay_cmd_template": "./check --replay {path}",
            "engine": "vcheck",
            "level_claimed": {"category": c["cat"], "text": c["text"], "design_ref": c["ref"]},
            "level_note": c["note"],
            "technique": c["technique"],
        })
    else:
        na.append({"property_id": pid, "reason": NOT_YET.get(pid, "check not built yet in this session (work in progress); see DESIGN.md for the planned generated-input check")})

hook_commits = [l.strip() for l in open(os.path.join(ROOT, "tools", "hook_commits.txt")) if l.strip()]
manifest = {
    "version": 1,
    "setup_cmd": "./check --build",
    "hooks": {
        "guard": "redis_rust_verif",
        "enable": "RUSTFLAGS/--cfg redis_rust_verif via /verif/harness/.cargo/config.toml ([build] rustflags); the harness depends on /repo by path, so every build uses /repo's current working tree",
        "baseline_off_cmd": "cd /repo && RUSTC_WRAPPER= cargo nextest run --workspace --no-fail-fast --offline --test-threads 8",
        "source_commits": hook_commits,
        "add_only": True,
    },
    "engines": [
        {"name": "vcheck", "path": "harness/", "serves_properties": [c["property_id"] for c in checks],
         "kind_free_text": "Rust workspace: vcore (proptest-as-library runner with seeded parallel workers, shrinking to replay files, enumerated-space driver, evidence writer, known-findings matcher, strict RESP decoder, scripted streams, harness clock, command grammar, keyspace dumps, CRDT projections) + one binary per property under harness/props/"},
    ],
    "checks": checks,
    "not_applicable": na,
    "notes": "All checks: exit 0 held / exit 1 + VIOLATION line / exit 2 inconclusive (build failure, watchdog). Every run is a pure function of /repo's tree and VERIF_SEED. Known findings: /verif/known_findings.json.",
}
json.dump(manifest, open(os.path.join(ROOT, "MANIFEST.json"), "w"), indent=1)
print("MANIFEST.json:", len(checks), "checks,", len(na), "not_applicable")
