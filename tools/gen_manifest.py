#!/usr/bin/env python3
"""Regenerates /verif/MANIFEST.json from the table below (single source of truth)."""
import json, os, sys
ROOT = os.path.dirname(os.path.dirname(os.path.abspath(__file__)))

# id -> (level category, level text, level note, technique, design ref)
CHECKS = {}
NOT_YET = {}
READY = set(l.strip() for l in open(os.path.join(ROOT, "tools", "ready.txt")) if l.strip())

def check(pid, cat, text, note, technique, ref):
    CHECKS[pid] = dict(cat=cat, text=text, note=note, technique=technique, ref=ref)

exec(open(os.path.join(ROOT, "tools", "manifest_table.py")).read())
import glob
for f in sorted(glob.glob(os.path.join(ROOT, "tools", "manifest.d", "*.py"))):
    exec(open(f).read())

props = [json.loads(l)["id"] for l in open(os.path.join(ROOT, "properties.jsonl")) if l.strip()]
checks = []
na = []
for pid in props:
    if pid in CHECKS and pid in READY and os.path.isdir(os.path.join(ROOT, "harness", "props", pid.lower())):
        c = CHECKS[pid]
        checks.append({
            "property_id": pid,
            "quick_cmd": f"./check {pid} quick",
            "thorough_cmd": f"./check {pid} thorough",
            "evidence_file": f"evidence/{pid}.json",
            "replay_cmd_template": "./check --replay {path}",
            "engine": "vcheck",
            "level_claimed": {"category": c["cat"], "text": c["text"], "design_ref": c["ref"]},
            "level_note": c["note"],
            "technique": c["technique"],
        })
    else:
        na.append({"property_id": pid, "reason": NOT_YET.get(pid, "check not built yet in this session (work in progress); see DESIGN.md for the planned generated-input check")})

hook_commits = [l.strip() for l in open(os.path.join(ROOT, "tools", "hook_commits.txt")) if l.strip()]
manifest = {
    "version": 1,
    "setup_cmd": "./check --build",
    "hooks": {
        "guard": "redis_rust_verif",
        "enable": "RUSTFLAGS/--cfg redis_rust_verif via /verif/harness/.cargo/config.toml ([build] rustflags); the harness depends on /repo by path, so every build uses /repo's current working tree",
        "baseline_off_cmd": "cd /repo && RUSTC_WRAPPER= cargo nextest run --workspace --no-fail-fast --offline --test-threads 8",
        "source_commits": hook_commits,
        "add_only": True,
    },
    "engines": [
        {"name": "vcheck", "path": "harness/", "serves_properties": [c["property_id"] for c in checks],
         "kind_free_text": "Rust workspace: vcore (proptest-as-library runner with seeded parallel workers, shrinking to replay files, enumerated-space driver, evidence writer, known-findings matcher, strict RESP decoder, scripted streams, harness clock, command grammar, keyspace dumps, CRDT projections) + one binary per property under harness/props/"},
    ],
    "checks": checks,
    "not_applicable": na,
    "notes": "All checks: exit 0 held / exit 1 + VIOLATION line / exit 2 inconclusive (build failure, watchdog). Every run is a pure function of /repo's tree and VERIF_SEED. Known findings: /verif/known_findings.json.",
}
json.dump(manifest, open(os.path.join(ROOT, "MANIFEST.json"), "w"), indent=1)
print("MANIFEST.json:", len(checks), "checks,", len(na), "not_applicable")
