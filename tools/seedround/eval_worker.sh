#!/usr/bin/env bash
# eval worker i: takes property tickets from /tmp/seedN/queue, evaluates both candidates with the property's quick check
i=$1
export SEED_EVAL_WT=/tmp/seed-eval-wt$i
while true; do
  t=$(ls /tmp/seedN/queue 2>/dev/null | head -1)
  if [ -z "$t" ]; then [ -f /tmp/seedN/stop ] && exit 0; sleep 20; continue; fi
  mv /tmp/seedN/queue/$t /tmp/seedN/taken/$t 2>/dev/null || continue
  p=$t
  for n in 1 2; do
    d=/tmp/seedN-out/$p/$n
    [ -f $d/patch.diff ] || continue
    /verif/tools/seed_eval.sh $d >> /tmp/seedN-out/$p/eval.log 2>&1
  done
  echo "$p evaluated by worker $i" >> /tmp/seedN/eval.done
done
