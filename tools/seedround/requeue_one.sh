#!/usr/bin/env bash
# requeue_one.sh <Cxx> <n> [checks]  -> re-evaluate one candidate now in eval worktree 9 (foreground)
p=$1; n=$2; shift; shift
SEED_EVAL_WT=/tmp/seed-eval-wt9 SEED_EVAL_CHECKS="$*" /verif/tools/seed_eval.sh /tmp/seedN-out/$p/$n
