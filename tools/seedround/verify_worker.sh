#!/usr/bin/env bash
i=$1
export SEED_VERIFY_WT=/tmp/seed-verify-wt$i
export CARGO_PROFILE_DEV_DEBUG=0 CARGO_PROFILE_TEST_DEBUG=0 CARGO_INCREMENTAL=0
while true; do
  t=$(ls /tmp/seedN/vqueue 2>/dev/null | head -1)
  if [ -z "$t" ]; then [ -f /tmp/seedN/stop ] && exit 0; sleep 20; continue; fi
  mv /tmp/seedN/vqueue/$t /tmp/seedN/vtaken/$t 2>/dev/null || continue
  p=${t%_*}; n=${t#*_}
  /verif/tools/seed_verify.sh /tmp/seedN-out/$p/$n >> /tmp/seedN/verify_worker$i.log 2>&1
  echo "$p/$n verified by $i" >> /tmp/seedN/verify.done
done
