#!/usr/bin/env bash
# done_one.sh Cxx  -> free the seeder's target, enqueue verification and evaluation
p=$1
rm -rf /tmp/seedN/$p/target /tmp/seedN/$p/target-verif /tmp/seedN/$p/target*
(cd /tmp/seedN/$p && git checkout -q -- . && git clean -fdq tests/ src/ examples/ 2>/dev/null)
for n in 1 2; do [ -f /tmp/seedN-out/$p/$n/patch.diff ] && touch /tmp/seedN/vqueue/${p}_$n; done
touch /tmp/seedN/queue/$p
