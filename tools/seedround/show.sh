#!/usr/bin/env bash
for p in C02 C04 C06 C08 C09 C11 C13 C17 C19 C20; do for n in 1 2; do
  v=$(jq -r '"v:" + (.demo_without_rc|tostring) + "/" + (.demo_with_rc|tostring) + "/" + (.suite_rc|tostring) + (if .error then " ERR:" + .error else "" end)' /tmp/seedN-out/$p/$n/verify.json 2>/dev/null || echo "v:-")
  e=$(jq -r '[.results[]?|(.check + "=" + (.rc|tostring))]|join(",")' /tmp/seedN-out/$p/$n/eval.json 2>/dev/null || echo "-")
  er=$(jq -r '.error // ""' /tmp/seedN-out/$p/$n/eval.json 2>/dev/null)
  echo "$p/$n $v e:$e $er"
done; done
