#!/usr/bin/env python3
"""tools/mark_fixed.py KF-Cxx-nn <commit>  — flips a finding to status=fixed in known_findings.d."""
import json, sys, glob, os
ROOT = os.path.dirname(os.path.dirname(os.path.abspath(__file__)))
fid, commit = sys.argv[1], sys.argv[2]
done = False
for f in sorted(glob.glob(os.path.join(ROOT, "known_findings.d", "*.json"))) + [os.path.join(ROOT, "known_findings.json")]:
    d = json.load(open(f))
    ch = False
    for e in d.get("findings", []):
        if e.get("id") == fid:
            if e.get("status") != "fixed":
                e["status"] = "fixed"; e["commit"] = commit
                t = e.get("title", "")
                if not t.startswith("fixed:"):
                    e["title"] = f"fixed: property={e.get('property')} {commit} {t}"
                ch = True
            done = True
    if ch:
        json.dump(d, open(f, "w"), indent=1, ensure_ascii=False)
        print("marked", fid, "fixed in", os.path.basename(f))
if not done:
    print("NOT FOUND", fid)
