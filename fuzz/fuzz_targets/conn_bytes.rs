#![no_main]
//! C04: arbitrary bytes + fuzzer-chosen segmentation through the real connection handler:
//! terminates at EOF, no panic, output is a well-formed RESP2 reply stream.
use libfuzzer_sys::fuzz_target;
use redis_sim::production::{verif_hooks, ConnectionConfig, ShardedActorState};
use vcore::resp::decode_stream;
use vcore::stream::ScriptedStream;

fuzz_target!(|data: &[u8]| {
    if data.len() < 3 || data.len() > 2048 {
        return;
    }
    let cfg_byte = data[0];
    let seg = data[1] as usize;
    let body = &data[2..];
    // segmentation: chunk size derived from one byte (1..=64) or everything at once
    let chunk = if seg == 0 { body.len() } else { 1 + (seg % 64) };
    let chunks: Vec<Vec<u8>> = body.chunks(chunk.max(1)).map(|c| c.to_vec()).collect();
    let cfg = ConnectionConfig {
        min_pipeline_buffer: [1usize, 14, 60, usize::MAX][(cfg_byte & 3) as usize],
        batch_threshold: [1usize, 2, 6, 16][((cfg_byte >> 2) & 3) as usize],
        read_buffer_size: [16usize, 64, 8192, 8192][((cfg_byte >> 4) & 3) as usize],
        ..ConnectionConfig::default()
    };
    let out = vcore::block_on(async {
        let state = ShardedActorState::with_shards(1);
        let (stream, out) = ScriptedStream::new(chunks);
        verif_hooks::run_connection(stream, state, cfg).await;
        let b = out.lock().unwrap().clone();
        b
    });
    if let Err((sofar, off, why)) = decode_stream(&out) {
        panic!(
            "output is not a well-formed reply stream at byte {} ({}); {} replies decoded",
            off,
            why,
            sofar.len()
        );
    }
});
