#![no_main]
//! C14/C10: arbitrary bytes into the storage decoders, in the order recovery uses them:
//! no panic, no over-read.
use libfuzzer_sys::fuzz_target;
use redis_sim::streaming::{CheckpointReader, SegmentReader, WalEntry};

fuzz_target!(|data: &[u8]| {
    if data.is_empty() || data.len() > 1 << 16 {
        return;
    }
    let sel = data[0] % 3;
    let body = &data[1..];
    match sel {
        0 => {
            if let Ok(r) = SegmentReader::open(body) {
                if r.validate().is_ok() {
                    let _ = r.read_all();
                }
            }
        }
        1 => {
            if let Ok(r) = CheckpointReader::open(body) {
                if r.validate().is_ok() {
                    let _ = r.load();
                }
            }
        }
        _ => {
            let mut off = 0usize;
            let mut guard = 0;
            while off < body.len() && guard < 10_000 {
                guard += 1;
                match WalEntry::decode(&body[off..]) {
                    Some((_e, n)) => {
                        assert!(n > 0 && off + n <= body.len(), "WAL decode over-read");
                        off += n;
                    }
                    None => break,
                }
            }
        }
    }
});
