#![no_main]
//! C07: bytes -> ONE consistent history ("world", as harness/props/c07) of 2 or 3
//! `ShardReplicaState` replicas over two keys, driven through the real API (`record_write /
//! record_delete / record_hash_write / record_hash_delete / apply_remote_delta`, the G/PN
//! counter and G/OR set mutators behind `ReplicatedValue::with_crdt` + `crdt_mut()`,
//! `with_replication_factor`, gossip of current values and delayed delivery of earlier
//! snapshots). Every distinct value a replica ever held for key "k" is the world's pool;
//! the fuzzer then picks triples from THAT pool only (values of two different histories are not
//! co-reachable: one stamp would carry two payloads, and LWW is of course not commutative
//! there), optionally replacing one operand by the merge of two pool values.
//!
//! In-target oracle on `vcore::proj::peer_view`, reported per component (crdt, vector_clock,
//! expiry_ms, timestamp, replication_factor):
//!   merge(a,a) = a;  merge(a,b) = merge(b,a) for the three pairs;
//!   merge(a,merge(b,c)) = merge(merge(a,b),c).
//!
//! Open finding KF-C07-02 (type-mismatch resolution "newer outer stamp wins, ties keep self"
//! drops one operand, so it is no join) is delimited exactly as props/c07 delimits it: only a
//! difference in the `crdt` component, and only (associativity with operands not all of one
//! CRDT kind) or (commutativity with operands of different kinds AND equal outer stamps).
//! Counted (`kf_c07_02` in the VERIF-STAT line); VERIF_STRICT_KF=1 turns it into a crash.
//! Everything else - any other component, equal kinds, different kinds with different stamps
//! under commutativity - is a violation. KF-C07-01 is fixed (87d41d0): nothing tolerated.
use arbitrary::Unstructured;
use libfuzzer_sys::fuzz_target;
use redis_sim::redis::SDS;
use redis_sim::replication::lattice::{LamportClock, ReplicaId};
use redis_sim::replication::state::{CrdtValue, ReplicatedValue, ReplicationDelta, ShardReplicaState};
use redis_sim::replication::ConsistencyLevel;
use serde_json::Value as J;
use vcore::proj::{peer_components, peer_view};

#[path = "shared/mod.rs"]
mod shared;
use shared::stats::Counter;

static N_WORLDS: Counter = Counter::new("worlds");
static N_TRIPLES: Counter = Counter::new("triples");
static N_NONTRIVIAL: Counter = Counter::new("triples_differing_operands_from_different_replicas");
static N_MIXED: Counter = Counter::new("triples_of_mixed_kinds");
static N_KF: Counter = Counter::new("kf_c07_02");
static STATS: &[&Counter] = &[&N_WORLDS, &N_TRIPLES, &N_NONTRIVIAL, &N_MIXED, &N_KF];

const PAYLOADS: [&str; 3] = ["x", "y", ""];
const FIELDS: [&str; 3] = ["f", "g", "h"];
const ELEMS: [&str; 3] = ["e0", "e1", "e2"];
const KEYS: [&str; 2] = ["k", "o"];
const EXPIRY: [Option<u64>; 3] = [None, Some(100), Some(200)];

#[derive(Clone, Debug)]
enum Op {
    Write { r: u8, key: u8, p: u8, exp: u8 },
    Delete { r: u8, key: u8 },
    HSet { r: u8, key: u8, fields: Vec<(u8, u8)> },
    HDel { r: u8, key: u8, fields: Vec<u8> },
    /// kind 0 GCounter, 1 PNCounter, 2 GSet, 3 ORSet; `stamp`: outer stamp := the replica's
    /// ticked Lamport clock (as `set`/`hash_set` do), else what `with_crdt` made it
    Crdt { r: u8, key: u8, kind: u8, act: u8, arg: u8, stamp: bool },
    SetRf { r: u8, key: u8, rf: u8 },
    /// gossip / anti-entropy: `from`'s current value is applied at `to`
    Sync { to: u8, from: u8, key: u8 },
    /// delayed / re-ordered delivery of an earlier snapshot
    Deliver { to: u8, snap: u16 },
}

struct Snap {
    key: u8,
    holder: u8,
    value: ReplicatedValue,
    view: J,
}

fn kind_of(c: &CrdtValue) -> u8 {
    match c {
        CrdtValue::GCounter(_) => 0,
        CrdtValue::PNCounter(_) => 1,
        CrdtValue::GSet(_) => 2,
        CrdtValue::ORSet(_) => 3,
        CrdtValue::Lww(_) => 4,
        CrdtValue::Hash(_) => 5,
    }
}

fn new_of_kind(kind: u8) -> CrdtValue {
    match kind {
        0 => CrdtValue::new_gcounter(),
        1 => CrdtValue::new_pncounter(),
        2 => CrdtValue::new_gset(),
        _ => CrdtValue::new_orset(),
    }
}

fn crdt_op(st: &mut ShardReplicaState, key: &str, kind: u8, act: u8, arg: u8, stamp: bool) {
    let rid = st.replica_id;
    let kind = kind % 4;
    let mut rv = match st.replicated_keys.remove(key) {
        Some(v) if kind_of(&v.crdt) == kind => v,
        // absent, or the key changes type: a fresh value from the public constructor
        _ => ReplicatedValue::with_crdt(new_of_kind(kind), rid),
    };
    let elem = ELEMS[arg as usize % ELEMS.len()].to_string();
    match rv.crdt_mut() {
        CrdtValue::GCounter(g) => {
            if act % 2 == 0 {
                g.increment(rid)
            } else {
                g.increment_by(rid, 1 + arg as u64)
            }
        }
        CrdtValue::PNCounter(p) => match act % 3 {
            0 => p.increment(rid),
            1 => p.decrement(rid),
            _ => p.decrement_by(rid, 1 + arg as u64),
        },
        CrdtValue::GSet(s) => {
            s.add(elem);
        }
        CrdtValue::ORSet(s) => {
            if act % 3 == 2 {
                s.remove(&elem);
            } else {
                s.add(elem, rid);
            }
        }
        _ => unreachable!(),
    }
    if stamp {
        rv.timestamp = st.lamport_clock.tick();
    }
    st.replicated_keys.insert(key.to_string(), rv);
}

fn run_world(nrep: u8, causal: u8, ops: &[Op]) -> Vec<Snap> {
    let mut reps: Vec<ShardReplicaState> = (0..nrep)
        .map(|i| {
            let lvl = if causal & (1 << i) != 0 { ConsistencyLevel::Causal } else { ConsistencyLevel::Eventual };
            ShardReplicaState::new(ReplicaId::new(i as u64 + 1), lvl)
        })
        .collect();
    let mut snaps: Vec<Snap> = Vec::new();
    for op in ops {
        let touched: Option<(u8, u8)> = match op {
            Op::Write { r, key, p, exp } => {
                let (r, key) = (*r % nrep, *key % 2);
                reps[r as usize].record_write(KEYS[key as usize].to_string(), SDS::from_str(PAYLOADS[*p as usize % 3]), EXPIRY[*exp as usize % 3]);
                Some((r, key))
            }
            Op::Delete { r, key } => {
                let (r, key) = (*r % nrep, *key % 2);
                reps[r as usize].record_delete(KEYS[key as usize].to_string());
                Some((r, key))
            }
            Op::HSet { r, key, fields } => {
                let (r, key) = (*r % nrep, *key % 2);
                if fields.is_empty() {
                    None
                } else {
                    let fs: Vec<(String, SDS)> =
                        fields.iter().map(|(f, p)| (FIELDS[*f as usize % 3].to_string(), SDS::from_str(PAYLOADS[*p as usize % 3]))).collect();
                    reps[r as usize].record_hash_write(KEYS[key as usize].to_string(), fs);
                    Some((r, key))
                }
            }
            Op::HDel { r, key, fields } => {
                let (r, key) = (*r % nrep, *key % 2);
                if fields.is_empty() {
                    None
                } else {
                    let fs: Vec<String> = fields.iter().map(|f| FIELDS[*f as usize % 3].to_string()).collect();
                    reps[r as usize].record_hash_delete(KEYS[key as usize].to_string(), fs);
                    Some((r, key))
                }
            }
            Op::Crdt { r, key, kind, act, arg, stamp } => {
                let (r, key) = (*r % nrep, *key % 2);
                crdt_op(&mut reps[r as usize], KEYS[key as usize], *kind, *act, *arg, *stamp);
                Some((r, key))
            }
            Op::SetRf { r, key, rf } => {
                let (r, key) = (*r % nrep, *key % 2);
                let k = KEYS[key as usize];
                if let Some(v) = reps[r as usize].replicated_keys.remove(k) {
                    reps[r as usize].replicated_keys.insert(k.to_string(), v.with_replication_factor(1 + *rf % 3));
                    Some((r, key))
                } else {
                    None
                }
            }
            Op::Sync { to, from, key } => {
                let (to, from, key) = (*to % nrep, *from % nrep, *key % 2);
                let k = KEYS[key as usize];
                if to == from {
                    None
                } else if let Some(v) = reps[from as usize].replicated_keys.get(k).cloned() {
                    let src = reps[from as usize].replica_id;
                    reps[to as usize].apply_remote_delta(ReplicationDelta::new(k.to_string(), v, src));
                    Some((to, key))
                } else {
                    None
                }
            }
            Op::Deliver { to, snap } => {
                let to = *to % nrep;
                if snaps.is_empty() {
                    None
                } else {
                    let idx = (*snap as usize * snaps.len()) >> 16;
                    let s = &snaps[idx];
                    let key = s.key;
                    let d = ReplicationDelta::new(KEYS[key as usize].to_string(), s.value.clone(), ReplicaId::new(s.holder as u64 + 1));
                    reps[to as usize].apply_remote_delta(d);
                    Some((to, key))
                }
            }
        };
        if let Some((r, key)) = touched {
            if let Some(v) = reps[r as usize].replicated_keys.get(KEYS[key as usize]) {
                let view = peer_view(v);
                if !snaps.iter().any(|s| s.key == key && s.view == view) {
                    snaps.push(Snap { key, holder: r, value: v.clone(), view });
                }
            }
        }
    }
    snaps
}

fn show_val(v: &ReplicatedValue) -> String {
    peer_view(v).to_string()
}

fn ts(t: &LamportClock) -> String {
    format!("({},r{})", t.time, t.replica_id.0)
}

fn first_diff(x: &ReplicatedValue, y: &ReplicatedValue) -> Vec<(&'static str, J, J)> {
    let cx = peer_components(x);
    let cy = peer_components(y);
    cx.into_iter().zip(cy).filter(|(p, q)| p.1 != q.1).map(|(p, q)| (p.0, p.1, q.1)).collect()
}

fn kf_open() -> bool {
    std::env::var_os("VERIF_STRICT_KF").is_none()
}

fn check_comm(a: &ReplicatedValue, b: &ReplicatedValue) {
    let ab = a.merge(b);
    let ba = b.merge(a);
    // KF-C07-02 delimited by its exact rule (as props/c07 since session 4): operands of different
    // kinds -> the one with the newer outer stamp is kept whole, ties keep self; anything else is
    // not the listed finding
    if kind_of(&a.crdt) != kind_of(&b.crdt) {
        for (x, y, xy, name) in [(a, b, &ab, "merge(a,b)"), (b, a, &ba, "merge(b,a)")] {
            let keep = if y.timestamp > x.timestamp { y } else { x };
            let want = peer_view(keep)["crdt"].clone();
            let got = peer_view(xy)["crdt"].clone();
            if want != got {
                panic!(
                    "kind mismatch resolved differently from the listed rule (newer outer stamp kept whole, ties keep self):\n  {}.crdt = {}\n  the rule keeps {}\n  a = {}\n  b = {}",
                    name,
                    got,
                    want,
                    show_val(a),
                    show_val(b)
                );
            }
        }
    }
    if peer_view(&ab) == peer_view(&ba) {
        return;
    }
    for (name, x, y) in first_diff(&ab, &ba) {
        // KF-C07-02: on a tie of the outer stamps between different kinds each side keeps its own
        let tolerated = name == "crdt" && kind_of(&a.crdt) != kind_of(&b.crdt) && a.timestamp == b.timestamp && kf_open();
        if tolerated {
            N_KF.inc();
            continue;
        }
        panic!(
            "commutativity violated in component '{}':\n  merge(a,b).{} = {}\n  merge(b,a).{} = {}\n  a = {}\n  b = {}\n  (outer stamps a={} b={}, kinds a={} b={})",
            name,
            name,
            x,
            name,
            y,
            show_val(a),
            show_val(b),
            ts(&a.timestamp),
            ts(&b.timestamp),
            a.crdt.type_name(),
            b.crdt.type_name()
        );
    }
}

fn check_idem(a: &ReplicatedValue) {
    let aa = a.merge(a);
    if peer_view(&aa) == peer_view(a) {
        return;
    }
    let d = first_diff(&aa, a);
    let (name, x, y) = &d[0];
    panic!("idempotence violated in component '{}':\n  merge(a,a).{} = {}\n  a.{} = {}\n  a = {}", name, name, x, name, y, show_val(a));
}

fn check_assoc(a: &ReplicatedValue, b: &ReplicatedValue, c: &ReplicatedValue) {
    let l = a.merge(&b.merge(c));
    let r = a.merge(b).merge(c);
    if peer_view(&l) == peer_view(&r) {
        return;
    }
    let (ka, kb, kc) = (kind_of(&a.crdt), kind_of(&b.crdt), kind_of(&c.crdt));
    for (name, x, y) in first_diff(&l, &r) {
        // KF-C07-02: which operands survive a type mismatch depends on the grouping
        let tolerated = name == "crdt" && !(ka == kb && kb == kc) && kf_open();
        if tolerated {
            N_KF.inc();
            continue;
        }
        panic!(
            "associativity violated in component '{}':\n  merge(a,merge(b,c)).{} = {}\n  merge(merge(a,b),c).{} = {}\n  a = {}\n  b = {}\n  c = {}\n  (outer stamps a={} b={} c={}, kinds {} {} {})",
            name,
            name,
            x,
            name,
            y,
            show_val(a),
            show_val(b),
            show_val(c),
            ts(&a.timestamp),
            ts(&b.timestamp),
            ts(&c.timestamp),
            a.crdt.type_name(),
            b.crdt.type_name(),
            c.crdt.type_name()
        );
    }
}

fn op(u: &mut Unstructured<'_>) -> Op {
    let r = u.arbitrary::<u8>().unwrap_or(0);
    // key "k" is the one compared, "o" only moves clocks
    let key = if u.int_in_range(0..=7u8).unwrap_or(0) == 0 { 1 } else { 0 };
    let b = |u: &mut Unstructured<'_>| u.arbitrary::<u8>().unwrap_or(0);
    match u.int_in_range(0..=23u8).unwrap_or(0) {
        0..=3 => Op::Write { r, key, p: b(u), exp: b(u) },
        4 | 5 => Op::Delete { r, key },
        6..=8 => {
            let n = u.int_in_range(1..=2usize).unwrap_or(1);
            Op::HSet { r, key, fields: (0..n).map(|_| (b(u), b(u))).collect() }
        }
        9 | 10 => {
            let n = u.int_in_range(1..=2usize).unwrap_or(1);
            Op::HDel { r, key, fields: (0..n).map(|_| b(u)).collect() }
        }
        11..=13 => Op::Crdt { r, key, kind: b(u), act: b(u), arg: b(u), stamp: u.arbitrary::<bool>().unwrap_or(true) },
        14 => Op::SetRf { r, key, rf: b(u) },
        15..=20 => Op::Sync { to: r, from: b(u), key },
        _ => Op::Deliver { to: r, snap: u.arbitrary::<u16>().unwrap_or(0) },
    }
}

fuzz_target!(|data: &[u8]| {
    shared::stats::register("merge_laws", STATS);
    if data.len() < 6 || data.len() > 512 {
        return;
    }
    let mut u = Unstructured::new(data);
    let head = u.arbitrary::<u8>().unwrap_or(0);
    let nrep = 2 + (head & 1);
    let causal = (head >> 1) & 7;
    let npicks = 1 + ((head >> 4) & 7) as usize;
    // picks first (fixed width), the rest of the input is the history
    let mut picks = Vec::with_capacity(npicks);
    for _ in 0..npicks {
        let a = u.arbitrary::<u16>().unwrap_or(0);
        let b = u.arbitrary::<u16>().unwrap_or(0);
        let c = u.arbitrary::<u16>().unwrap_or(0);
        let m = u.arbitrary::<u16>().unwrap_or(0);
        let mode = u.arbitrary::<u8>().unwrap_or(0) % 8;
        picks.push((a, b, c, m, mode));
    }
    let mut ops = Vec::new();
    while !u.is_empty() && ops.len() < 16 {
        ops.push(op(&mut u));
    }
    if ops.is_empty() {
        return;
    }
    let snaps = run_world(nrep, causal, &ops);
    let pool: Vec<&Snap> = snaps.iter().filter(|s| s.key == 0).collect();
    if pool.is_empty() {
        return;
    }
    N_WORLDS.inc();
    let n = pool.len();
    let at = |i: u16| pool[(i as usize * n) >> 16];
    for (pa, pb, pc, pm, mode) in picks {
        let (sa, sb, sc, sm) = (at(pa), at(pb), at(pc), at(pm));
        let derived;
        let (a, b, c): (&ReplicatedValue, &ReplicatedValue, &ReplicatedValue) = match mode {
            // what a fresh replica holds after receiving the two values in that order
            6 => {
                derived = sa.value.merge(&sm.value);
                (&derived, &sb.value, &sc.value)
            }
            7 => {
                derived = sc.value.merge(&sm.value);
                (&sa.value, &sb.value, &derived)
            }
            _ => (&sa.value, &sb.value, &sc.value),
        };
        N_TRIPLES.inc();
        if sa.view != sb.view && sa.holder != sb.holder {
            N_NONTRIVIAL.inc();
        }
        let (ka, kb, kc) = (kind_of(&a.crdt), kind_of(&b.crdt), kind_of(&c.crdt));
        if !(ka == kb && kb == kc) {
            N_MIXED.inc();
        }
        check_idem(a);
        check_idem(b);
        check_idem(c);
        check_comm(a, b);
        check_comm(b, c);
        check_comm(a, c);
        check_assoc(a, b, c);
    }
});
