#![no_main]
//! C14: bytes -> a small world of replicated updates built through the real API (the
//! interpreter of harness/props/c14/src/worldgen.rs, included by path as C11 includes it:
//! LWW strings with expiry / replication factor, key tombstones, hashes with fields and field
//! tombstones, counters, sets, vector clocks, far-ahead stamps) -> every encoding.
//!
//! In-target oracle
//!  round trip (every iteration, all four encodings): WalEntry from_delta/encode/decode/
//!    to_delta and a WalRotator file set, SegmentWriter -> SegmentReader open/validate/
//!    read_all (+ header fields, + RecoveryManager::recover), CheckpointWriter ->
//!    CheckpointReader open/validate/load (+ header fields, + RecoveryManager::recover), all
//!    five GossipMessage variants serialize/deserialize: (key, source, value) identical in the
//!    serde-based `vcore::proj::peer_view` AND the serde-free `worldgen::access_view`.
//!  damage: the input carries three mutation descriptors, ONE for the segment, ONE for the
//!    checkpoint, ONE for one WAL file (all three images exist anyway; each is judged on its own
//!    under a single fault): bit flip / byte overwrite / truncation / insertion of 1..3 bytes at a
//!    fuzzer-chosen offset - anywhere, or aimed at a byte of a structural field (magic, version,
//!    counts, stamps, checksums, length prefixes, padding). Every reader pipeline, in the order
//!    recovery uses it, returns an error - or, WAL, the exact intact prefix of that file with all
//!    other files complete - or data identical to what was written. Never different data; a
//!    panic aborts the process.
//!  Gossip messages are JSON without a checksum: the property's damage clause names segment,
//!    checkpoint and WAL only, so gossip is round-trip only (as in props/c14).
//!
//! Open finding met here: KF-C10-01 (owned by C10; the 8-byte stamp of a WAL entry is outside
//! the entry CRC). Delimited exactly as props/c10 / props/c14 do: after the mutation every byte
//! of some entry's frame except its bytes 4..12 is unchanged and recovery returns exactly the
//! written list with the stored stamp in exactly those entries. Counted
//! (`kf_c10_01_stamp_only` in the VERIF-STAT line); VERIF_STRICT_KF=1 turns it into a crash.
use arbitrary::Unstructured;
use futures::FutureExt;
use libfuzzer_sys::fuzz_target;
use redis_sim::replication::{GossipMessage, ReplicaId, ReplicatedValue, ReplicationDelta};
use redis_sim::streaming::{
    CheckpointConfig, CheckpointInfo, CheckpointManager, CheckpointReader, CheckpointWriter, Compression, InMemoryObjectStore,
    InMemoryWalStore, Manifest, ManifestManager, ObjectStore, RecoveryManager, SegmentInfo, SegmentReader, SegmentWriter, WalEntry,
    WalRotator,
};
use serde_json::{json, Value as J};
use std::collections::{BTreeMap, HashMap};
use std::sync::Arc;
use vcore::proj::peer_view;
use vcore::time::VerifTime;

#[path = "/verif/harness/props/c14/src/worldgen.rs"]
mod worldgen;
use worldgen::{Op, Payload, WorldSpec};

#[path = "shared/mod.rs"]
mod shared;
use shared::stats::Counter;
use shared::wal::{self as walref, FileImg, Verdict};

static N_WORLDS: Counter = Counter::new("worlds");
static N_SEG: Counter = Counter::new("mut_segment");
static N_CK: Counter = Counter::new("mut_checkpoint");
static N_WAL: Counter = Counter::new("mut_wal");
static N_DETECTED: Counter = Counter::new("mutations_detected");
static N_INVISIBLE: Counter = Counter::new("mutations_accepted_identical");
static N_KF: Counter = Counter::new("kf_c10_01_stamp_only");
static N_FORGED: Counter = Counter::new("abstained_self_consistent_frame");
static STATS: &[&Counter] = &[&N_WORLDS, &N_SEG, &N_CK, &N_WAL, &N_DETECTED, &N_INVISIBLE, &N_KF, &N_FORGED];

fn ready<F: std::future::Future>(f: F) -> F::Output {
    f.now_or_never().expect("in-memory store future was not immediately ready")
}

fn vproj(v: &ReplicatedValue) -> J {
    json!({"peer": peer_view(v), "fields": worldgen::access_view(v)})
}

fn dproj(d: &ReplicationDelta) -> J {
    json!({"key": d.key, "src": d.source_replica.0, "value": vproj(&d.value)})
}

fn projs(ds: &[ReplicationDelta]) -> Vec<J> {
    ds.iter().map(dproj).collect()
}

fn first_diff(a: &[J], b: &[J]) -> String {
    if a.len() != b.len() {
        return format!("{} updates decoded, {} encoded", b.len(), a.len());
    }
    for (i, (x, y)) in a.iter().zip(b.iter()).enumerate() {
        if x != y {
            let cut = |s: String| s.chars().take(600).collect::<String>();
            return format!("update #{}: encoded {} but decoded {}", i, cut(x.to_string()), cut(y.to_string()));
        }
    }
    "no difference".into()
}

// ---------------------------------------------------------------------------------------
// bytes -> world
// ---------------------------------------------------------------------------------------

const NAMES: &[&str] = &[
    "k",
    "key:1",
    "",
    "a b",
    "line\r\nbreak",
    "\0nul\0",
    "\u{7f}\u{80}\u{ff}",
    "\u{43a}\u{43b}\u{44e}\u{447}-\u{9375}-\u{1f511}",
    "\"quote\\back",
    "{\"json\":1}",
    "s0",
    "s1",
    "h0",
    "RSEGRCHKRWAL",
];

fn names(u: &mut Unstructured<'_>, lo: usize, hi: usize, nonempty: bool, prefix: &str) -> Vec<String> {
    let n = u.int_in_range(lo..=hi).unwrap_or(lo);
    let mut out: Vec<String> = Vec::new();
    for i in 0..n {
        let mut s = NAMES[u.int_in_range(0..=NAMES.len() - 1).unwrap_or(0)].to_string();
        if nonempty && s.is_empty() {
            s = format!("{}e{}", prefix, i);
        }
        if out.contains(&s) {
            s = format!("{}#{}", s, i);
        }
        out.push(s);
    }
    out
}

fn payload(u: &mut Unstructured<'_>) -> Payload {
    const SPECIAL: &[&[u8]] = &[b"", b"0", b"-0", b"9223372036854775807", b"\r\n", b"\0", b"GESR", b"RSEGRCHKRWAL", b"xxxxxxxxxxxxxxxxxxxxxxx", b"xxxxxxxxxxxxxxxxxxxxxxxx"];
    match u.int_in_range(0..=5u8).unwrap_or(0) {
        0 => Payload::Bytes(SPECIAL[u.int_in_range(0..=SPECIAL.len() - 1).unwrap_or(0)].to_vec()),
        1 => Payload::Bytes(vec![u.arbitrary::<u8>().unwrap_or(0)]),
        2 => Payload::Big { len: u.int_in_range(25..=400u32).unwrap_or(25), seed: u.arbitrary::<u8>().unwrap_or(0) },
        _ => {
            let n = u.int_in_range(0..=24usize).unwrap_or(0);
            Payload::Bytes(u.bytes(n.min(u.len())).map(|b| b.to_vec()).unwrap_or_default())
        }
    }
}

fn expiry(u: &mut Unstructured<'_>) -> Option<u64> {
    match u.int_in_range(0..=5u8).unwrap_or(0) {
        0..=2 => None,
        3 => Some(u.int_in_range(1..=100_000u64).unwrap_or(1) * 1000),
        4 => Some([0u64, 1, 999, u64::MAX, 1 << 63][u.int_in_range(0..=4usize).unwrap_or(0)]),
        _ => Some(u.arbitrary::<u64>().unwrap_or(0)),
    }
}

fn rf(u: &mut Unstructured<'_>) -> Option<u8> {
    if u.int_in_range(0..=5u8).unwrap_or(0) == 0 {
        Some(u.arbitrary::<u8>().unwrap_or(0))
    } else {
        None
    }
}

fn op(u: &mut Unstructured<'_>) -> Op {
    let rep = u.arbitrary::<u8>().unwrap_or(0);
    let key = u.arbitrary::<u8>().unwrap_or(0);
    match u.int_in_range(0..=9u8).unwrap_or(0) {
        0..=2 => Op::Write { rep, key, val: payload(u), expiry: expiry(u), rf: rf(u) },
        3 => Op::Del { rep, key },
        4 | 5 => {
            let n = u.int_in_range(1..=4usize).unwrap_or(1);
            Op::HSet { rep, key, fields: (0..n).map(|_| (u.arbitrary::<u8>().unwrap_or(0), payload(u))).collect() }
        }
        6 => {
            let n = u.int_in_range(1..=3usize).unwrap_or(1);
            Op::HDel { rep, key, fields: (0..n).map(|_| u.arbitrary::<u8>().unwrap_or(0)).collect() }
        }
        7 => Op::Sync { from: rep, to: u.arbitrary::<u8>().unwrap_or(0), key },
        8 => Op::Bump {
            rep,
            key,
            ahead: match u.int_in_range(0..=3u8).unwrap_or(0) {
                0 => u.int_in_range(1..=50u64).unwrap_or(1),
                1 => u.int_in_range(1000..=100_000u64).unwrap_or(1000),
                2 => 1u64 << 40,
                _ => u64::MAX >> 1,
            },
        },
        _ => {
            let n = u.int_in_range(0..=6usize).unwrap_or(0);
            Op::Crdt {
                rep,
                key,
                kind: u.arbitrary::<u8>().unwrap_or(0),
                muts: (0..n)
                    .map(|_| (u.arbitrary::<u8>().unwrap_or(0), u.arbitrary::<u8>().unwrap_or(0), u.arbitrary::<u8>().unwrap_or(0)))
                    .collect(),
                expiry: expiry(u),
                rf: rf(u),
                time: if u.arbitrary::<bool>().unwrap_or(false) { u.int_in_range(0..=100u64).unwrap_or(0) } else { u.arbitrary::<u64>().unwrap_or(0) },
            }
        }
    }
}

fn world(u: &mut Unstructured<'_>) -> WorldSpec {
    let flags = u.arbitrary::<u8>().unwrap_or(0);
    let keys = names(u, 1, 4, false, "s");
    let fields = names(u, 1, 3, true, "f");
    let typed_split = if flags & 4 != 0 { Some((u.arbitrary::<u8>().unwrap_or(0) as usize % (keys.len() + 1)) as u8) } else { None };
    let mut ops = Vec::new();
    // the first op always emits an update
    ops.push(if flags & 8 != 0 {
        Op::HSet { rep: u.arbitrary::<u8>().unwrap_or(0), key: 255, fields: vec![(u.arbitrary::<u8>().unwrap_or(0), payload(u))] }
    } else {
        Op::Write { rep: u.arbitrary::<u8>().unwrap_or(0), key: 0, val: payload(u), expiry: expiry(u), rf: rf(u) }
    });
    let n = u.int_in_range(0..=11usize).unwrap_or(0);
    for _ in 0..n {
        if u.is_empty() {
            break;
        }
        ops.push(op(u));
    }
    WorldSpec { causal: flags & 1 != 0, n_reps: 1 + (flags >> 4) % 3, keys, fields, typed_split, sharded: flags & 2 != 0, ops }
}

// ---------------------------------------------------------------------------------------
// writers / readers (as harness/props/c14)
// ---------------------------------------------------------------------------------------

fn write_segment(deltas: &[ReplicationDelta]) -> Vec<u8> {
    let mut w = SegmentWriter::new(Compression::None);
    for d in deltas {
        w.write_delta(d).unwrap_or_else(|e| panic!("SegmentWriter::write_delta failed on a generated update: {}", e));
    }
    w.finish().unwrap_or_else(|e| panic!("SegmentWriter::finish failed: {}", e))
}

fn seg_direct(img: &[u8]) -> Result<Vec<ReplicationDelta>, String> {
    let r = SegmentReader::open(img).map_err(|e| format!("open: {}", e))?;
    r.validate().map_err(|e| format!("validate: {}", e))?;
    r.read_all().map_err(|e| format!("read_all: {}", e))
}

struct SegRecovery {
    store: InMemoryObjectStore,
    mgr: RecoveryManager<InMemoryObjectStore>,
    key: String,
}

impl SegRecovery {
    fn new(deltas: &[ReplicationDelta], size: usize) -> Self {
        let store = InMemoryObjectStore::new();
        let key = "p/segments/segment-00000000.seg".to_string();
        let mut m = Manifest::new(1);
        m.add_segment(SegmentInfo {
            id: 0,
            key: key.clone(),
            record_count: deltas.len() as u32,
            size_bytes: size as u64,
            min_timestamp: deltas.iter().map(|d| d.value.timestamp.time).min().unwrap_or(0),
            max_timestamp: deltas.iter().map(|d| d.value.timestamp.time).max().unwrap_or(0),
        });
        ready(ManifestManager::new(store.clone(), "p").save(&m)).expect("manifest save on an in-memory store");
        let mgr = RecoveryManager::new(store.clone(), "p", 1);
        SegRecovery { store, mgr, key }
    }
    fn run(&self, img: &[u8]) -> Result<Vec<ReplicationDelta>, String> {
        ready(self.store.put(&self.key, img)).map_err(|e| e.to_string())?;
        let r = ready(self.mgr.recover()).map_err(|e| format!("recover: {}", e))?;
        Ok(r.deltas)
    }
    fn run_progress(&self) -> Result<Vec<ReplicationDelta>, String> {
        let r = ready(self.mgr.recover_with_progress(|_| {})).map_err(|e| format!("recover_with_progress: {}", e))?;
        Ok(r.deltas)
    }
}

fn last_per_key(deltas: &[ReplicationDelta]) -> BTreeMap<String, ReplicatedValue> {
    let mut m = BTreeMap::new();
    for d in deltas {
        m.insert(d.key.clone(), d.value.clone());
    }
    m
}

fn state_proj(m: &HashMap<String, ReplicatedValue>) -> BTreeMap<String, J> {
    m.iter().map(|(k, v)| (k.clone(), vproj(v))).collect()
}

fn write_checkpoint(state: &BTreeMap<String, ReplicatedValue>, ts_ms: u64, last_seg: u64) -> Vec<u8> {
    let hm: HashMap<String, ReplicatedValue> = state.iter().map(|(k, v)| (k.clone(), v.clone())).collect();
    CheckpointWriter::new(Compression::None)
        .write(hm, ts_ms, last_seg)
        .unwrap_or_else(|e| panic!("CheckpointWriter::write failed on a generated state: {}", e))
}

/// (state, key_count, timestamp_ms, last_segment_id)
type CkOut = (BTreeMap<String, J>, u64, u64, u64);

fn ck_direct(img: &[u8]) -> Result<CkOut, String> {
    let r = CheckpointReader::open(img).map_err(|e| format!("open: {}", e))?;
    r.validate().map_err(|e| format!("validate: {}", e))?;
    let d = r.load().map_err(|e| format!("load: {}", e))?;
    Ok((state_proj(&d.state), r.key_count(), r.timestamp_ms(), r.last_segment_id()))
}

struct CkRecovery {
    store: InMemoryObjectStore,
    mgr: RecoveryManager<InMemoryObjectStore>,
    key: String,
}

impl CkRecovery {
    fn new(key_count: u64, ts_ms: u64, last_seg: u64) -> Self {
        let store = InMemoryObjectStore::new();
        let key = "p/checkpoints/chk-0000000000000001.chk".to_string();
        let mut m = Manifest::new(1);
        m.checkpoint = Some(CheckpointInfo { key: key.clone(), timestamp_ms: ts_ms, key_count, last_segment_id: last_seg });
        ready(ManifestManager::new(store.clone(), "p").save(&m)).expect("manifest save on an in-memory store");
        let mgr = RecoveryManager::new(store.clone(), "p", 1);
        CkRecovery { store, mgr, key }
    }
    fn run(&self, img: &[u8]) -> Result<BTreeMap<String, J>, String> {
        ready(self.store.put(&self.key, img)).map_err(|e| e.to_string())?;
        let r = ready(self.mgr.recover()).map_err(|e| format!("recover: {}", e))?;
        match r.checkpoint_state {
            Some(s) => Ok(state_proj(&s)),
            None => panic!("harness: RecoveryManager::recover returned Ok without the checkpoint the manifest names"),
        }
    }
    fn run_progress(&self) -> Result<BTreeMap<String, J>, String> {
        let r = ready(self.mgr.recover_with_progress(|_| {})).map_err(|e| format!("recover_with_progress: {}", e))?;
        match r.checkpoint_state {
            Some(s) => Ok(state_proj(&s)),
            None => panic!("harness: recover_with_progress returned Ok without the checkpoint the manifest names"),
        }
    }
    fn run_manager(&self) -> Result<BTreeMap<String, J>, String> {
        let cm = CheckpointManager::with_time_source(
            Arc::new(self.store.clone()),
            "p".to_string(),
            ManifestManager::new(self.store.clone(), "p"),
            CheckpointConfig::test(),
            VerifTime::new(0),
        );
        let d = ready(cm.load_checkpoint(&self.key)).map_err(|e| format!("load_checkpoint: {}", e))?;
        Ok(state_proj(&d.state))
    }
}

/// All deltas through a WalRotator (stamp = the delta's own Lamport time, as the node does).
fn write_wal(deltas: &[ReplicationDelta], max_file_size: usize) -> (InMemoryWalStore, Vec<FileImg>) {
    let store = InMemoryWalStore::new();
    let mut rot = WalRotator::new(store.clone(), max_file_size).unwrap_or_else(|e| panic!("WalRotator::new: {}", e));
    let mut files: BTreeMap<u64, Vec<walref::E>> = BTreeMap::new();
    for d in deltas {
        let ts = d.value.timestamp.time;
        let e = WalEntry::from_delta(d, ts).unwrap_or_else(|e| panic!("WalEntry::from_delta: {}", e));
        let seq = rot.append(&e).unwrap_or_else(|e| panic!("WalRotator::append on a fault-free store: {}", e));
        files.entry(seq).or_default().push((e.data.clone(), ts));
    }
    rot.sync().unwrap_or_else(|e| panic!("WalRotator::sync: {}", e));
    let imgs = files
        .into_iter()
        .map(|(seq, entries)| {
            let name = walref::file_name(seq);
            let bytes = store.get_file_data(&name).unwrap_or_else(|| panic!("append reported sequence {} but the store has no file {}", seq, name));
            FileImg::new(name, seq, bytes, entries).unwrap_or_else(|e| panic!("wal files: {}", e))
        })
        .collect();
    (store, imgs)
}

fn wal_read(store: &InMemoryWalStore) -> Vec<walref::E> {
    let rot = WalRotator::new(store.clone(), 1 << 30).unwrap_or_else(|e| panic!("WalRotator::new on the written files: {}", e));
    rot.recover_all_entries()
        .unwrap_or_else(|e| panic!("recover_all_entries failed as a whole: {}", e))
        .into_iter()
        .map(|e| (e.data, e.timestamp))
        .collect()
}

/// Projection of a message; `cached` = projections already computed for exactly its deltas.
fn msg_proj(m: &GossipMessage, cached: Option<&[J]>) -> J {
    let pj = |ds: &[ReplicationDelta]| -> Vec<J> {
        match cached {
            Some(c) => {
                assert_eq!(c.len(), ds.len());
                c.to_vec()
            }
            None => projs(ds),
        }
    };
    match m {
        GossipMessage::DeltaBatch { source_replica, deltas, epoch } => {
            json!({"v": "DeltaBatch", "src": source_replica.0, "epoch": epoch, "deltas": pj(deltas)})
        }
        GossipMessage::TargetedDelta { source_replica, target_replica, deltas, epoch } => {
            json!({"v": "TargetedDelta", "src": source_replica.0, "dst": target_replica.0, "epoch": epoch, "deltas": pj(deltas)})
        }
        GossipMessage::SyncRequest { source_replica, known_versions } => {
            let kv: BTreeMap<&String, &u64> = known_versions.iter().collect();
            json!({"v": "SyncRequest", "src": source_replica.0, "known": kv})
        }
        GossipMessage::SyncResponse { source_replica, deltas } => json!({"v": "SyncResponse", "src": source_replica.0, "deltas": pj(deltas)}),
        GossipMessage::Heartbeat { source_replica, epoch } => json!({"v": "Heartbeat", "src": source_replica.0, "epoch": epoch}),
    }
}

// ---------------------------------------------------------------------------------------
// mutation
// ---------------------------------------------------------------------------------------

#[derive(Clone, Copy, Debug)]
enum Mutation {
    Flip { pos: usize, bit: u8 },
    Set { pos: usize, val: u8 },
    Trunc(usize),
    Insert { pos: usize, n: usize, val: u8 },
}

/// `None` when the mutation would change nothing.
fn apply(img: &[u8], m: Mutation) -> Option<Vec<u8>> {
    let mut v = img.to_vec();
    match m {
        Mutation::Flip { pos, bit } => v[pos] ^= 1 << bit,
        Mutation::Set { pos, val } => {
            if v[pos] == val {
                return None;
            }
            v[pos] = val
        }
        Mutation::Trunc(l) => v.truncate(l),
        Mutation::Insert { pos, n, val } => {
            for _ in 0..n {
                v.insert(pos, val);
            }
        }
    }
    Some(v)
}

/// Structural fields `(start, len)` of an image: everything that is not payload body - magic,
/// version, flags, counts, stamps, checksums, length prefixes, padding (the byte classes
/// props/c14 enumerates completely).
fn segment_fields(img: &[u8]) -> Vec<(usize, usize)> {
    let n = img.len();
    let mut v = vec![(0, 4), (4, 1), (5, 1), (6, 4), (10, 8), (18, 8), (26, 4), (30, 10)];
    let foot = n.saturating_sub(24);
    v.extend([(foot, 4), (foot + 4, 8), (foot + 12, 8), (foot + 20, 4)]);
    // records: u32 length | bincode(key length u64 | key | value)
    let mut off = 40usize;
    while off + 4 <= foot {
        let l = u32::from_le_bytes([img[off], img[off + 1], img[off + 2], img[off + 3]]) as usize;
        v.push((off, 4));
        if off + 12 <= foot {
            v.push((off + 4, 8));
        }
        off += 4 + l;
    }
    v
}

fn checkpoint_fields(img: &[u8]) -> Vec<(usize, usize)> {
    let foot = img.len().saturating_sub(16);
    vec![(0, 4), (4, 1), (5, 1), (6, 2), (8, 8), (16, 8), (24, 8), (32, 12), (44, 4), (48, 4), (52, 8), (foot, 4), (foot + 4, 8), (foot + 12, 4)]
}

fn wal_fields(f: &FileImg) -> Vec<(usize, usize)> {
    let mut v = vec![(0, 4), (4, 1), (5, 1), (6, 2), (8, 8)];
    for k in 0..f.entries.len() {
        let s = f.offs[k];
        v.extend([(s, 4), (s + 4, 8), (s + 12, 4)]);
    }
    v
}

/// One mutation descriptor = 5 input bytes: kind, offset (u16), offset mode, value.
fn mutation(u: &mut Unstructured<'_>, len: usize, fields: &[(usize, usize)]) -> Mutation {
    let kind = u.int_in_range(0..=3u8).unwrap_or(0);
    let raw = u.arbitrary::<u16>().unwrap_or(0) as usize;
    // offset: anywhere (from the start / from the end / a fraction of the image) or aimed at a
    // byte of a structural field (field chosen by the high byte, byte in it by the low byte)
    let limit = if kind == 3 { len + 1 } else { len };
    let pos = match u.int_in_range(0..=4u8).unwrap_or(0) {
        0 => raw % limit,
        1 => limit - 1 - raw % limit,
        2 => (raw * limit) >> 16,
        _ => {
            let (s, l) = fields[(raw >> 8) % fields.len()];
            (s + (raw & 0xff) % l).min(limit - 1)
        }
    };
    let val = u.arbitrary::<u8>().unwrap_or(0);
    match kind {
        0 => Mutation::Flip { pos, bit: val % 8 },
        1 => Mutation::Set { pos, val: [0x00, 0xff, val, val.wrapping_sub(1)][(val >> 6) as usize] },
        2 => Mutation::Trunc(pos),
        _ => Mutation::Insert { pos, n: 1 + (val >> 6) as usize % 3, val },
    }
}

fuzz_target!(|data: &[u8]| {
    shared::stats::register("image_mutate", STATS);
    if data.len() < 27 || data.len() > 1024 {
        return;
    }
    // the first 26 bytes hold the scalar header fields and the three mutation descriptors
    let (head, body) = data.split_at(26);
    let mut u = Unstructured::new(body);
    let spec = world(&mut u);
    let (deltas, _) = worldgen::run(&spec);
    if deltas.is_empty() {
        return;
    }
    N_WORLDS.inc();
    let want = projs(&deltas);
    let mut hu = Unstructured::new(head);
    let which = hu.arbitrary::<u8>().unwrap_or(0);
    let ts_ms = match which >> 6 {
        0 => 0,
        1 => hu.arbitrary::<u8>().unwrap_or(0) as u64,
        _ => hu.arbitrary::<u64>().unwrap_or(0),
    };
    let last_seg = (which >> 4 & 3) as u64 * 0x0101_0101_0101;
    let wal_file_size = 64 + [0usize, 40, 200, 600, 5000][(which >> 2 & 7) as usize % 5];
    let epoch = ts_ms ^ 0x5a5a;

    // ---- round trip: WAL entry
    for (i, d) in deltas.iter().enumerate() {
        let ts = d.value.timestamp.time;
        let e = WalEntry::from_delta(d, ts).unwrap_or_else(|e| panic!("WalEntry::from_delta: {}", e));
        let enc = e.encode();
        assert_eq!(enc.len(), e.disk_size(), "wal: encode() length vs disk_size()");
        for tail in [&b""[..], &b"\x01\x02\x03"[..]] {
            let mut buf = enc.clone();
            buf.extend_from_slice(tail);
            let (back, used) = WalEntry::decode(&buf).unwrap_or_else(|| panic!("wal: intact entry #{} does not decode", i));
            if used != enc.len() || back.timestamp != ts || !back.validate() {
                panic!(
                    "wal: entry #{} decoded with consumed={} (encoded {}), stamp {} (written {}), crc ok = {}",
                    i,
                    used,
                    enc.len(),
                    back.timestamp,
                    ts,
                    back.validate()
                );
            }
            if back.data != e.data {
                panic!("wal: entry #{} decoded with different data bytes", i);
            }
            if tail.is_empty() {
                let bd = back.to_delta().unwrap_or_else(|e| panic!("wal: to_delta #{}: {}", i, e));
                if dproj(&bd) != want[i] {
                    panic!("wal entry round trip: {}", first_diff(&want[i..=i], &[dproj(&bd)]));
                }
            }
        }
    }
    // ---- round trip: WAL files
    let (wal_store, wal_files) = write_wal(&deltas, wal_file_size);
    {
        let got = wal_read(&wal_store);
        let flat: Vec<&walref::E> = wal_files.iter().flat_map(|f| f.entries.iter()).collect();
        if got.len() != flat.len() || got.iter().zip(flat.iter()).any(|(g, w)| g != *w) {
            panic!("wal files round trip: wrote {} entries in {} files, recovered {}: {}", flat.len(), wal_files.len(), got.len(), walref::show_list(&got));
        }
    }
    // ---- round trip: segment
    let seg_img = write_segment(&deltas);
    let seg_via = SegRecovery::new(&deltas, seg_img.len());
    {
        let r = SegmentReader::open(&seg_img).unwrap_or_else(|e| panic!("segment: open of an intact image: {}", e));
        r.validate().unwrap_or_else(|e| panic!("segment: validate of an intact image: {}", e));
        let h = r.header();
        let mn = deltas.iter().map(|d| d.value.timestamp.time).min().unwrap();
        let mx = deltas.iter().map(|d| d.value.timestamp.time).max().unwrap();
        if h.record_count as usize != deltas.len() || h.min_timestamp != mn || h.max_timestamp != mx {
            panic!(
                "segment header says count={} min={} max={}, written count={} min={} max={}",
                h.record_count,
                h.min_timestamp,
                h.max_timestamp,
                deltas.len(),
                mn,
                mx
            );
        }
        let back = r.read_all().unwrap_or_else(|e| panic!("segment: read_all of an intact image: {}", e));
        if projs(&back) != want {
            panic!("segment round trip: {}", first_diff(&want, &projs(&back)));
        }
        let via = seg_via.run(&seg_img).unwrap_or_else(|e| panic!("segment via RecoveryManager, intact image: {}", e));
        if projs(&via) != want {
            panic!("segment via RecoveryManager round trip: {}", first_diff(&want, &projs(&via)));
        }
    }
    // ---- round trip: checkpoint
    let state = last_per_key(&deltas);
    let want_state: BTreeMap<String, J> = state.iter().map(|(k, v)| (k.clone(), vproj(v))).collect();
    let ck_img = write_checkpoint(&state, ts_ms, last_seg);
    let ck_want: CkOut = (want_state.clone(), state.len() as u64, ts_ms, last_seg);
    let ck_via = CkRecovery::new(ck_want.1, ts_ms, last_seg);
    {
        let got = ck_direct(&ck_img).unwrap_or_else(|e| panic!("checkpoint: intact image rejected: {}", e));
        if got != ck_want {
            panic!(
                "checkpoint round trip: keys={} ts={} last_segment={} (written keys={} ts={} last_segment={}), state equal: {}",
                got.1,
                got.2,
                got.3,
                ck_want.1,
                ck_want.2,
                ck_want.3,
                got.0 == ck_want.0
            );
        }
        let via = ck_via.run(&ck_img).unwrap_or_else(|e| panic!("checkpoint via RecoveryManager, intact image: {}", e));
        if via != want_state {
            panic!("checkpoint via RecoveryManager round trip: state differs from what was written");
        }
    }
    // ---- round trip: gossip, all five variants
    {
        let src = ReplicaId::new(epoch % 7);
        let known: HashMap<String, u64> = deltas.iter().enumerate().map(|(i, d)| (d.key.clone(), epoch.rotate_left(i as u32))).collect();
        let n = deltas.len();
        let msgs: Vec<(GossipMessage, Option<&[J]>)> = vec![
            (GossipMessage::new_delta_batch(src, deltas.clone(), epoch), Some(&want[..])),
            (GossipMessage::new_targeted_delta(src, ReplicaId::new(ts_ms), deltas[..n.min(3)].to_vec(), epoch), Some(&want[..n.min(3)])),
            (GossipMessage::SyncRequest { source_replica: src, known_versions: known }, None),
            (GossipMessage::SyncResponse { source_replica: src, deltas: deltas[n.saturating_sub(3)..].to_vec() }, Some(&want[n.saturating_sub(3)..])),
            (GossipMessage::new_heartbeat(src, epoch), None),
        ];
        for (m, cached) in &msgs {
            let bytes = m.serialize().unwrap_or_else(|e| panic!("gossip serialize: {}", e));
            let back = GossipMessage::deserialize(&bytes).unwrap_or_else(|e| panic!("gossip: own serialisation does not deserialize: {}", e));
            let (a, b) = (msg_proj(m, *cached), msg_proj(&back, None));
            if a != b {
                panic!("gossip {} round trip: decoded message differs: {} vs {}", a["v"], a, b);
            }
        }
    }

    // seed-corpus helper for the `image_decode` target: VERIF_DUMP_IMAGES=<dir> writes the intact
    // images of this input, each prefixed with image_decode's selector byte
    if let Some(dir) = std::env::var_os("VERIF_DUMP_IMAGES") {
        let dir = std::path::PathBuf::from(dir);
        let tag = vcore::fnv64(data) & 0xffff_ffff;
        let with = |sel: u8, img: &[u8]| [&[sel][..], img].concat();
        let _ = std::fs::write(dir.join(format!("seg-{:08x}", tag)), with(0, &seg_img));
        let _ = std::fs::write(dir.join(format!("chk-{:08x}", tag)), with(1, &ck_img));
        // image_decode's WAL arm decodes entries from offset 0: the file without its 16-byte header
        let _ = std::fs::write(dir.join(format!("wal-{:08x}", tag)), with(2, &wal_files[0].bytes[walref::HEADER..]));
    }

    // ---- damage: ONE fuzzer-chosen mutation per image (segment, checkpoint, one WAL file), each
    // image judged on its own (single-fault model)
    {
        N_SEG.inc();
        let m = mutation(&mut hu, seg_img.len(), &segment_fields(&seg_img));
        if let Some(bytes) = apply(&seg_img, m) {
            let mut invisible = false;
            for (name, out) in [
                ("SegmentReader open/validate/read_all", seg_direct(&bytes)),
                ("RecoveryManager::recover", seg_via.run(&bytes)),
                ("RecoveryManager::recover_with_progress", seg_via.run_progress()),
            ] {
                if let Ok(ds) = out {
                    let got = projs(&ds);
                    if got != want {
                        panic!(
                            "segment of {} bytes, {:?}: {} accepted the damaged image and returned different data: {}",
                            seg_img.len(),
                            m,
                            name,
                            first_diff(&want, &got)
                        );
                    }
                    invisible = true;
                }
            }
            (if invisible { &N_INVISIBLE } else { &N_DETECTED }).inc();
        }
    }
    {
        N_CK.inc();
        let m = mutation(&mut hu, ck_img.len(), &checkpoint_fields(&ck_img));
        if let Some(bytes) = apply(&ck_img, m) {
            let mut invisible = false;
            if let Ok(got) = ck_direct(&bytes) {
                if got != ck_want {
                    panic!(
                        "checkpoint of {} bytes, {:?}: open/validate/load accepted the damaged image and returned different data (keys={} ts={} last_segment={}; written keys={} ts={} last_segment={}; state equal: {})",
                        ck_img.len(), m, got.1, got.2, got.3, ck_want.1, ck_want.2, ck_want.3, got.0 == ck_want.0
                    );
                }
                invisible = true;
            }
            for (name, out) in [
                ("RecoveryManager::recover", ck_via.run(&bytes)),
                ("RecoveryManager::recover_with_progress", ck_via.run_progress()),
                ("CheckpointManager::load_checkpoint", ck_via.run_manager()),
            ] {
                if let Ok(got) = out {
                    if got != want_state {
                        panic!(
                            "checkpoint of {} bytes, {:?}: {} accepted the damaged image and returned a different state ({} keys, written {})",
                            ck_img.len(),
                            m,
                            name,
                            got.len(),
                            want_state.len()
                        );
                    }
                    invisible = true;
                }
            }
            (if invisible { &N_INVISIBLE } else { &N_DETECTED }).inc();
        }
    }
    {
        N_WAL.inc();
        let fi = hu.arbitrary::<u8>().unwrap_or(0) as usize % wal_files.len();
        let f = &wal_files[fi];
        let m = mutation(&mut hu, f.bytes.len(), &wal_fields(f));
        let Some(bytes) = apply(&f.bytes, m) else { return };
        wal_store.set_file_data(&f.name, bytes.clone());
        let got = wal_read(&wal_store);
        let at = match m {
            Mutation::Flip { pos, .. } | Mutation::Set { pos, .. } | Mutation::Insert { pos, .. } => pos,
            Mutation::Trunc(l) => l,
        };
        let what = format!("wal file {} ({} of {}), {:?} ({})", f.name, fi + 1, wal_files.len(), m, f.locate(at));
        match walref::compare_recovered(&wal_files, fi, &bytes, &got, &what) {
            Ok(Verdict::Ok) => {
                let total: usize = wal_files.iter().map(|f| f.entries.len()).sum();
                (if got.len() == total { &N_INVISIBLE } else { &N_DETECTED }).inc();
            }
            Ok(Verdict::StampFinding) => N_KF.inc(),
            Ok(Verdict::Forged) => {
                N_FORGED.inc();
                return;
            }
            Err(e) => panic!("{}", e),
        }
        // the reader recover_with_wal uses: every entry recover_all_entries returned decodes
        let c = WalRotator::new(wal_store.clone(), 1 << 30).and_then(|r| r.recover_entries_after(0)).map(|d| d.len()).map_err(|e| e.to_string());
        if c != Ok(got.len()) {
            panic!("{}: recover_entries_after(0) = {:?} but recover_all_entries returned {} entries", what, c, got.len());
        }
    }
});
