#![no_main]
//! C10: bytes -> a list of entries (payload 1..300 bytes: literal bytes, patterns, payloads that
//! look like entry headers / file headers / zero blocks; stamps arbitrary, non-monotone)
//! appended through `WalRotator` on `InMemoryWalStore` with a fuzzer-chosen `max_file_size`
//! (rotation) and fuzzer-chosen writer restarts, then ONE mutation of ONE file: truncation at
//! an offset, one bit flipped, or 1..16 bytes overwritten.
//!
//! In-target oracle (= harness/props/c10 `images`): `recover_all_entries` of a fresh
//! `WalRotator` over the mutated store returns, for the mutated file, EXACTLY its intact prefix
//! - the entries before the first frame any byte of which changed (or which the file no longer
//! holds completely), bit-identical in (data, stamp) and in append order - and every entry of
//! every other file, files in sequence order; no error, no panic. A file whose 16-byte header
//! is damaged may be skipped as a whole. Layout and CRC-32 are the harness' own (shared/mod.rs).
//! The un-mutated store must recover everything first.
//!
//! Delimited and counted, exactly as props/c10 does:
//!  * KF-C10-01 (open): the entry CRC covers the data only; damage confined to the 8-byte stamp
//!    field (entry bytes 4..12) is accepted and the entry comes back with the stored stamp.
//!    Tolerated only when every other byte of those entries' frames is unchanged AND the
//!    recovered list is exactly the written list with exactly those stamps replaced
//!    (`kf_c10_01_stamp_only`); VERIF_STRICT_KF=1 turns it into a crash.
//!  * the first damaged frame is self-consistent (stored CRC-32 = CRC-32 of the stored data, e.g.
//!    an overwrite with 0xff: crc32(ff ff ff ff) = ffffffff): no checksum can reject it, the
//!    property cannot demand it; the file is not judged (`abstained_self_consistent_frame`).
use arbitrary::Unstructured;
use libfuzzer_sys::fuzz_target;
use redis_sim::streaming::{InMemoryWalStore, WalEntry, WalRotator};
use std::collections::BTreeMap;

#[path = "shared/mod.rs"]
mod shared;
use shared::crc32::crc32;
use shared::stats::Counter;
use shared::wal::{self as walref, FileImg, Verdict, E};

static N_IMAGES: Counter = Counter::new("images");
static N_MULTI: Counter = Counter::new("images_with_2_or_more_files");
static N_INSIDE: Counter = Counter::new("mutations_inside_an_entry");
static N_HEADER: Counter = Counter::new("mutations_in_the_file_header");
static N_TRUNC: Counter = Counter::new("truncations");
static N_FLIP: Counter = Counter::new("bit_flips");
static N_OVER: Counter = Counter::new("overwrites");
static N_KF: Counter = Counter::new("kf_c10_01_stamp_only");
static N_FORGED: Counter = Counter::new("abstained_self_consistent_frame");
static STATS: &[&Counter] = &[&N_IMAGES, &N_MULTI, &N_INSIDE, &N_HEADER, &N_TRUNC, &N_FLIP, &N_OVER, &N_KF, &N_FORGED];

const MAX_ENTRIES: usize = 12;

fn stamp(u: &mut Unstructured<'_>) -> u64 {
    match u.int_in_range(0..=5u8).unwrap_or(0) {
        0 => u.int_in_range(0..=20u64).unwrap_or(0),
        1 => [0u64, 1, u64::MAX, u64::MAX - 1, 1 << 63, 1 << 32][u.int_in_range(0..=5usize).unwrap_or(0)],
        2 => u.int_in_range(1_000..=1_000_000u64).unwrap_or(1000),
        _ => u.arbitrary::<u64>().unwrap_or(0),
    }
}

/// 1..=300 bytes
fn payload(u: &mut Unstructured<'_>) -> Vec<u8> {
    let mut v = match u.int_in_range(0..=6u8).unwrap_or(0) {
        0 => {
            // pattern of a chosen length
            let len = u.int_in_range(1..=300usize).unwrap_or(1);
            let seed = u.arbitrary::<u8>().unwrap_or(0);
            let mut x: u32 = (seed as u32).wrapping_mul(2654435761).wrapping_add(12345);
            (0..len)
                .map(|_| {
                    x = x.wrapping_mul(1664525).wrapping_add(1013904223);
                    (x >> 24) as u8
                })
                .collect()
        }
        1 => {
            // constant fill (0x00 / 0xff / chosen): zero blocks, self-similar payloads
            let len = u.int_in_range(1..=300usize).unwrap_or(1);
            let fill = [0x00u8, 0xff, u.arbitrary::<u8>().unwrap_or(0)][u.int_in_range(0..=2usize).unwrap_or(0)];
            vec![fill; len]
        }
        2 => {
            // a payload that is itself a well-formed entry frame
            let inner = vec![u.arbitrary::<u8>().unwrap_or(7); u.int_in_range(1..=8usize).unwrap_or(1)];
            walref::encode_entry(&inner, u.arbitrary::<u8>().unwrap_or(0) as u64)
        }
        3 => {
            // a payload that looks like a file header
            let mut h = b"RWAL\x01\x00\x00\x00".to_vec();
            h.extend_from_slice(&(u.arbitrary::<u8>().unwrap_or(1) as u64).to_le_bytes());
            h
        }
        _ => {
            let len = u.int_in_range(1..=40usize).unwrap_or(1);
            u.bytes(len.min(u.len())).map(|b| b.to_vec()).unwrap_or_default()
        }
    };
    if v.is_empty() {
        v.push(0x2a);
    }
    v.truncate(300);
    v
}

#[derive(Clone, Copy, Debug)]
enum Mutation {
    Trunc(usize),
    Flip { pos: usize, bit: u8 },
    Overwrite { pos: usize, n: usize, fill: u8, mode: u8 },
}

fuzz_target!(|data: &[u8]| {
    shared::stats::register("wal_recover", STATS);
    if data.len() < 12 || data.len() > 1024 {
        return;
    }
    // the first 10 bytes describe rotation and the mutation, the rest the entries
    let (head, body) = data.split_at(10);
    let mut u = Unstructured::new(body);
    let mut entries: Vec<(E, bool)> = Vec::new();
    while !u.is_empty() && entries.len() < MAX_ENTRIES {
        let restart = u.int_in_range(0..=9u8).unwrap_or(0) == 0;
        let s = stamp(&mut u);
        let d = payload(&mut u);
        entries.push(((d, s), restart));
    }
    if entries.is_empty() {
        return;
    }
    let mut hu = Unstructured::new(head);
    let mfs = [17usize, 33, 64, 100, 200, 333, 500, 1000, 2000, 1 << 20][hu.arbitrary::<u8>().unwrap_or(0) as usize % 10];

    // ---- write through the rotator
    let store = InMemoryWalStore::new();
    let mut rot = WalRotator::new(store.clone(), mfs).unwrap_or_else(|e| panic!("WalRotator::new: {}", e));
    let mut per_file: BTreeMap<u64, Vec<E>> = BTreeMap::new();
    for (i, (e, restart)) in entries.iter().enumerate() {
        if *restart && i > 0 {
            // a writer restart: the new rotator continues behind the highest sequence
            rot = WalRotator::new(store.clone(), mfs).unwrap_or_else(|e| panic!("WalRotator::new (restart): {}", e));
        }
        let we = WalEntry { data: e.0.clone(), timestamp: e.1, checksum: crc32(&e.0) };
        let seq = rot.append(&we).unwrap_or_else(|err| panic!("append of entry #{} failed on a fault-free store: {}", i, err));
        per_file.entry(seq).or_default().push(e.clone());
    }
    rot.sync().unwrap_or_else(|e| panic!("sync on a fault-free store: {}", e));
    let files: Vec<FileImg> = per_file
        .into_iter()
        .map(|(seq, es)| {
            let name = walref::file_name(seq);
            let bytes = store.get_file_data(&name).unwrap_or_else(|| panic!("append reported sequence {} but the store has no file {}", seq, name));
            FileImg::new(name, seq, bytes, es).unwrap_or_else(|e| panic!("{}", e))
        })
        .collect();
    if store.file_count() != files.len() {
        panic!("the store holds {} files, entries were appended to {}", store.file_count(), files.len());
    }
    N_IMAGES.inc();
    if files.len() >= 2 {
        N_MULTI.inc();
    }
    let recover = |store: &InMemoryWalStore| -> Vec<E> {
        let r = WalRotator::new(store.clone(), 1 << 20).unwrap_or_else(|e| panic!("WalRotator::new over the written files: {}", e));
        r.recover_all_entries()
            .unwrap_or_else(|e| panic!("recover_all_entries returned an error: {}", e))
            .into_iter()
            .map(|e| (e.data, e.timestamp))
            .collect()
    };
    // ---- intact image: everything, in order
    {
        let got = recover(&store);
        let want: Vec<E> = files.iter().flat_map(|f| f.entries.iter().cloned()).collect();
        if got != want {
            panic!("intact image: appended {} but recovered {}", walref::show_list(&want), walref::show_list(&got));
        }
    }

    // ---- ONE mutation of ONE file
    let m = hu.arbitrary::<u8>().unwrap_or(0) as usize % files.len();
    let f = &files[m];
    let len = f.bytes.len();
    let raw = hu.arbitrary::<u16>().unwrap_or(0) as usize;
    let pos = match hu.int_in_range(0..=3u8).unwrap_or(0) {
        0 => raw % len,
        1 => len - 1 - raw % len,
        2 => (raw * len) >> 16,
        _ => {
            // aimed: a chosen field of a chosen entry (or the file header)
            let k = (raw >> 8) % (f.entries.len() + 1);
            if k == f.entries.len() {
                raw % walref::HEADER
            } else {
                let (s, e) = (f.offs[k], f.offs[k + 1]);
                s + [0usize, 3, 4, 11, 12, 15, 16, e - s - 1][raw & 7].min(e - s - 1)
            }
        }
    };
    let val = hu.arbitrary::<u8>().unwrap_or(0);
    let mu = match hu.int_in_range(0..=2u8).unwrap_or(0) {
        0 => Mutation::Trunc(pos),
        1 => Mutation::Flip { pos, bit: val % 8 },
        _ => Mutation::Overwrite { pos, n: 1 + (hu.arbitrary::<u8>().unwrap_or(0) as usize % 16), fill: val, mode: hu.arbitrary::<u8>().unwrap_or(0) % 4 },
    };
    let mut bytes = f.bytes.clone();
    match mu {
        Mutation::Trunc(l) => {
            N_TRUNC.inc();
            bytes.truncate(l)
        }
        Mutation::Flip { pos, bit } => {
            N_FLIP.inc();
            bytes[pos] ^= 1 << bit
        }
        Mutation::Overwrite { pos, n, fill, mode } => {
            N_OVER.inc();
            for (i, b) in bytes.iter_mut().skip(pos).take(n).enumerate() {
                *b = match mode {
                    0 => 0x00,
                    1 => 0xff,
                    2 => fill,
                    _ => fill.wrapping_add(i as u8).wrapping_mul(31),
                };
            }
        }
    }
    if bytes == f.bytes {
        return;
    }
    if pos < walref::HEADER {
        N_HEADER.inc();
    } else {
        N_INSIDE.inc();
    }
    store.set_file_data(&f.name, bytes.clone());
    let got = recover(&store);
    let what = format!("file {} ({} of {}, {} bytes), {:?} at {}", f.name, m + 1, files.len(), len, mu, f.locate(pos));
    match walref::compare_recovered(&files, m, &bytes, &got, &what) {
        Ok(Verdict::Ok) => {}
        Ok(Verdict::StampFinding) => N_KF.inc(),
        Ok(Verdict::Forged) => {
            N_FORGED.inc();
            if std::env::var_os("VERIF_FUZZ_VERBOSE").is_some() {
                eprintln!("abstained (self-consistent damaged frame): {}\n  appended: {}\n  recovered: {}", what, walref::show_list(&f.entries), walref::show_list(&got));
            }
        }
        Err(e) => panic!("{}", e),
    }
});
