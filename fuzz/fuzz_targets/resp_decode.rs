#![no_main]
//! C15: arbitrary bytes into both RESP decoders. In-target oracle: no panic; consumed <= len;
//! a frame the strict decoder accepts is returned identically by both decoders; one-step
//! prefix stability; the frame re-decodes from exactly its bytes.
use bytes::BytesMut;
use libfuzzer_sys::fuzz_target;
use redis_sim::redis::{RespCodec, RespParser, RespValueZeroCopy};
use vcore::resp::{decode_reply, Reply};

fn zc(v: &RespValueZeroCopy) -> Reply {
    match v {
        RespValueZeroCopy::SimpleString(b) => Reply::Simple(b.to_vec()),
        RespValueZeroCopy::Error(b) => Reply::Error(b.to_vec()),
        RespValueZeroCopy::Integer(i) => Reply::Int(*i),
        RespValueZeroCopy::BulkString(None) => Reply::Nil,
        RespValueZeroCopy::BulkString(Some(b)) => Reply::Bulk(b.to_vec()),
        RespValueZeroCopy::Array(None) => Reply::NilArray,
        RespValueZeroCopy::Array(Some(a)) => Reply::Array(a.iter().map(zc).collect()),
    }
}

fn codec(input: &[u8]) -> Result<Option<(Reply, usize)>, String> {
    let mut b = BytesMut::from(input);
    let before = b.len();
    match RespCodec::parse(&mut b) {
        Ok(Some(v)) => {
            assert!(b.len() <= before);
            Ok(Some((zc(&v), before - b.len())))
        }
        Ok(None) => {
            assert_eq!(b.len(), before, "'need more' must not consume");
            Ok(None)
        }
        Err(e) => Err(e),
    }
}

fuzz_target!(|data: &[u8]| {
    if data.len() > 4096 {
        return;
    }
    let whole = codec(data);
    let sim = RespParser::parse(data);
    if let Ok(Some((_, n))) = &whole {
        assert!(*n > 0 && *n <= data.len(), "over-read");
        // re-decodes to itself from exactly its bytes
        assert_eq!(codec(&data[..*n]), whole);
    }
    if let Ok((_, n)) = &sim {
        assert!(*n > 0 && *n <= data.len(), "over-read (sim)");
    }
    if let Ok((v, n)) = decode_reply(data) {
        assert_eq!(whole, Ok(Some((v.clone(), n))), "strict frame, production decoder differs");
        let utf8 = |r: &Reply| -> bool {
            fn ok(r: &Reply) -> bool {
                match r {
                    Reply::Simple(b) | Reply::Error(b) => std::str::from_utf8(b).is_ok(),
                    Reply::Array(a) => a.iter().all(ok),
                    _ => true,
                }
            }
            ok(r)
        };
        if utf8(&v) {
            match &sim {
                Ok((sv, sn)) => {
                    assert_eq!((Reply::from_resp(sv), *sn), (v, n), "strict frame, sim decoder differs")
                }
                Err(e) => panic!("strict frame rejected by sim decoder: {}", e),
            }
        }
    }
    // one-step prefix stability
    if !data.is_empty() {
        let p = codec(&data[..data.len() - 1]);
        match (&p, &whole) {
            (Ok(None), _) => {}
            (Ok(Some(a)), Ok(Some(b))) if a == b => {}
            (Err(_), Err(_)) => {}
            (a, b) => panic!("not prefix-stable: {:?} then {:?}", a, b),
        }
    }
});
