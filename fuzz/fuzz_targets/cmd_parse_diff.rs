#![no_main]
//! C16: unstructured argv into both command parsers: same Debug rendering or same error text;
//! no panic in either.
use arbitrary::Unstructured;
use libfuzzer_sys::fuzz_target;
use vcore::resp::{parse_sim, parse_zc};

const NAMES: &[&str] = &[
    "GET","SET","SETEX","SETNX","PSETEX","DEL","UNLINK","EXISTS","TYPE","KEYS","EXPIRE","PEXPIRE","EXPIREAT","PEXPIREAT",
    "TTL","PTTL","PERSIST","INCR","DECR","INCRBY","DECRBY","INCRBYFLOAT","APPEND","GETSET","STRLEN","MGET","MSET","MSETNX",
    "LPUSH","RPUSH","LPOP","RPOP","LRANGE","LLEN","LINDEX","LSET","LTRIM","RPOPLPUSH","LMOVE","SADD","SMEMBERS","SISMEMBER",
    "SREM","SCARD","SPOP","HSET","HGET","HGETALL","HINCRBY","HDEL","HKEYS","HVALS","HLEN","HEXISTS","ZADD","ZRANGE","ZREVRANGE",
    "ZSCORE","ZREM","ZRANK","ZCARD","ZCOUNT","ZRANGEBYSCORE","SCAN","HSCAN","ZSCAN","GETRANGE","SETRANGE","SETBIT","GETBIT",
    "GETEX","GETDEL","EXPIRETIME","PEXPIRETIME","WAIT","SORT","RANDOMKEY","RENAME","RENAMENX","EVAL","EVALSHA","SCRIPT","MULTI",
    "EXEC","DISCARD","WATCH","UNWATCH","PING","INFO","TIME","DBSIZE","CONFIG","SELECT","ECHO","AUTH","ACL","FLUSHDB","FLUSHALL",
    "FUNCTION","COMMAND","CLIENT","OBJECT","DEBUG",
];
const WORDS: &[&str] = &[
    "NX","XX","GT","LT","CH","EX","PX","EXAT","PXAT","KEEPTTL","GET","PERSIST","WITHSCORES","LIMIT","MATCH","COUNT","LEFT",
    "RIGHT","STORE","LOAD","EXISTS","FLUSH","RESETSTAT","SET","WHOAMI","LIST","USERS","GETUSER","SETUSER","DELUSER","CAT",
    "GENPASS","DRYRUN","LOG","RESET","HELP","SAVE","SETNAME","GETNAME","ID","INFO","ENCODING","REFCOUNT","IDLETIME","FREQ",
    "SLEEP","OBJECT","0","1","-1","2","10","-0","+5","007","9223372036854775807","-9223372036854775808","9223372036854775808",
    "18446744073709551615","18446744073709551616","1.5","inf","-inf","nan","1e400","(1","(","k","k2","v","",
];

fuzz_target!(|data: &[u8]| {
    let mut u = Unstructured::new(data);
    let mut argv: Vec<Vec<u8>> = Vec::new();
    let Ok(name_idx) = u.int_in_range(0..=NAMES.len()) else { return };
    if name_idx < NAMES.len() {
        let mut n = NAMES[name_idx].as_bytes().to_vec();
        if u.arbitrary::<bool>().unwrap_or(false) {
            n.make_ascii_lowercase();
        }
        argv.push(n);
    }
    let Ok(nargs) = u.int_in_range(0..=8usize) else { return };
    for _ in 0..nargs {
        match u.int_in_range(0..=9u8).unwrap_or(0) {
            0..=6 => {
                let i = u.int_in_range(0..=WORDS.len() - 1).unwrap_or(0);
                let mut w = WORDS[i].as_bytes().to_vec();
                if u.arbitrary::<bool>().unwrap_or(false) {
                    w.make_ascii_lowercase();
                }
                argv.push(w);
            }
            _ => {
                let len = u.int_in_range(0..=12usize).unwrap_or(0);
                argv.push(u.bytes(len.min(u.len())).map(|b| b.to_vec()).unwrap_or_default());
            }
        }
    }
    if argv.is_empty() {
        return;
    }
    let a = parse_sim(&argv).map(|c| format!("{:?}", c));
    let b = parse_zc(&argv).map(|c| format!("{:?}", c));
    if std::env::var_os("VERIF_FUZZ_PANIC_ONLY").is_none() {
        assert_eq!(a, b, "parsers disagree on {}", vcore::resp::show_argv(&argv));
    }
});
