#![no_main]
//! C15 (encoders): bytes -> structured reply tree (all five RESP2 variants incl. null bulk /
//! null array, nested arrays of depth <= 5 and <= 40 nodes) -> every encoder -> every decoder.
//!
//! In-target oracle (what harness/props/c15 `enc_trees` / `enc_exec` assert):
//!  * `RespCodec::encode` (zero-copy value) and, when the tree is constructible as a
//!    `RespValue` (status/error text is UTF-8), `RespParser::encode` produce bytes from which
//!    the harness' strict RESP2 decoder AND `RespCodec::parse` (AND `RespParser::parse` for
//!    UTF-8 trees) decode exactly one value, consume every byte, and give back the *wire
//!    value* of the tree: the tree itself, except that CR / LF inside a status or error line -
//!    which RESP cannot carry - arrive as spaces (repo fix 1670feb: an encoder never emits a
//!    raw CR/LF inside such a line). Identity on every tree without such bytes.
//!  * connection encoder (private `encode_resp_into`, reached through the hook the way
//!    props/c15 `enc_exec` reaches it: by executing a command): the tree is written as a Lua
//!    literal, `EVAL "return <literal>" 0` is executed directly (`ShardedActorState::execute`)
//!    and through `verif_hooks::run_connection`; the connection's bytes must strictly decode to
//!    exactly one reply equal to the wire value of the direct reply. (Whether the direct reply
//!    equals the tree is Lua conversion = C16's business: counted, not asserted.)
//! Fresh servers / runtime per iteration; no clock, no randomness, no hash-order dependence.
use arbitrary::Unstructured;
use bytes::{Bytes, BytesMut};
use libfuzzer_sys::fuzz_target;
use redis_sim::production::{verif_hooks, ConnectionConfig, ShardedActorState};
use redis_sim::redis::{RespCodec, RespParser, RespValue, RespValueZeroCopy};
use std::borrow::Cow;
use vcore::resp::{decode_reply, decode_stream, Reply};
use vcore::stream::ScriptedStream;

#[path = "shared/mod.rs"]
mod shared;
use shared::stats::Counter;

static N_TREES: Counter = Counter::new("trees");
static N_CRLF: Counter = Counter::new("trees_with_crlf_in_line");
static N_UTF8: Counter = Counter::new("trees_through_resp_parser_encode");
static N_CONN: Counter = Counter::new("trees_through_connection");
static N_CONN_SAME: Counter = Counter::new("connection_direct_reply_equals_tree");
static STATS: &[&Counter] = &[&N_TREES, &N_CRLF, &N_UTF8, &N_CONN, &N_CONN_SAME];

const MAX_DEPTH: usize = 5;
const MAX_NODES: usize = 40;

/// text of a status / error line. `dirty`: CR and LF allowed; otherwise they are replaced.
fn line(u: &mut Unstructured<'_>, dirty: bool) -> Vec<u8> {
    const WORDS: &[&[u8]] = &[b"OK", b"PONG", b"QUEUED", b"ERR unknown command 'x'", b"WRONGTYPE Operation", b"", b" ", b"+", b"-", b":1", b"$3", b"*2"];
    let mut out = match u.int_in_range(0..=3u8).unwrap_or(0) {
        0 => WORDS[u.int_in_range(0..=WORDS.len() - 1).unwrap_or(0)].to_vec(),
        1 => {
            // UTF-8 text incl. multi-byte characters
            const CH: &[&str] = &["a", "Z", "0", " ", "\t", "'", "\u{e9}", "\u{43a}", "\u{9375}", "\u{1f511}", "\0", "\u{7f}"];
            let n = u.int_in_range(0..=8usize).unwrap_or(0);
            let mut s = String::new();
            for _ in 0..n {
                s.push_str(CH[u.int_in_range(0..=CH.len() - 1).unwrap_or(0)]);
            }
            s.into_bytes()
        }
        _ => {
            let n = u.int_in_range(0..=12usize).unwrap_or(0);
            u.bytes(n.min(u.len())).map(|b| b.to_vec()).unwrap_or_default()
        }
    };
    if dirty {
        // place CR / LF / CRLF at fuzzer-chosen positions
        let k = u.int_in_range(1..=3usize).unwrap_or(1);
        for _ in 0..k {
            let pos = u.int_in_range(0..=out.len()).unwrap_or(0);
            match u.int_in_range(0..=2u8).unwrap_or(0) {
                0 => out.insert(pos, b'\r'),
                1 => out.insert(pos, b'\n'),
                _ => {
                    out.insert(pos, b'\n');
                    out.insert(pos, b'\r');
                }
            }
        }
    } else {
        for b in out.iter_mut() {
            if *b == b'\r' {
                *b = b'r';
            } else if *b == b'\n' {
                *b = b'n';
            }
        }
    }
    out
}

fn tree(u: &mut Unstructured<'_>, depth: usize, nodes: &mut usize, dirty: bool) -> Reply {
    *nodes += 1;
    let leaf_only = depth >= MAX_DEPTH || *nodes >= MAX_NODES;
    match u.int_in_range(0..=if leaf_only { 6u8 } else { 9 }).unwrap_or(0) {
        0 => {
            let d = dirty && u.arbitrary::<bool>().unwrap_or(false);
            Reply::Simple(line(u, d))
        }
        1 => {
            let d = dirty && u.arbitrary::<bool>().unwrap_or(true);
            Reply::Error(line(u, d))
        }
        2 => Reply::Int(match u.int_in_range(0..=4u8).unwrap_or(0) {
            0 => u.int_in_range(-5..=5i64).unwrap_or(0),
            1 => i64::MAX,
            2 => i64::MIN,
            _ => u.arbitrary::<i64>().unwrap_or(0),
        }),
        3 => {
            let n = u.int_in_range(0..=24usize).unwrap_or(0);
            Reply::Bulk(u.bytes(n.min(u.len())).map(|b| b.to_vec()).unwrap_or_default())
        }
        4 => Reply::Bulk(
            [&b"\r\n"[..], b"", b"+OK\r\n", b"$-1\r\n", b"*1\r\n$1\r\nx\r\n"][u.int_in_range(0..=4usize).unwrap_or(0)].to_vec(),
        ),
        5 => Reply::Nil,
        6 => Reply::NilArray,
        _ => {
            let n = u.int_in_range(0..=4usize).unwrap_or(0);
            let mut v = Vec::with_capacity(n);
            for _ in 0..n {
                if *nodes >= MAX_NODES {
                    break;
                }
                v.push(tree(u, depth + 1, nodes, dirty));
            }
            Reply::Array(v)
        }
    }
}

fn has_crlf_line(r: &Reply) -> bool {
    match r {
        Reply::Simple(b) | Reply::Error(b) => b.iter().any(|&c| c == b'\r' || c == b'\n'),
        Reply::Array(a) => a.iter().any(has_crlf_line),
        _ => false,
    }
}

/// What must arrive on the wire (props/c15 `wire_value`).
fn wire_value(v: &Reply) -> Reply {
    let clean = |b: &Vec<u8>| -> Vec<u8> { b.iter().map(|&c| if c == b'\r' || c == b'\n' { b' ' } else { c }).collect() };
    match v {
        Reply::Simple(b) => Reply::Simple(clean(b)),
        Reply::Error(b) => Reply::Error(clean(b)),
        Reply::Array(a) => Reply::Array(a.iter().map(wire_value).collect()),
        other => other.clone(),
    }
}

fn to_zc(r: &Reply) -> RespValueZeroCopy {
    match r {
        Reply::Simple(b) => RespValueZeroCopy::SimpleString(Bytes::copy_from_slice(b)),
        Reply::Error(b) => RespValueZeroCopy::Error(Bytes::copy_from_slice(b)),
        Reply::Int(i) => RespValueZeroCopy::Integer(*i),
        Reply::Nil => RespValueZeroCopy::BulkString(None),
        Reply::Bulk(b) => RespValueZeroCopy::BulkString(Some(Bytes::copy_from_slice(b))),
        Reply::NilArray => RespValueZeroCopy::Array(None),
        Reply::Array(a) => RespValueZeroCopy::Array(Some(a.iter().map(to_zc).collect())),
    }
}

fn from_zc(v: &RespValueZeroCopy) -> Reply {
    match v {
        RespValueZeroCopy::SimpleString(b) => Reply::Simple(b.to_vec()),
        RespValueZeroCopy::Error(b) => Reply::Error(b.to_vec()),
        RespValueZeroCopy::Integer(i) => Reply::Int(*i),
        RespValueZeroCopy::BulkString(None) => Reply::Nil,
        RespValueZeroCopy::BulkString(Some(b)) => Reply::Bulk(b.to_vec()),
        RespValueZeroCopy::Array(None) => Reply::NilArray,
        RespValueZeroCopy::Array(Some(a)) => Reply::Array(a.iter().map(from_zc).collect()),
    }
}

/// `None` when a status / error text is not UTF-8 (`RespValue` holds `str`).
fn to_resp(r: &Reply) -> Option<RespValue> {
    Some(match r {
        Reply::Simple(b) => RespValue::SimpleString(Cow::Owned(String::from_utf8(b.clone()).ok()?)),
        Reply::Error(b) => RespValue::Error(Cow::Owned(String::from_utf8(b.clone()).ok()?)),
        Reply::Int(i) => RespValue::Integer(*i),
        Reply::Nil => RespValue::BulkString(None),
        Reply::Bulk(b) => RespValue::BulkString(Some(b.clone())),
        Reply::NilArray => RespValue::Array(None),
        Reply::Array(a) => RespValue::Array(Some(a.iter().map(to_resp).collect::<Option<Vec<_>>>()?)),
    })
}

fn is_utf8(r: &Reply) -> bool {
    match r {
        Reply::Simple(b) | Reply::Error(b) => std::str::from_utf8(b).is_ok(),
        Reply::Array(a) => a.iter().all(is_utf8),
        _ => true,
    }
}

/// The bytes an encoder produced must decode - under every decoder - to exactly `want`,
/// consuming everything.
fn check_decoders(encoder: &str, orig: &Reply, want: &Reply, enc: &[u8]) {
    match decode_reply(enc) {
        Ok((back, n)) if back == *want && n == enc.len() => {}
        other => panic!(
            "{}({}) = {:?}: the strict decoder does not give back the value and consume all {} bytes: {:?}",
            encoder,
            orig.show(),
            vcore::show(enc),
            enc.len(),
            other
        ),
    }
    let mut buf = BytesMut::from(enc);
    match RespCodec::parse(&mut buf) {
        Ok(Some(v)) if from_zc(&v) == *want && buf.is_empty() => {}
        other => panic!(
            "{}({}) = {:?}: RespCodec::parse gives {:?} with {} bytes left over",
            encoder,
            orig.show(),
            vcore::show(enc),
            other.map(|o| o.map(|v| from_zc(&v).show())),
            buf.len()
        ),
    }
    if is_utf8(want) {
        // RespParser holds status / error text as `str` (lossy on other bytes): only then
        match RespParser::parse(enc) {
            Ok((v, n)) if Reply::from_resp(&v) == *want && n == enc.len() => {}
            other => panic!(
                "{}({}) = {:?}: RespParser::parse gives {:?} (frame has {} bytes)",
                encoder,
                orig.show(),
                vcore::show(enc),
                other.map(|(v, n)| (Reply::from_resp(&v).show(), n)),
                enc.len()
            ),
        }
    }
}

fn check_public_encoders(orig: &Reply) {
    let want = wire_value(orig);
    let enc = RespCodec::encode(&to_zc(orig));
    check_decoders("RespCodec::encode", orig, &want, &enc);
    if let Some(rv) = to_resp(orig) {
        N_UTF8.inc();
        let enc = RespParser::encode(&rv);
        check_decoders("RespParser::encode", orig, &want, &enc);
    }
}

/// Lua literal of a tree, ASCII only (every byte of a string as a decimal escape). `None` for
/// shapes Lua cannot return (null array; text that is not UTF-8: `{ok=...}` is read as `String`).
fn lua_literal(r: &Reply, out: &mut String, top: bool) -> Option<()> {
    fn lua_str(b: &[u8], out: &mut String) {
        out.push('"');
        for &c in b {
            if c.is_ascii_alphanumeric() || c == b' ' {
                out.push(c as char);
            } else {
                out.push_str(&format!("\\{:03}", c));
            }
        }
        out.push('"');
    }
    match r {
        Reply::Simple(b) => {
            std::str::from_utf8(b).ok()?;
            out.push_str("{ok=");
            lua_str(b, out);
            out.push('}');
        }
        Reply::Error(b) => {
            std::str::from_utf8(b).ok()?;
            out.push_str("{err=");
            lua_str(b, out);
            out.push('}');
        }
        Reply::Int(i) => {
            if *i == i64::MIN {
                out.push_str("math.mininteger");
            } else {
                out.push_str(&i.to_string());
            }
        }
        Reply::Bulk(b) => lua_str(b, out),
        // a table element that is nil ends the array part; `false` is Lua's null bulk
        Reply::Nil => out.push_str(if top { "nil" } else { "false" }),
        Reply::NilArray => return None,
        Reply::Array(a) => {
            out.push('{');
            for (i, e) in a.iter().enumerate() {
                if i > 0 {
                    out.push(',');
                }
                lua_literal(e, out, false)?;
            }
            out.push('}');
        }
    }
    Some(())
}

fn check_connection_encoder(orig: &Reply) {
    let mut script = String::from("return ");
    if lua_literal(orig, &mut script, true).is_none() {
        return;
    }
    N_CONN.inc();
    let argv: Vec<Vec<u8>> = vec![b"EVAL".to_vec(), script.into_bytes(), b"0".to_vec()];
    let cmd = match vcore::resp::parse_zc(&argv) {
        Ok(c) => c,
        Err(e) => panic!("harness: EVAL frame rejected by the command parser: {}", e),
    };
    let (direct, bytes) = vcore::block_on(async {
        let state = ShardedActorState::with_shards(1);
        let direct = Reply::from_resp(&state.execute(&cmd).await);
        let state2 = ShardedActorState::with_shards(1);
        let (stream, out) = ScriptedStream::new(vec![vcore::resp::encode_command(&argv)]);
        let cfg = ConnectionConfig { min_pipeline_buffer: usize::MAX, ..ConnectionConfig::default() };
        verif_hooks::run_connection(stream, state2, cfg).await;
        let b = out.lock().unwrap().clone();
        (direct, b)
    });
    if direct == *orig {
        N_CONN_SAME.inc();
    }
    // the executor's reply through both public encoders as well (a value the server emits)
    check_public_encoders(&direct);
    let want = wire_value(&direct);
    match decode_stream(&bytes) {
        Ok(replies) if replies.len() == 1 && replies[0] == want => {}
        Ok(replies) => panic!(
            "connection encoder: the executor replied {} to EVAL of {}, the connection wrote {:?} which decodes to {} replies: {:?}",
            direct.show(),
            orig.show(),
            vcore::show(&bytes),
            replies.len(),
            replies.iter().map(|r| r.show()).collect::<Vec<_>>()
        ),
        Err((sofar, off, why)) => panic!(
            "connection encoder: the executor replied {} to EVAL of {}, the connection wrote {:?} which is not a well-formed reply stream at byte {} ({}); {} replies decoded",
            direct.show(),
            orig.show(),
            vcore::show(&bytes),
            off,
            why,
            sofar.len()
        ),
    }
}

fuzz_target!(|data: &[u8]| {
    shared::stats::register("resp_reencode", STATS);
    if data.len() < 2 || data.len() > 1024 {
        return;
    }
    let mode = data[0];
    let mut u = Unstructured::new(&data[1..]);
    // bit 0: status / error lines may contain CR / LF; bit 1: also through the connection
    let dirty = mode & 1 != 0;
    let conn = mode & 2 != 0;
    let mut nodes = 0usize;
    let t = tree(&mut u, 0, &mut nodes, dirty);
    N_TREES.inc();
    if has_crlf_line(&t) {
        N_CRLF.inc();
    }
    check_public_encoders(&t);
    if conn {
        check_connection_encoder(&t);
    }
});
