#![no_main]
//! C04: bytes -> a list of WELL-FORMED commands + two segmentations + two ConnectionConfigs +
//! two socket behaviours, each run through the real connection handler
//! (`verif_hooks::run_connection`) on a fresh one-shard server.
//!
//! In-target oracle: (a) both outputs are well-formed RESP2 reply streams (strict decoder)
//! with exactly one reply per command; (b) the two runs wrote byte-identical output. The
//! handler terminates structurally (EOF of the scripted stream); a panic anywhere aborts.
//!
//! Commands (restricted as harness/props/c04/src/gen.rs restricts them): GET/SET heavy, plus
//! counters, string, list, hash, set, sorted-set point operations, PING/ECHO/DBSIZE/TYPE,
//! MULTI/EXEC/DISCARD, unknown names, wrong arity; both letter cases; values are arbitrary
//! bytes (CR, LF, NUL, frames); keys / fields / members come from UTF-8 pools (some with
//! CR/LF) - non-UTF-8 keys belong to C01/C03. NOT generated: anything whose reply depends on
//! the wall clock (expiry family, TIME, INFO, …: the handler is hard-wired to the production
//! clock) or on hash-map order (KEYS, SCAN family, SMEMBERS, HGETALL/HKEYS/HVALS, SPOP,
//! SRANDMEMBER, RANDOMKEY). Fuzzer-made unknown names start with "QX" so that no byte string
//! the fuzzer invents can spell such a command.
use arbitrary::Unstructured;
use libfuzzer_sys::fuzz_target;
use redis_sim::production::{verif_hooks, ConnectionConfig, ShardedActorState};
use vcore::resp::{decode_stream, encode_command, show_argv, Argv};
use vcore::stream::ScriptedStream;

#[path = "shared/mod.rs"]
mod shared;
use shared::stats::Counter;

static N_STREAMS: Counter = Counter::new("streams");
static N_CMDS: Counter = Counter::new("commands");
static N_SPLIT_INSIDE: Counter = Counter::new("streams_with_a_cut_inside_a_frame");
static N_DIFF_CFG: Counter = Counter::new("streams_with_different_configs");
static STATS: &[&Counter] = &[&N_STREAMS, &N_CMDS, &N_SPLIT_INSIDE, &N_DIFF_CFG];

const MAX_CMDS: usize = 40;
const MAX_STREAM: usize = 6000;

const KEYS: &[&[u8]] = &[
    b"k0",
    b"k1",
    b"k2",
    b"k3",
    b"",
    b"key with space",
    b"cr\r\nlf",
    b"\r",
    b"$3",
    b"*2\r\n$3\r\nGET\r\n$2\r\nk0\r\n",
    b"a-much-longer-key-name-that-exceeds-sixty-bytes-so-one-frame-fills-the-pipeline-buffer",
    "\u{043a}\u{043b}".as_bytes(),
];
const FIELDS: &[&[u8]] = &[b"f", b"g", b"", b"f\r\ng", "\u{e9}".as_bytes()];
const INTS: &[&[u8]] = &[b"0", b"1", b"-1", b"2", b"10", b"-0", b"+5", b"007", b"9223372036854775807", b"-9223372036854775808", b"9223372036854775808", b"x", b"", b"1.5"];
const UNKNOWN: &[&[u8]] = &[b"NOSUCHCMD", b"FOO\r\n+BAR", b"nosuch", b"GETT", "\u{e9}t\u{e9}".as_bytes(), b"X", b"", b" ", b"\t\n"];

fn pick<'a>(u: &mut Unstructured<'_>, pool: &'a [&'a [u8]]) -> Vec<u8> {
    pool[u.int_in_range(0..=pool.len() - 1).unwrap_or(0)].to_vec()
}

fn key(u: &mut Unstructured<'_>) -> Vec<u8> {
    pick(u, KEYS)
}

/// an argument that is only ever a value: arbitrary bytes
fn value(u: &mut Unstructured<'_>) -> Vec<u8> {
    const SPECIAL: &[&[u8]] = &[b"", b"v", b"\r\n", b"+OK\r\n", b"*1\r\n$4\r\nPING\r\n", b"\0", b"$-1\r\n", b"12", b"-3"];
    match u.int_in_range(0..=4u8).unwrap_or(0) {
        0 => pick(u, SPECIAL),
        1 => {
            let n = u.int_in_range(60..=200usize).unwrap_or(60);
            vec![b'v'; n]
        }
        2 => {
            // CR / LF / NUL / '$' soup
            let n = u.int_in_range(0..=12usize).unwrap_or(0);
            (0..n).map(|_| [b'\r', b'\n', b'$', b'x', 0u8][u.int_in_range(0..=4usize).unwrap_or(3)]).collect()
        }
        _ => {
            let n = u.int_in_range(0..=16usize).unwrap_or(0);
            u.bytes(n.min(u.len())).map(|b| b.to_vec()).unwrap_or_default()
        }
    }
}

fn b(s: &str) -> Vec<u8> {
    s.as_bytes().to_vec()
}

fn recase(name: &mut Vec<u8>, mode: u8) {
    match mode % 8 {
        0..=3 => {}
        4 | 5 => name.make_ascii_lowercase(),
        6 => {
            for (i, c) in name.iter_mut().enumerate() {
                if i % 2 == 1 {
                    c.make_ascii_lowercase();
                }
            }
        }
        _ => {
            if let Some(c) = name.first_mut() {
                c.make_ascii_lowercase();
            }
        }
    }
}

fn command(u: &mut Unstructured<'_>) -> Argv {
    let sel = u.int_in_range(0..=63u8).unwrap_or(0);
    let mut a: Argv = match sel {
        0..=11 => vec![b("GET"), key(u)],
        12..=23 => vec![b("SET"), key(u), value(u)],
        24 => vec![b("INCR"), key(u)],
        25 => vec![b("DECR"), key(u)],
        26 => vec![b("INCRBY"), key(u), pick(u, INTS)],
        27 => vec![b("DECRBY"), key(u), pick(u, INTS)],
        28 => vec![b("APPEND"), key(u), value(u)],
        29 => vec![b("STRLEN"), key(u)],
        30 => vec![b("DEL"), key(u), key(u)],
        31 => vec![b("EXISTS"), key(u), key(u)],
        32 => vec![b("GETSET"), key(u), value(u)],
        33 => vec![b("SETNX"), key(u), value(u)],
        34 => vec![b("MSET"), key(u), value(u), key(u), value(u)],
        35 => vec![b("MGET"), key(u), key(u), key(u)],
        36 => vec![b("LPUSH"), key(u), value(u), value(u)],
        37 => vec![b("RPUSH"), key(u), value(u)],
        38 => vec![b("LPOP"), key(u)],
        39 => vec![b("RPOP"), key(u)],
        40 => vec![b("LRANGE"), key(u), pick(u, INTS), pick(u, INTS)],
        41 => vec![b("LLEN"), key(u)],
        42 => vec![b("LINDEX"), key(u), pick(u, INTS)],
        43 => vec![b("HSET"), key(u), pick(u, FIELDS), value(u)],
        44 => vec![b("HGET"), key(u), pick(u, FIELDS)],
        45 => vec![b("HDEL"), key(u), pick(u, FIELDS)],
        46 => vec![b("HLEN"), key(u)],
        47 => vec![b("HEXISTS"), key(u), pick(u, FIELDS)],
        48 => vec![b("HINCRBY"), key(u), pick(u, FIELDS), pick(u, INTS)],
        49 => vec![b("SADD"), key(u), pick(u, FIELDS), pick(u, FIELDS)],
        50 => vec![b("SISMEMBER"), key(u), pick(u, FIELDS)],
        51 => vec![b("SCARD"), key(u)],
        52 => vec![b("ZADD"), key(u), pick(u, INTS), pick(u, FIELDS)],
        53 => vec![b("ZSCORE"), key(u), pick(u, FIELDS)],
        54 => vec![b("ZCARD"), key(u)],
        55 => vec![b("TYPE"), key(u)],
        56 => vec![b("PING")],
        57 => {
            if u.arbitrary::<bool>().unwrap_or(false) {
                vec![b("PING"), value(u)]
            } else {
                vec![b("ECHO"), value(u)]
            }
        }
        58 => vec![b("DBSIZE")],
        59 => vec![b(["MULTI", "EXEC", "DISCARD", "MULTI", "EXEC"][u.int_in_range(0..=4usize).unwrap_or(0)])],
        60 => {
            // unknown command: from the pool, or "QX" + arbitrary ASCII (incl. CR LF NUL)
            let mut name = if u.arbitrary::<bool>().unwrap_or(false) {
                pick(u, UNKNOWN)
            } else {
                let n = u.int_in_range(0..=6usize).unwrap_or(0);
                let mut v = b("QX");
                v.extend(u.bytes(n.min(u.len())).map(|x| x.to_vec()).unwrap_or_default().into_iter().map(|c| c & 0x7f));
                v
            };
            if name.len() > 90 {
                name.truncate(90);
            }
            let nargs = u.int_in_range(0..=2usize).unwrap_or(0);
            let mut v = vec![name];
            for _ in 0..nargs {
                v.push(value(u));
            }
            v
        }
        61 => vec![b("FLUSHALL")],
        62 => vec![b("EVAL"), b("return 1"), b("0")],
        _ => {
            // wrong arity: a known command with its last argument dropped or one added
            let mut v = match u.int_in_range(0..=7u8).unwrap_or(0) {
                0 => vec![b("GET")],
                1 => vec![b("GET"), key(u), key(u)],
                2 => vec![b("SET"), key(u)],
                3 => vec![b("SET")],
                4 => vec![b("INCR")],
                5 => vec![b("LPUSH"), key(u)],
                6 => vec![b("HSET"), key(u), pick(u, FIELDS)],
                _ => vec![b("ECHO")],
            };
            if u.arbitrary::<bool>().unwrap_or(false) {
                v[0].make_ascii_lowercase();
            }
            v
        }
    };
    if sel != 60 {
        let m = u.arbitrary::<u8>().unwrap_or(0);
        recase(&mut a[0], m);
    }
    a
}

struct Run {
    cfg: ConnectionConfig,
    cfg_desc: String,
    chunks: Vec<Vec<u8>>,
    pending: Vec<u8>,
    write_limit: usize,
    cut_inside: bool,
}

/// Offset of an aimed cut inside frame `(s, e)` (props/c04 `aim_offset`).
fn aim_offset(bytes: &[u8], s: usize, e: usize, kind: u8, sub: u8) -> Option<usize> {
    let f = &bytes[s..e];
    let crs: Vec<usize> = f.iter().enumerate().filter(|(_, &c)| c == b'\r').map(|(i, _)| i).collect();
    let rel = match kind % 10 {
        0 => 1,
        1 => f.windows(3).position(|w| w == b"\r\n$")? + 3,
        2 => crs.first()? + 1,
        3 => {
            if crs.is_empty() {
                return None;
            }
            crs[(sub as usize * crs.len()) >> 8] + 1
        }
        4 => (sub as usize * f.len()) >> 8,
        5 => f.len().checked_sub(1)?,
        6 => f.len(),
        7 => 12,
        8 => 14,
        _ => 15,
    };
    if rel == 0 || rel > f.len() {
        return None;
    }
    Some(s + rel)
}

fn run_spec(u: &mut Unstructured<'_>, stream: &[u8], frames: &[(usize, usize)]) -> Run {
    let c = u.arbitrary::<u8>().unwrap_or(0);
    let min_pipeline_buffer = [1usize, 14, 60, 70, 1_000_000_000, usize::MAX, 60, 1][(c & 7) as usize];
    let batch_threshold = [1usize, 2, 6, 16][((c >> 3) & 3) as usize];
    let read_buffer_size = [16usize, 64, 8192, 8192][((c >> 5) & 3) as usize];
    let cfg = ConnectionConfig { min_pipeline_buffer, batch_threshold, read_buffer_size, ..ConnectionConfig::default() };
    let total = stream.len();
    let mut cuts: Vec<usize> = Vec::new();
    match u.int_in_range(0..=6u8).unwrap_or(0) {
        0 => {}
        1 => cuts.extend(1..total),
        2 => cuts.extend(frames.iter().map(|f| f.1)),
        3 => {
            let n = [1usize, 2, 3, 13, 14, 15, 16, 59, 60, 61, 100][u.int_in_range(0..=10usize).unwrap_or(0)];
            let mut p = n;
            while p < total {
                cuts.push(p);
                p += n;
            }
        }
        4 => {
            let k = u.int_in_range(1..=6usize).unwrap_or(1);
            for _ in 0..k {
                let f = u.arbitrary::<u16>().unwrap_or(0) as usize;
                if total > 1 {
                    cuts.push(1 + ((f * (total - 1)) >> 16));
                }
            }
        }
        _ => {
            let k = u.int_in_range(1..=6usize).unwrap_or(1);
            for _ in 0..k {
                let fi = (u.arbitrary::<u16>().unwrap_or(0) as usize * frames.len()) >> 16;
                let (kind, sub) = (u.arbitrary::<u8>().unwrap_or(0), u.arbitrary::<u8>().unwrap_or(0));
                let (s, e) = frames[fi];
                if let Some(o) = aim_offset(stream, s, e, kind, sub) {
                    cuts.push(o);
                }
            }
        }
    }
    cuts.retain(|&p| p > 0 && p < total);
    cuts.sort_unstable();
    cuts.dedup();
    let cut_inside = cuts.iter().any(|p| !frames.iter().any(|f| f.1 == *p));
    let mut chunks = Vec::with_capacity(cuts.len() + 1);
    let mut last = 0;
    for p in cuts {
        chunks.push(stream[last..p].to_vec());
        last = p;
    }
    chunks.push(stream[last..].to_vec());
    let io = u.arbitrary::<u8>().unwrap_or(0);
    // spurious Pending before some chunks; short writes
    let pending: Vec<u8> = if io & 3 == 3 { (0..chunks.len()).map(|i| ((io >> 2) as usize + i) as u8 % 3).collect() } else { Vec::new() };
    let write_limit = [0usize, 0, 0, 1, 7, 0, 0, 0][((io >> 5) & 7) as usize];
    Run {
        cfg_desc: format!(
            "min_pipeline_buffer={} batch_threshold={} read_buffer_size={} chunks={} pending={} write_limit={}",
            min_pipeline_buffer,
            batch_threshold,
            read_buffer_size,
            chunks.len(),
            !pending.is_empty(),
            write_limit
        ),
        cfg,
        chunks,
        pending,
        write_limit,
        cut_inside,
    }
}

fn drive(r: Run) -> Vec<u8> {
    vcore::block_on(async move {
        let state = ShardedActorState::with_shards(1);
        let (mut stream, out) = ScriptedStream::new(r.chunks);
        if !r.pending.is_empty() {
            stream = stream.with_pending(r.pending);
        }
        if r.write_limit > 0 {
            stream = stream.with_write_limit(r.write_limit);
        }
        verif_hooks::run_connection(stream, state, r.cfg).await;
        let b = out.lock().unwrap().clone();
        b
    })
}

fn show_cmds(cmds: &[Argv]) -> String {
    cmds.iter().map(|c| show_argv(c)).collect::<Vec<_>>().join(" | ")
}

fuzz_target!(|data: &[u8]| {
    shared::stats::register("conn_frames", STATS);
    if data.len() < 8 || data.len() > 2048 {
        return;
    }
    // the first 24 bytes (at most) describe the two runs, the rest the commands
    let split = data.len().min(24);
    let (head, body) = data.split_at(split);
    let mut u = Unstructured::new(body);
    let mut cmds: Vec<Argv> = Vec::new();
    let mut stream: Vec<u8> = Vec::new();
    let mut frames: Vec<(usize, usize)> = Vec::new();
    while !u.is_empty() && cmds.len() < MAX_CMDS && stream.len() < MAX_STREAM {
        let c = command(&mut u);
        let s = stream.len();
        stream.extend_from_slice(&encode_command(&c));
        frames.push((s, stream.len()));
        cmds.push(c);
    }
    if cmds.is_empty() {
        return;
    }
    let mut hu = Unstructured::new(head);
    let ra = run_spec(&mut hu, &stream, &frames);
    let rb = run_spec(&mut hu, &stream, &frames);
    N_STREAMS.inc();
    for _ in 0..cmds.len() {
        N_CMDS.inc();
    }
    if ra.cut_inside || rb.cut_inside {
        N_SPLIT_INSIDE.inc();
    }
    let (da, db) = (ra.cfg_desc.clone(), rb.cfg_desc.clone());
    if da != db {
        N_DIFF_CFG.inc();
    }
    let out_a = drive(ra);
    let out_b = drive(rb);
    for (name, desc, out) in [("A", &da, &out_a), ("B", &db, &out_b)] {
        match decode_stream(out) {
            Ok(replies) => {
                if replies.len() != cmds.len() {
                    panic!(
                        "run {} ({}): {} replies for {} commands\n  commands: {}\n  replies: {:?}",
                        name,
                        desc,
                        replies.len(),
                        cmds.len(),
                        show_cmds(&cmds),
                        replies.iter().map(|r| r.show()).collect::<Vec<_>>()
                    );
                }
            }
            Err((sofar, off, why)) => panic!(
                "run {} ({}): output is not a well-formed reply stream at byte {} ({}); {} replies decoded for {} commands\n  commands: {}\n  output: {:?}",
                name,
                desc,
                off,
                why,
                sofar.len(),
                cmds.len(),
                show_cmds(&cmds),
                vcore::show(out)
            ),
        }
    }
    if out_a != out_b {
        let ra = decode_stream(&out_a).unwrap_or_default();
        let rb = decode_stream(&out_b).unwrap_or_default();
        let i = ra.iter().zip(rb.iter()).position(|(x, y)| x != y).unwrap_or(0);
        panic!(
            "the same command stream gave different output under two segmentations / configurations\n  run A: {}\n  run B: {}\n  first differing reply: #{} to {}: A {} / B {}\n  commands: {}",
            da,
            db,
            i,
            show_argv(&cmds[i]),
            ra[i].show(),
            rb[i].show(),
            show_cmds(&cmds)
        );
    }
});
