//! Helpers shared by the structured fuzz targets (included with `#[path]`, not a crate):
//!  * `stats`  – per-process counters printed as one `VERIF-STAT` line at exit (libFuzzer ends a
//!               `-runs=N` campaign through `exit(0)`, so an `atexit` handler sees it);
//!               tools/fuzz_campaign.sh copies the line into the campaign statistics.
//!  * `crc32`  – table-driven CRC-32 (IEEE), independent of the crate the code under test uses.
//!  * `wal`    – the documented WAL file layout, a reference framer and the expectation
//!               "exact intact prefix" for a mutated file, with the exact delimitation of the
//!               open finding KF-C10-01 (same logic as harness/props/c10 `expect_file`).
#![allow(dead_code)]

pub mod stats {
    use std::sync::atomic::{AtomicU64, Ordering};
    use std::sync::OnceLock;

    pub struct Counter {
        pub name: &'static str,
        pub n: AtomicU64,
    }

    impl Counter {
        pub const fn new(name: &'static str) -> Counter {
            Counter { name, n: AtomicU64::new(0) }
        }
        pub fn inc(&self) {
            self.n.fetch_add(1, Ordering::Relaxed);
        }
    }

    static TABLE: OnceLock<(&'static str, &'static [&'static Counter])> = OnceLock::new();

    extern "C" {
        fn atexit(cb: extern "C" fn()) -> i32;
    }

    extern "C" fn dump() {
        if let Some((target, table)) = TABLE.get() {
            let mut line = format!("VERIF-STAT target={}", target);
            for c in table.iter() {
                line.push_str(&format!(" {}={}", c.name, c.n.load(Ordering::Relaxed)));
            }
            eprintln!("{}", line);
        }
    }

    /// Call at the start of every iteration (cheap after the first).
    pub fn register(target: &'static str, table: &'static [&'static Counter]) {
        if TABLE.get().is_none() && TABLE.set((target, table)).is_ok() {
            unsafe {
                atexit(dump);
            }
        }
    }
}

pub mod crc32 {
    const fn table() -> [u32; 256] {
        let mut t = [0u32; 256];
        let mut i = 0;
        while i < 256 {
            let mut c = i as u32;
            let mut k = 0;
            while k < 8 {
                c = if c & 1 != 0 { 0xEDB8_8320 ^ (c >> 1) } else { c >> 1 };
                k += 1;
            }
            t[i] = c;
            i += 1;
        }
        t
    }
    static TABLE: [u32; 256] = table();

    pub fn crc32(data: &[u8]) -> u32 {
        let mut c = 0xFFFF_FFFFu32;
        for &b in data {
            c = TABLE[((c ^ b as u32) & 0xff) as usize] ^ (c >> 8);
        }
        c ^ 0xFFFF_FFFF
    }
}

pub mod wal {
    use super::crc32::crc32;

    pub const HEADER: usize = 16;
    pub const OVERHEAD: usize = 16;

    /// (data, stamp)
    pub type E = (Vec<u8>, u64);

    pub fn file_name(seq: u64) -> String {
        format!("wal-{:08x}.wal", seq)
    }

    /// len | stamp | crc32(data) | data
    pub fn encode_entry(data: &[u8], stamp: u64) -> Vec<u8> {
        let mut v = Vec::with_capacity(OVERHEAD + data.len());
        v.extend_from_slice(&(data.len() as u32).to_le_bytes());
        v.extend_from_slice(&stamp.to_le_bytes());
        v.extend_from_slice(&crc32(data).to_le_bytes());
        v.extend_from_slice(data);
        v
    }

    /// One WAL file as written: its bytes, the entries appended to it and their offsets
    /// (`offs[k]..offs[k+1]` is the frame of entry k).
    pub struct FileImg {
        pub name: String,
        pub seq: u64,
        pub bytes: Vec<u8>,
        pub entries: Vec<E>,
        pub offs: Vec<usize>,
    }

    impl FileImg {
        /// Offsets by the documented layout; `Err` when the stored bytes are not header + the
        /// entries laid out as documented (a harness/format mismatch, reported as a violation
        /// of the round trip by the caller).
        pub fn new(name: String, seq: u64, bytes: Vec<u8>, entries: Vec<E>) -> Result<FileImg, String> {
            let mut offs = vec![HEADER];
            for e in &entries {
                let last = *offs.last().unwrap();
                offs.push(last + OVERHEAD + e.0.len());
            }
            if bytes.len() != *offs.last().unwrap() {
                return Err(format!(
                    "file {} holds {} bytes, but header + its {} entries occupy {} bytes by the documented layout",
                    name,
                    bytes.len(),
                    entries.len(),
                    offs.last().unwrap()
                ));
            }
            for (k, e) in entries.iter().enumerate() {
                if bytes[offs[k]..offs[k + 1]] != encode_entry(&e.0, e.1)[..] {
                    return Err(format!("file {} entry {} is not laid out as len|stamp|crc32(data)|data", name, k));
                }
            }
            Ok(FileImg { name, seq, bytes, entries, offs })
        }

        pub fn locate(&self, off: usize) -> String {
            if off < HEADER {
                return format!("file header byte {}", off);
            }
            for k in 0..self.entries.len() {
                if off >= self.offs[k] && off < self.offs[k + 1] {
                    let r = off - self.offs[k];
                    let field = match r {
                        0..=3 => "length field".to_string(),
                        4..=11 => "stamp field".to_string(),
                        12..=15 => "crc field".to_string(),
                        _ => format!("payload byte {}", r - 16),
                    };
                    return format!("entry {} of the file, {}", k, field);
                }
            }
            "past the last entry".to_string()
        }
    }

    #[derive(Clone, Debug, PartialEq)]
    enum St {
        Intact,
        /// only bytes of the 8-byte stamp field differ; the stamp now stored
        StampOnly(u64),
        Damaged,
    }

    fn entry_status(orig: &[u8], mutd: &[u8], start: usize, end: usize) -> St {
        if mutd.len() < end {
            return St::Damaged;
        }
        if orig[start..end] == mutd[start..end] {
            return St::Intact;
        }
        if orig[start..start + 4] == mutd[start..start + 4] && orig[start + 12..end] == mutd[start + 12..end] {
            let mut b = [0u8; 8];
            b.copy_from_slice(&mutd[start + 4..start + 12]);
            return St::StampOnly(u64::from_le_bytes(b));
        }
        St::Damaged
    }

    /// Reference reader for the documented layout from offset `pos`: frames
    /// len|stamp|crc|data, stops at the first frame that is short, empty (the decoder rejects
    /// `len == 0` since c43b8a7) or whose CRC-32 does not match.
    pub fn ref_decode(bytes: &[u8], mut pos: usize) -> Vec<E> {
        let mut out = Vec::new();
        while pos + OVERHEAD <= bytes.len() {
            let len = u32::from_le_bytes([bytes[pos], bytes[pos + 1], bytes[pos + 2], bytes[pos + 3]]) as usize;
            if len == 0 {
                break;
            }
            let mut sb = [0u8; 8];
            sb.copy_from_slice(&bytes[pos + 4..pos + 12]);
            let crc = u32::from_le_bytes([bytes[pos + 12], bytes[pos + 13], bytes[pos + 14], bytes[pos + 15]]);
            let end = match (pos + OVERHEAD).checked_add(len) {
                Some(e) if e <= bytes.len() => e,
                _ => break,
            };
            if crc32(&bytes[pos + OVERHEAD..end]) != crc {
                break;
            }
            out.push((bytes[pos + OVERHEAD..end].to_vec(), u64::from_le_bytes(sb)));
            pos = end;
        }
        out
    }

    pub struct Outcome {
        /// what the property demands of the mutated file: its first `strict` entries, unchanged
        pub strict: usize,
        /// what a reader with the open finding KF-C10-01 returns (None if it does not apply):
        /// an entry whose only damaged bytes lie in its stamp field is returned with the stored
        /// (never written) stamp
        pub tolerant: Option<Vec<E>>,
        pub header_damaged: bool,
        /// the first damaged frame is self-consistent (its stored CRC-32 matches its stored
        /// data): no checksum can tell it from an appended entry, the property cannot demand
        /// its rejection -> the caller abstains on this file (counted)
        pub forged: bool,
    }

    /// Expected recovery of one file whose bytes were `f.bytes` and now are `mutd`.
    pub fn expect_file(f: &FileImg, mutd: &[u8]) -> Outcome {
        let orig = &f.bytes;
        let header_damaged = mutd.len() < HEADER || mutd[..HEADER] != orig[..HEADER];
        let mut strict = 0usize;
        let mut strict_open = true;
        let mut tolerant: Vec<E> = Vec::new();
        let mut uses_stamp = false;
        let mut stop = *f.offs.last().unwrap();
        for k in 0..f.entries.len() {
            match entry_status(orig, mutd, f.offs[k], f.offs[k + 1]) {
                St::Intact => {
                    if strict_open {
                        strict += 1;
                    }
                    tolerant.push(f.entries[k].clone());
                }
                St::StampOnly(s) => {
                    strict_open = false;
                    uses_stamp = true;
                    tolerant.push((f.entries[k].0.clone(), s));
                }
                St::Damaged => {
                    stop = f.offs[k];
                    break;
                }
            }
        }
        let forged = mutd.len() >= stop && !ref_decode(mutd, stop).is_empty();
        Outcome {
            strict,
            tolerant: if uses_stamp { Some(tolerant) } else { None },
            header_damaged,
            forged,
        }
    }

    pub enum Verdict {
        Ok,
        /// accepted only because KF-C10-01 is open (count it)
        StampFinding,
        /// nothing can be demanded of this file (count it)
        Forged,
    }

    fn show_entry(e: &E) -> String {
        format!("(len={} crc={:08x} stamp={})", e.0.len(), crc32(&e.0), e.1)
    }

    pub fn show_list(v: &[E]) -> String {
        let parts: Vec<String> = v.iter().map(show_entry).collect();
        format!("[{}]", parts.join(", "))
    }

    /// `files` in sequence order, file `m` now reads as `mutd`, `got` is everything
    /// `recover_all_entries` returned. Other files must be complete, file `m` must yield the
    /// exact intact prefix.
    pub fn compare_recovered(files: &[FileImg], m: usize, mutd: &[u8], got: &[E], what: &str) -> Result<Verdict, String> {
        let f = &files[m];
        let n_before: usize = files[..m].iter().map(|l| l.entries.len()).sum();
        let n_after: usize = files[m + 1..].iter().map(|l| l.entries.len()).sum();
        let all = &f.entries;
        let exp = expect_file(f, mutd);
        let fail = |why: &str| -> String {
            format!(
                "{}: {}\n  appended to this file: {}\n  demanded of this file:  its first {} entries\n  recovered (all files): {}\n  other files hold {} entries before and {} after this file",
                what,
                why,
                show_list(all),
                exp.strict,
                show_list(got),
                n_before,
                n_after
            )
        };
        if got.len() < n_before + n_after {
            return Err(fail("entries of undamaged files are missing"));
        }
        let mut at = 0;
        for l in &files[..m] {
            if got[at..at + l.entries.len()] != l.entries[..] {
                return Err(fail("entries of the files before the damaged one are not recovered intact"));
            }
            at += l.entries.len();
        }
        let mut at = got.len() - n_after;
        for l in &files[m + 1..] {
            if got[at..at + l.entries.len()] != l.entries[..] {
                return Err(fail("entries of the files after the damaged one are not recovered intact"));
            }
            at += l.entries.len();
        }
        let mid = &got[n_before..got.len() - n_after];
        if exp.forged {
            return Ok(Verdict::Forged);
        }
        if mid == &all[..exp.strict] {
            return Ok(Verdict::Ok);
        }
        if exp.header_damaged && mid.is_empty() {
            // a file whose 16-byte header is damaged may be skipped as a whole
            return Ok(Verdict::Ok);
        }
        if let Some(tol) = &exp.tolerant {
            if mid == &tol[..] {
                if std::env::var_os("VERIF_STRICT_KF").is_some() {
                    return Err(fail("mutation inside the stamp field of an entry header is accepted: an entry is returned with a stamp that was never written (KF-C10-01)"));
                }
                return Ok(Verdict::StampFinding);
            }
        }
        Err(fail("recovered list of the damaged file is not the intact prefix"))
    }
}
