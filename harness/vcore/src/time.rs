//! Harness-owned clock for `ShardedActorState<T: TimeSource>` and friends.

use redis_sim::io::TimeSource;
use std::sync::atomic::{AtomicU64, Ordering};
use std::sync::Arc;

#[derive(Clone, Debug, Default)]
pub struct VerifTime(pub Arc<AtomicU64>);

impl VerifTime {
    pub fn new(ms: u64) -> Self {
        VerifTime(Arc::new(AtomicU64::new(ms)))
    }
    pub fn set(&self, ms: u64) {
        self.0.store(ms, Ordering::SeqCst);
    }
    pub fn advance(&self, ms: u64) -> u64 {
        self.0.fetch_add(ms, Ordering::SeqCst) + ms
    }
    pub fn get(&self) -> u64 {
        self.0.load(Ordering::SeqCst)
    }
}

impl TimeSource for VerifTime {
    fn now_millis(&self) -> u64 {
        self.0.load(Ordering::SeqCst)
    }
}
