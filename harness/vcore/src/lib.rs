//! Shared machinery for the /verif property checks.
//!
//! * `runner`   – proptest-as-a-library driver (seeded, parallel, shrinking, replay files),
//!                enumerated-space driver, evidence writer, verdict protocol.
//! * `findings` – known_findings.json (never written at run time).
//! * `resp`     – argv -> frame/Command helpers, reply rendering, strict RESP reply decoder.
//! * `stream`   – ScriptedStream (harness-owned segmentation for the connection handler).
//! * `time`     – VerifTime (harness-owned TimeSource).
//! * `gen`      – value pools and the command grammar shared by C01/C03/C05/C16/C17.
//! * `dump`     – visible-keyspace dumps through ordinary read commands.
//! * `proj`     – canonical projections of replicated values.

pub mod alloc_count;
pub mod dump;
pub mod findings;
pub mod gen;
pub mod proj;
pub mod resp;
pub mod runner;
pub mod stream;
pub mod time;

pub use runner::{parse_args, Args, CaseCtx, Level, Session, Tier};

/// FNV-1a 64 — a fixed, process-independent hash for fingerprints (never `RandomState`).
pub fn fnv64(bytes: &[u8]) -> u64 {
    let mut h: u64 = 0xcbf29ce484222325;
    for b in bytes {
        h ^= *b as u64;
        h = h.wrapping_mul(0x100000001b3);
    }
    h
}

pub fn fnv64_str(s: &str) -> u64 {
    fnv64(s.as_bytes())
}

/// splitmix64 — used only to derive per-check / per-worker seeds from VERIF_SEED.
pub fn mix64(mut x: u64) -> u64 {
    x = x.wrapping_add(0x9E3779B97F4A7C15);
    let mut z = x;
    z = (z ^ (z >> 30)).wrapping_mul(0xBF58476D1CE4E5B9);
    z = (z ^ (z >> 27)).wrapping_mul(0x94D049BB133111EB);
    z ^ (z >> 31)
}

/// Run a future to completion on a fresh current-thread runtime (no task survives the case).
pub fn block_on<F: std::future::Future>(fut: F) -> F::Output {
    let rt = tokio::runtime::Builder::new_current_thread()
        .enable_all()
        .build()
        .expect("tokio runtime");
    let out = rt.block_on(fut);
    drop(rt);
    out
}

pub fn hex(bytes: &[u8]) -> String {
    let mut s = String::with_capacity(bytes.len() * 2);
    for b in bytes {
        s.push_str(&format!("{:02x}", b));
    }
    s
}

/// Printable rendering of bytes: ASCII kept, everything else `\xNN`.
pub fn show(bytes: &[u8]) -> String {
    let mut s = String::new();
    for &b in bytes {
        match b {
            b'\r' => s.push_str("\\r"),
            b'\n' => s.push_str("\\n"),
            b'\\' => s.push_str("\\\\"),
            0x20..=0x7e => s.push(b as char),
            _ => s.push_str(&format!("\\x{:02x}", b)),
        }
    }
    s
}
