//! Runner: drives proptest as a library, counts what was generated, shrinks failures into
//! replay files, writes the evidence file and implements the verdict protocol
//! (exit 0 / exit 1 + `VIOLATION property=<id> replay=<path>`).

use crate::findings::Findings;
use crate::{fnv64_str, mix64};
use proptest::strategy::Strategy;
use proptest::test_runner::{Config, RngSeed, TestCaseError, TestError, TestRunner};
use serde::de::DeserializeOwned;
use serde::Serialize;
use serde_json::{json, Value as J};
use std::cell::RefCell;
use std::collections::{BTreeMap, BTreeSet};
use std::fmt::Debug;
use std::path::{Path, PathBuf};
use std::sync::atomic::{AtomicBool, Ordering};
use std::sync::Mutex;
use std::time::Instant;

#[derive(Clone, Copy, Debug, PartialEq, Eq)]
pub enum Tier {
    Quick,
    Thorough,
}

#[derive(Clone, Copy, Debug, PartialEq, Eq)]
pub enum Level {
    Exploration,
    FaultEnumeration,
}

impl Level {
    fn as_str(&self) -> &'static str {
        match self {
            Level::Exploration => "exploration",
            Level::FaultEnumeration => "fault_enumeration",
        }
    }
}

#[derive(Clone, Debug)]
pub struct Args {
    pub tier: Tier,
    pub seed: u64,
    pub replay: Option<PathBuf>,
    /// remaining positional arguments (sub-commands such as child modes)
    pub rest: Vec<String>,
}

/// `--tier quick|thorough`, `--seed N`, `--replay FILE`; VERIF_TIER / VERIF_SEED as defaults.
pub fn parse_args() -> Args {
    let mut tier = match std::env::var("VERIF_TIER").ok().as_deref() {
        Some("thorough") => Tier::Thorough,
        _ => Tier::Quick,
    };
    let mut seed: u64 = std::env::var("VERIF_SEED")
        .ok()
        .and_then(|s| s.trim().parse::<i128>().ok())
        .map(|v| v as u64)
        .unwrap_or(0);
    let mut replay = None;
    let mut rest = Vec::new();
    let mut it = std::env::args().skip(1);
    while let Some(a) = it.next() {
        match a.as_str() {
            "--tier" => {
                tier = match it.next().as_deref() {
                    Some("thorough") => Tier::Thorough,
                    _ => Tier::Quick,
                }
            }
            "--seed" => {
                if let Some(s) = it.next() {
                    if let Ok(v) = s.trim().parse::<i128>() {
                        seed = v as u64;
                    }
                }
            }
            "--replay" => replay = it.next().map(PathBuf::from),
            _ => rest.push(a),
        }
    }
    Args {
        tier,
        seed,
        replay,
        rest,
    }
}

thread_local! {
    static LAST_PANIC: RefCell<Option<String>> = const { RefCell::new(None) };
}

/// Silence the default panic printer and remember the last panic message per thread.
pub fn install_quiet_panic_hook() {
    std::panic::set_hook(Box::new(|info| {
        let msg = if let Some(s) = info.payload().downcast_ref::<&str>() {
            (*s).to_string()
        } else if let Some(s) = info.payload().downcast_ref::<String>() {
            s.clone()
        } else {
            "<non-string panic payload>".to_string()
        };
        let loc = info
            .location()
            .map(|l| format!("{}:{}", l.file(), l.line()))
            .unwrap_or_default();
        LAST_PANIC.with(|p| *p.borrow_mut() = Some(format!("{} @ {}", msg, loc)));
    }));
}

/// Take the message of the last panic observed on this thread.
pub fn take_last_panic() -> Option<String> {
    LAST_PANIC.with(|p| p.borrow_mut().take())
}

/// Run `f`, converting a panic into `Err("panic: <message> @ <file:line>")`.
pub fn catch<R>(f: impl FnOnce() -> R) -> Result<R, String> {
    let _ = take_last_panic();
    match std::panic::catch_unwind(std::panic::AssertUnwindSafe(f)) {
        Ok(r) => Ok(r),
        Err(e) => {
            let msg = take_last_panic().unwrap_or_else(|| {
                if let Some(s) = e.downcast_ref::<&str>() {
                    (*s).to_string()
                } else if let Some(s) = e.downcast_ref::<String>() {
                    s.clone()
                } else {
                    "<unknown panic>".to_string()
                }
            });
            Err(format!("panic: {}", msg))
        }
    }
}

/// Per-case classification handed to the property closure.
pub struct CaseCtx<'a> {
    session: &'a Session,
    nontrivial: Option<u64>,
    labels: Vec<String>,
    excluded: Vec<String>,
    abstained: u64,
    extra_evals: u64,
    /// strict mode (probes): nothing is tolerated
    strict: bool,
}

impl<'a> CaseCtx<'a> {
    /// Mark this case as non-trivial (by the check's stated rule) with a fingerprint used to
    /// count distinct non-trivial cases.
    pub fn nontrivial<H: std::hash::Hash>(&mut self, fp: &H) {
        let mut h = FnvHasher::default();
        fp.hash(&mut h);
        self.nontrivial = Some(std::hash::Hasher::finish(&h));
    }
    pub fn nontrivial_fp(&mut self, fp: u64) {
        self.nontrivial = Some(fp);
    }
    /// Count this case under a class label (the measured generator distribution).
    pub fn label(&mut self, l: &str) {
        if !self.labels.iter().any(|x| x == l) {
            self.labels.push(l.to_string());
        }
    }
    /// If finding `id` is listed open in known_findings.json, count the exclusion and return
    /// true (the caller tolerates exactly this discrepancy and re-synchronises); otherwise
    /// false (the caller must report a violation).
    pub fn tolerate(&mut self, id: &str) -> bool {
        if !self.strict && self.session.findings.is_open(id) {
            self.excluded.push(id.to_string());
            true
        } else {
            false
        }
    }
    pub fn finding_open(&self, id: &str) -> bool {
        !self.strict && self.session.findings.is_open(id)
    }
    /// A comparison skipped because the oracle abstains (tag A in DESIGN.md appendix A).
    pub fn abstain(&mut self) {
        self.abstained += 1;
    }
    /// Additional inner evaluations performed by this case (e.g. enumerated crash points).
    pub fn add_evaluations(&mut self, n: u64) {
        self.extra_evals += n;
    }
    pub fn tier(&self) -> Tier {
        self.session.tier
    }
}

#[derive(Default)]
pub struct FnvHasher(u64);
impl std::hash::Hasher for FnvHasher {
    fn finish(&self) -> u64 {
        self.0
    }
    fn write(&mut self, bytes: &[u8]) {
        if self.0 == 0 {
            self.0 = 0xcbf29ce484222325;
        }
        for b in bytes {
            self.0 ^= *b as u64;
            self.0 = self.0.wrapping_mul(0x100000001b3);
        }
    }
}

#[derive(Default, Clone)]
struct Stats {
    evaluations: u64,
    inner_evaluations: u64,
    nontrivial_cases: u64,
    fingerprints: BTreeSet<u64>,
    labels: BTreeMap<String, u64>,
    excluded: BTreeMap<String, u64>,
    abstained: u64,
    samples: Vec<J>,
}

impl Stats {
    fn merge(&mut self, o: Stats) {
        self.evaluations += o.evaluations;
        self.inner_evaluations += o.inner_evaluations;
        self.nontrivial_cases += o.nontrivial_cases;
        self.fingerprints.extend(o.fingerprints);
        for (k, v) in o.labels {
            *self.labels.entry(k).or_default() += v;
        }
        for (k, v) in o.excluded {
            *self.excluded.entry(k).or_default() += v;
        }
        self.abstained += o.abstained;
        for s in o.samples {
            if self.samples.len() < 4 {
                self.samples.push(s);
            }
        }
    }
    fn absorb(&mut self, ctx: &CaseCtx<'_>, case: impl FnOnce() -> J) {
        self.evaluations += 1;
        self.inner_evaluations += ctx.extra_evals;
        for l in &ctx.labels {
            *self.labels.entry(l.clone()).or_default() += 1;
        }
        for e in &ctx.excluded {
            *self.excluded.entry(e.clone()).or_default() += 1;
        }
        self.abstained += ctx.abstained;
        if let Some(fp) = ctx.nontrivial {
            self.nontrivial_cases += 1;
            let fresh = self.fingerprints.insert(fp);
            if fresh && self.samples.len() < 2 {
                self.samples.push(truncate_json(case(), 4000));
            }
        }
    }
}

fn truncate_json(v: J, max: usize) -> J {
    let s = v.to_string();
    if s.len() <= max {
        v
    } else {
        let mut cut = max;
        while !s.is_char_boundary(cut) {
            cut -= 1;
        }
        json!({ "truncated_json": s[..cut].to_string(), "full_len": s.len() })
    }
}

#[derive(Clone)]
struct Violation {
    check: String,
    message: String,
    replay: PathBuf,
}

struct Inner {
    checks: BTreeMap<String, Stats>,
    check_rules: BTreeMap<String, String>,
    violations: Vec<Violation>,
    known_lines: Vec<String>,
    assumptions: Vec<String>,
    notes: BTreeMap<String, J>,
    exhaustive: Option<bool>,
}

struct ReplayReq {
    check: String,
    case: J,
    path: PathBuf,
}

pub struct Session {
    pub property: String,
    pub level: Level,
    pub tier: Tier,
    pub seed: u64,
    pub root: PathBuf,
    pub findings: Findings,
    rule: String,
    inner: Mutex<Inner>,
    replay: Option<ReplayReq>,
    replay_hit: AtomicBool,
    start: Instant,
}

fn verif_root() -> PathBuf {
    if let Ok(r) = std::env::var("VERIF_ROOT") {
        return PathBuf::from(r);
    }
    if let Ok(exe) = std::env::current_exe() {
        // <root>/harness/target/release/<bin>
        let mut p = exe.clone();
        for _ in 0..4 {
            p.pop();
        }
        if p.join("properties.jsonl").exists() {
            return p;
        }
    }
    PathBuf::from("/verif")
}

impl Session {
    /// `rule` states how cases are generated and what makes one non-trivial/distinct.
    pub fn new(property: &str, level: Level, rule: &str, args: &Args) -> Session {
        install_quiet_panic_hook();
        let root = verif_root();
        let findings = Findings::load(&root.join("known_findings.json"));
        let replay = args.replay.as_ref().map(|p| {
            let text = std::fs::read_to_string(p)
                .unwrap_or_else(|e| fatal(&format!("cannot read replay file {:?}: {}", p, e)));
            let v: J = serde_json::from_str(&text)
                .unwrap_or_else(|e| fatal(&format!("replay file is not JSON: {}", e)));
            ReplayReq {
                check: v["check"].as_str().unwrap_or("").to_string(),
                case: v["case"].clone(),
                path: p.clone(),
            }
        });
        Session {
            property: property.to_string(),
            level,
            tier: args.tier,
            seed: args.seed,
            root,
            findings,
            rule: rule.to_string(),
            inner: Mutex::new(Inner {
                checks: BTreeMap::new(),
                check_rules: BTreeMap::new(),
                violations: Vec::new(),
                known_lines: Vec::new(),
                assumptions: Vec::new(),
                notes: BTreeMap::new(),
                exhaustive: None,
            }),
            replay,
            replay_hit: AtomicBool::new(false),
            start: Instant::now(),
        }
    }

    pub fn is_replay(&self) -> bool {
        self.replay.is_some()
    }

    pub fn thorough(&self) -> bool {
        self.tier == Tier::Thorough
    }

    /// Pick the fixed amount of work for the tier.
    pub fn scale(&self, quick: u32, thorough: u32) -> u32 {
        let base = match self.tier {
            Tier::Quick => quick,
            Tier::Thorough => thorough,
        };
        // VERIF_SCALE (percent) lets sensitivity runs use less work; never used by MANIFEST.
        match std::env::var("VERIF_SCALE").ok().and_then(|s| s.parse::<u64>().ok()) {
            Some(p) => ((base as u64 * p) / 100).max(1) as u32,
            None => base,
        }
    }

    pub fn assume(&self, text: &str) {
        self.inner.lock().unwrap().assumptions.push(text.to_string());
    }

    pub fn note(&self, key: &str, v: J) {
        self.inner.lock().unwrap().notes.insert(key.to_string(), v);
    }

    pub fn set_exhaustive(&self, e: bool) {
        self.inner.lock().unwrap().exhaustive = Some(e);
    }

    pub fn describe_check(&self, check: &str, rule: &str) {
        self.inner
            .lock()
            .unwrap()
            .check_rules
            .insert(check.to_string(), rule.to_string());
    }

    fn seed_for(&self, check: &str, worker: u64) -> u64 {
        mix64(self.seed ^ mix64(fnv64_str(&self.property) ^ mix64(fnv64_str(check) ^ mix64(worker))))
    }

    fn replay_dir(&self) -> PathBuf {
        let d = self.root.join("replays");
        let _ = std::fs::create_dir_all(&d);
        d
    }

    fn record_violation<T: Serialize>(&self, check: &str, case: &T, message: &str) {
        if self.replay.is_some() {
            // replay mode: report against the replayed file itself
            let path = self.replay.as_ref().unwrap().path.clone();
            let mut g = self.inner.lock().unwrap();
            g.violations.push(Violation {
                check: check.to_string(),
                message: message.to_string(),
                replay: path,
            });
            return;
        }
        let case_json = serde_json::to_value(case).unwrap_or(J::Null);
        let fp = fnv64_str(&format!("{}|{}", check, case_json));
        let path = self.replay_dir().join(format!(
            "{}-{}-{:016x}.json",
            self.property,
            check.replace(['/', ' '], "_"),
            fp
        ));
        let doc = json!({
            "property": self.property,
            "check": check,
            "seed": self.seed,
            "tier": format!("{:?}", self.tier).to_lowercase(),
            "message": message,
            "case": case_json,
        });
        let _ = std::fs::write(&path, serde_json::to_string_pretty(&doc).unwrap());
        eprintln!(
            "[{}] violation in check '{}': {}\n    replay: {}",
            self.property,
            check,
            first_lines(message, 12),
            path.display()
        );
        let mut g = self.inner.lock().unwrap();
        if g.violations.len() < 8 {
            g.violations.push(Violation {
                check: check.to_string(),
                message: message.to_string(),
                replay: path,
            });
        }
    }

    /// Report a violation found by hand-written search code (outside run_cases).
    pub fn violation<T: Serialize>(&self, check: &str, case: &T, message: &str) {
        self.record_violation(check, case, message);
    }

    fn merge_stats(&self, check: &str, st: Stats) {
        let mut g = self.inner.lock().unwrap();
        g.checks.entry(check.to_string()).or_default().merge(st);
    }

    /// Generated search: `cases` cases from `mk_strategy()`, split over deterministic workers.
    /// `f` returns Err(message) on a property violation; panics inside `f` are violations too.
    pub fn run_cases<T, S, MS, F>(&self, check: &str, cases: u32, mk_strategy: MS, f: F)
    where
        T: Debug + Clone + Serialize + DeserializeOwned + Send,
        S: Strategy<Value = T>,
        MS: Fn() -> S + Sync,
        F: Fn(&T, &mut CaseCtx<'_>) -> Result<(), String> + Sync,
    {
        if let Some(rp) = &self.replay {
            if rp.check != check {
                return;
            }
            self.replay_hit.store(true, Ordering::SeqCst);
            let case: T = match serde_json::from_value(rp.case.clone()) {
                Ok(c) => c,
                Err(e) => fatal(&format!("replay case does not deserialize: {}", e)),
            };
            let mut ctx = self.new_ctx();
            let r = catch(|| f(&case, &mut ctx)).and_then(|r| r);
            let mut st = Stats::default();
            st.absorb(&ctx, || serde_json::to_value(&case).unwrap_or(J::Null));
            self.merge_stats(check, st);
            if let Err(msg) = r {
                self.record_violation(check, &case, &msg);
            }
            return;
        }

        let workers: u32 = match std::env::var("VERIF_JOBS").ok().and_then(|s| s.parse().ok()) {
            Some(w) => w,
            None => (cases / 16).clamp(1, 16),
        };
        let stop = AtomicBool::new(false);
        let t0 = Instant::now();
        std::thread::scope(|scope| {
            for w in 0..workers {
                let my_cases = cases / workers + if w < cases % workers { 1 } else { 0 };
                if my_cases == 0 {
                    continue;
                }
                let stop = &stop;
                let f = &f;
                let mk_strategy = &mk_strategy;
                let seed = self.seed_for(check, w as u64);
                std::thread::Builder::new()
                    .stack_size(64 << 20)
                    .spawn_scoped(scope, move || {
                        let config = Config {
                            cases: my_cases,
                            failure_persistence: None,
                            rng_seed: RngSeed::Fixed(seed),
                            max_shrink_iters: 4000,
                            max_global_rejects: 1 << 20,
                            ..Config::default()
                        };
                        let mut runner = TestRunner::new(config);
                        let strategy = mk_strategy();
                        let stats = RefCell::new(Stats::default());
                        let failed = std::cell::Cell::new(false);
                        let result = runner.run(&strategy, |case| {
                            if failed.get() {
                                // shrinking: re-evaluate without counting
                                let mut ctx = self.new_ctx();
                                return match catch(|| f(&case, &mut ctx)).and_then(|r| r) {
                                    Ok(()) => Ok(()),
                                    Err(m) => Err(TestCaseError::fail(m)),
                                };
                            }
                            if stop.load(Ordering::Relaxed) {
                                return Ok(());
                            }
                            let mut ctx = self.new_ctx();
                            let r = catch(|| f(&case, &mut ctx)).and_then(|r| r);
                            stats
                                .borrow_mut()
                                .absorb(&ctx, || serde_json::to_value(&case).unwrap_or(J::Null));
                            match r {
                                Ok(()) => Ok(()),
                                Err(m) => {
                                    failed.set(true);
                                    stop.store(true, Ordering::Relaxed);
                                    Err(TestCaseError::fail(m))
                                }
                            }
                        });
                        self.merge_stats(check, stats.into_inner());
                        match result {
                            Ok(()) => {}
                            Err(TestError::Fail(reason, value)) => {
                                // re-run the minimal case once through the plain path
                                let mut ctx = self.new_ctx();
                                let msg = match catch(|| f(&value, &mut ctx)).and_then(|r| r) {
                                    Err(m) => m,
                                    Ok(()) => format!(
                                        "(shrunk case passed on re-run; original failure) {}",
                                        reason
                                    ),
                                };
                                self.record_violation(check, &value, &msg);
                            }
                            Err(TestError::Abort(reason)) => {
                                eprintln!(
                                    "[{}] check '{}' aborted by proptest: {}",
                                    self.property, check, reason
                                );
                                self.note(
                                    &format!("aborted:{}", check),
                                    json!(reason.to_string()),
                                );
                            }
                        }
                    })
                    .expect("spawn worker");
            }
        });
        let dt = t0.elapsed().as_secs_f64();
        let g = self.inner.lock().unwrap();
        if let Some(st) = g.checks.get(check) {
            eprintln!(
                "[{}] {:<28} cases={} nontrivial={} distinct={} {:.1}s",
                self.property,
                check,
                st.evaluations,
                st.nontrivial_cases,
                st.fingerprints.len(),
                dt
            );
        }
    }

    /// Enumerated search over an explicit finite iterator (no shrinking; the failing element
    /// itself is the replay). Elements are pulled by 16 workers.
    pub fn run_enumerated<T, I, F>(&self, check: &str, items: I, f: F)
    where
        T: Debug + Serialize + DeserializeOwned + Send,
        I: Iterator<Item = T> + Send,
        F: Fn(&T, &mut CaseCtx<'_>) -> Result<(), String> + Sync,
    {
        if let Some(rp) = &self.replay {
            if rp.check != check {
                return;
            }
            self.replay_hit.store(true, Ordering::SeqCst);
            let case: T = match serde_json::from_value(rp.case.clone()) {
                Ok(c) => c,
                Err(e) => fatal(&format!("replay case does not deserialize: {}", e)),
            };
            let mut ctx = self.new_ctx();
            let r = catch(|| f(&case, &mut ctx)).and_then(|r| r);
            let mut st = Stats::default();
            st.absorb(&ctx, || serde_json::to_value(&case).unwrap_or(J::Null));
            self.merge_stats(check, st);
            if let Err(msg) = r {
                self.record_violation(check, &case, &msg);
            }
            return;
        }
        let t0 = Instant::now();
        let items = Mutex::new(items);
        let stop = AtomicBool::new(false);
        let workers: u32 = std::env::var("VERIF_JOBS")
            .ok()
            .and_then(|s| s.parse().ok())
            .unwrap_or(16);
        std::thread::scope(|scope| {
            for _ in 0..workers {
                let items = &items;
                let stop = &stop;
                let f = &f;
                std::thread::Builder::new()
                    .stack_size(64 << 20)
                    .spawn_scoped(scope, move || {
                        let mut stats = Stats::default();
                        loop {
                            if stop.load(Ordering::Relaxed) {
                                break;
                            }
                            let chunk: Vec<T> = {
                                let mut g = items.lock().unwrap();
                                let mut v = Vec::new();
                                for _ in 0..64 {
                                    match g.next() {
                                        Some(x) => v.push(x),
                                        None => break,
                                    }
                                }
                                v
                            };
                            if chunk.is_empty() {
                                break;
                            }
                            for case in &chunk {
                                let mut ctx = self.new_ctx();
                                let r = catch(|| f(case, &mut ctx)).and_then(|r| r);
                                stats.absorb(&ctx, || {
                                    serde_json::to_value(case).unwrap_or(J::Null)
                                });
                                if let Err(m) = r {
                                    if !stop.swap(true, Ordering::SeqCst) {
                                        self.record_violation(check, case, &m);
                                    }
                                    break;
                                }
                            }
                        }
                        self.merge_stats(check, stats);
                    })
                    .expect("spawn worker");
            }
        });
        let dt = t0.elapsed().as_secs_f64();
        let g = self.inner.lock().unwrap();
        if let Some(st) = g.checks.get(check) {
            eprintln!(
                "[{}] {:<28} enumerated={} nontrivial={} distinct={} {:.1}s",
                self.property,
                check,
                st.evaluations,
                st.nontrivial_cases,
                st.fingerprints.len(),
                dt
            );
        }
    }

    fn new_ctx(&self) -> CaseCtx<'_> {
        CaseCtx {
            session: self,
            nontrivial: None,
            labels: Vec::new(),
            excluded: Vec::new(),
            abstained: 0,
            extra_evals: 0,
            strict: false,
        }
    }

    /// Evaluate a property closure once in strict mode (no known finding is tolerated, nothing
    /// is counted). Used by probes to re-run a minimal reproducer through the check's own code.
    pub fn strict_eval(
        &self,
        f: impl FnOnce(&mut CaseCtx<'_>) -> Result<(), String>,
    ) -> Result<(), String> {
        let mut ctx = self.new_ctx();
        ctx.strict = true;
        catch(|| f(&mut ctx)).and_then(|r| r)
    }

    /// Deterministic probe for a (possibly) known finding. `reproduces` runs the minimal
    /// reproducer against the current tree and says whether the defect is still there
    /// (Some(description of what fails)) or gone (None).
    ///
    /// * listed open  + reproduces  -> prints `KNOWN-FINDING: property=<id> <what fails>`
    /// * listed open  + gone        -> nothing printed (recorded in evidence notes)
    /// * not listed / listed fixed + reproduces -> VIOLATION (replay = the probe description)
    pub fn probe(&self, finding_id: &str, reproducer: J, reproduces: impl FnOnce() -> Option<String>) {
        if self.replay.is_some() {
            // probes are replayed by name: check == "probe:<id>"
            let rp = self.replay.as_ref().unwrap();
            if rp.check != format!("probe:{}", finding_id) {
                return;
            }
            self.replay_hit.store(true, Ordering::SeqCst);
        }
        let outcome = match catch(reproduces) {
            Ok(o) => o,
            Err(p) => Some(p),
        };
        let open = self.findings.is_open(finding_id);
        match (open, outcome) {
            (true, Some(what)) => {
                let title = self.findings.title(finding_id).unwrap_or_default();
                let line = format!(
                    "KNOWN-FINDING: property={} {} {} [{}]",
                    self.property,
                    finding_id,
                    title,
                    first_lines(&what, 2).replace('\n', " ")
                );
                println!("{}", line);
                self.inner.lock().unwrap().known_lines.push(line);
            }
            (true, None) => {
                self.note(
                    &format!("probe:{}", finding_id),
                    json!("listed open but no longer reproduces"),
                );
            }
            (false, Some(what)) => {
                self.record_violation(
                    &format!("probe:{}", finding_id),
                    &reproducer,
                    &format!("probe {} reproduces but is not listed as an open finding: {}", finding_id, what),
                );
            }
            (false, None) => {}
        }
    }

    /// Write evidence, print the verdict lines, exit.
    pub fn finish(self) -> ! {
        let wall = self.start.elapsed().as_secs_f64();
        let g = self.inner.lock().unwrap();
        if let Some(rp) = &self.replay {
            if !self.replay_hit.load(Ordering::SeqCst) {
                eprintln!(
                    "[{}] replay file names check '{}' which this binary does not have",
                    self.property, rp.check
                );
                std::process::exit(2);
            }
            // replay: verdict only, evidence untouched
            for v in &g.violations {
                println!("VIOLATION property={} replay={}", self.property, v.replay.display());
                eprintln!("  {}", first_lines(&v.message, 30));
            }
            std::process::exit(if g.violations.is_empty() { 0 } else { 1 });
        }

        let mut total = Stats::default();
        let mut per_check = serde_json::Map::new();
        for (name, st) in &g.checks {
            per_check.insert(
                name.clone(),
                json!({
                    "evaluations": st.evaluations,
                    "inner_evaluations": st.inner_evaluations,
                    "nontrivial": st.nontrivial_cases,
                    "distinct_nontrivial": st.fingerprints.len(),
                    "labels": st.labels,
                    "rule": g.check_rules.get(name).cloned().unwrap_or_default(),
                }),
            );
            let mut st2 = st.clone();
            // fingerprints are namespaced per check so that distinctness is not overstated
            st2.fingerprints = st
                .fingerprints
                .iter()
                .map(|f| mix64(f ^ fnv64_str(name)))
                .collect();
            st2.samples = st
                .samples
                .iter()
                .map(|s| json!({"check": name, "case": s}))
                .collect();
            total.merge_all(st2);
        }
        let mut coverage = serde_json::Map::new();
        coverage.insert("evaluations".into(), json!(total.evaluations + total.inner_evaluations));
        coverage.insert("cases".into(), json!(total.evaluations));
        coverage.insert("inner_evaluations".into(), json!(total.inner_evaluations));
        coverage.insert("nontrivial_cases".into(), json!(total.nontrivial_cases));
        coverage.insert("distinct_nontrivial".into(), json!(total.fingerprints.len()));
        coverage.insert("rule".into(), json!(self.rule));
        coverage.insert("samples".into(), J::Array(total.samples.clone()));
        coverage.insert("labels".into(), json!(total.labels));
        coverage.insert("excluded_by_known_finding".into(), json!(total.excluded));
        coverage.insert("abstained".into(), json!(total.abstained));
        coverage.insert("checks".into(), J::Object(per_check));
        coverage.insert("known_finding_lines".into(), json!(g.known_lines));
        if let Some(e) = g.exhaustive {
            coverage.insert("exhaustive".into(), json!(e));
        }
        for (k, v) in &g.notes {
            coverage.insert(format!("note:{}", k), v.clone());
        }
        let evidence = json!({
            "property_id": self.property,
            "tier": match self.tier { Tier::Quick => "quick", Tier::Thorough => "thorough" },
            "seed": (self.seed & 0x7fff_ffff_ffff_ffff) as i64,
            "level": self.level.as_str(),
            "coverage": J::Object(coverage),
            "assumptions": g.assumptions,
            "wall_s": (wall * 1000.0).round() / 1000.0,
            "violations": g.violations.len(),
        });
        // VERIF_EVIDENCE_DIR: a secondary engine (the process-level e2e tier) writes its evidence
        // next to, not over, the property's own file; ./check merges it in.
        let dir = match std::env::var_os("VERIF_EVIDENCE_DIR") {
            Some(d) if !d.is_empty() => PathBuf::from(d),
            _ => self.root.join("evidence"),
        };
        let _ = std::fs::create_dir_all(&dir);
        let path = dir.join(format!("{}.json", self.property));
        if let Err(e) = std::fs::write(&path, serde_json::to_string_pretty(&evidence).unwrap()) {
            eprintln!("cannot write evidence {:?}: {}", path, e);
            std::process::exit(2);
        }
        eprintln!(
            "[{}] tier={:?} seed={} cases={} (+{} inner) nontrivial={} distinct={} violations={} {:.1}s",
            self.property,
            self.tier,
            self.seed,
            total.evaluations,
            total.inner_evaluations,
            total.nontrivial_cases,
            total.fingerprints.len(),
            g.violations.len(),
            wall
        );
        if !total.excluded.is_empty() {
            eprintln!("[{}] excluded by known finding: {:?}", self.property, total.excluded);
        }
        for v in &g.violations {
            println!("VIOLATION property={} replay={}", self.property, v.replay.display());
        }
        std::process::exit(if g.violations.is_empty() { 0 } else { 1 });
    }
}

impl Stats {
    fn merge_all(&mut self, o: Stats) {
        let samples = o.samples.clone();
        let mut o2 = o;
        o2.samples = Vec::new();
        self.merge(o2);
        for s in samples {
            if self.samples.len() < 8 {
                self.samples.push(s);
            }
        }
    }
}

fn first_lines(s: &str, n: usize) -> String {
    let v: Vec<&str> = s.lines().take(n).collect();
    let mut out = v.join("\n");
    if out.len() > 3000 {
        let mut cut = 3000;
        while !out.is_char_boundary(cut) {
            cut -= 1;
        }
        out.truncate(cut);
        out.push('…');
    }
    out
}

pub fn fatal(msg: &str) -> ! {
    eprintln!("vcheck: {}", msg);
    std::process::exit(2);
}

pub fn root_path(rel: &str) -> PathBuf {
    verif_root().join(Path::new(rel))
}
