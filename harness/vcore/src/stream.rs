//! ScriptedStream: an AsyncRead + AsyncWrite that hands the connection handler exactly the
//! generated chunks (one per successful poll_read), optionally with spurious Pending between
//! them, then EOF; everything written is collected. Segmentation is exact and termination is
//! structural (EOF), not timed.

use std::io;
use std::pin::Pin;
use std::sync::{Arc, Mutex};
use std::task::{Context, Poll};
use tokio::io::{AsyncRead, AsyncWrite, ReadBuf};

pub struct ScriptedStream {
    chunks: std::collections::VecDeque<Vec<u8>>,
    /// number of spurious Pending (with immediate wake) before each chunk
    pending_before: std::collections::VecDeque<u8>,
    pending_left: u8,
    out: Arc<Mutex<Vec<u8>>>,
    /// max bytes accepted per poll_write (0 = unlimited)
    write_limit: usize,
    pub reads_served: Arc<Mutex<usize>>,
}

impl ScriptedStream {
    pub fn new(chunks: Vec<Vec<u8>>) -> (ScriptedStream, Arc<Mutex<Vec<u8>>>) {
        let out = Arc::new(Mutex::new(Vec::new()));
        let n = chunks.len();
        (
            ScriptedStream {
                chunks: chunks.into_iter().filter(|c| !c.is_empty()).collect(),
                pending_before: std::iter::repeat(0).take(n).collect(),
                pending_left: 0,
                out: out.clone(),
                write_limit: 0,
                reads_served: Arc::new(Mutex::new(0)),
            },
            out,
        )
    }
    pub fn with_pending(mut self, pend: Vec<u8>) -> Self {
        self.pending_before = pend.into_iter().collect();
        self.pending_left = self.pending_before.pop_front().unwrap_or(0);
        self
    }
    pub fn with_write_limit(mut self, n: usize) -> Self {
        self.write_limit = n;
        self
    }
}

impl AsyncRead for ScriptedStream {
    fn poll_read(
        mut self: Pin<&mut Self>,
        cx: &mut Context<'_>,
        buf: &mut ReadBuf<'_>,
    ) -> Poll<io::Result<()>> {
        if self.pending_left > 0 {
            self.pending_left -= 1;
            cx.waker().wake_by_ref();
            return Poll::Pending;
        }
        let Some(mut chunk) = self.chunks.pop_front() else {
            return Poll::Ready(Ok(())); // EOF
        };
        let n = chunk.len().min(buf.remaining());
        if n == 0 {
            // caller offered a zero-sized buffer; keep the chunk
            self.chunks.push_front(chunk);
            return Poll::Ready(Ok(()));
        }
        buf.put_slice(&chunk[..n]);
        if n < chunk.len() {
            let rest = chunk.split_off(n);
            self.chunks.push_front(rest);
        } else {
            self.pending_left = self.pending_before.pop_front().unwrap_or(0);
        }
        *self.reads_served.lock().unwrap() += 1;
        Poll::Ready(Ok(()))
    }
}

impl AsyncWrite for ScriptedStream {
    fn poll_write(
        self: Pin<&mut Self>,
        _cx: &mut Context<'_>,
        buf: &[u8],
    ) -> Poll<io::Result<usize>> {
        let n = if self.write_limit == 0 {
            buf.len()
        } else {
            buf.len().min(self.write_limit)
        };
        self.out.lock().unwrap().extend_from_slice(&buf[..n]);
        Poll::Ready(Ok(n))
    }
    fn poll_flush(self: Pin<&mut Self>, _cx: &mut Context<'_>) -> Poll<io::Result<()>> {
        Poll::Ready(Ok(()))
    }
    fn poll_shutdown(self: Pin<&mut Self>, _cx: &mut Context<'_>) -> Poll<io::Result<()>> {
        Poll::Ready(Ok(()))
    }
}
