//! Canonical projections of replicated values (`ReplicatedValue` has no PartialEq and
//! contains hash maps/sets, so every comparison goes through here).
//!
//! * `peer_view`   – everything a digest, a merge or a later conflict resolution can depend
//!                   on: CRDT payload (incl. per-field stamps, tombstones, OR-set tags),
//!                   vector clock, expiry, outer stamp, replication factor.
//! * `client_view` – what GET / HGETALL / EXISTS would show.
//!
//! Canonicalisation: serde_json::to_value (maps become sorted objects), then every array
//! whose elements are not all numbers is sorted by its JSON text (those arrays are
//! serialised hash sets); arrays of numbers are byte strings (SDS) and keep their order.

use redis_sim::replication::state::{CrdtValue, ReplicatedValue};
use serde_json::{json, Value as J};

pub fn canon(v: J) -> J {
    match v {
        J::Array(a) => {
            let all_num = a.iter().all(|e| e.is_number());
            let mut items: Vec<J> = a.into_iter().map(canon).collect();
            if !all_num {
                items.sort_by_key(|a| a.to_string());
            }
            J::Array(items)
        }
        J::Object(m) => J::Object(m.into_iter().map(|(k, v)| (k, canon(v))).collect()),
        other => other,
    }
}

/// Full peer-visible projection.
pub fn peer_view(v: &ReplicatedValue) -> J {
    canon(serde_json::to_value(v).expect("ReplicatedValue serialises"))
}

/// Peer view split into named components so a finding can name the component.
pub fn peer_components(v: &ReplicatedValue) -> Vec<(&'static str, J)> {
    let p = peer_view(v);
    vec![
        ("crdt", p["crdt"].clone()),
        ("vector_clock", p["vector_clock"].clone()),
        ("expiry_ms", p["expiry_ms"].clone()),
        ("timestamp", p["timestamp"].clone()),
        ("replication_factor", p["replication_factor"].clone()),
    ]
}

pub fn bytes_json(b: &[u8]) -> J {
    J::String(crate::show(b))
}

/// What a client would read.
pub fn client_view(v: &ReplicatedValue) -> J {
    let body = match &v.crdt {
        CrdtValue::Lww(l) => {
            if l.tombstone {
                json!({"type": "none"})
            } else {
                match l.get() {
                    Some(s) => json!({"type": "string", "value": bytes_json(s.as_bytes())}),
                    None => json!({"type": "none"}),
                }
            }
        }
        CrdtValue::Hash(h) => {
            let mut fields: Vec<(String, J)> = h
                .iter()
                .filter(|(_, r)| !r.tombstone && r.get().is_some())
                .map(|(f, r)| (f.clone(), bytes_json(r.get().unwrap().as_bytes())))
                .collect();
            fields.sort_by(|a, b| a.0.cmp(&b.0));
            if fields.is_empty() {
                json!({"type": "none"})
            } else {
                json!({"type": "hash", "fields": fields})
            }
        }
        CrdtValue::GCounter(c) => json!({"type": "gcounter", "value": c.value()}),
        CrdtValue::PNCounter(c) => json!({"type": "pncounter", "value": c.value()}),
        CrdtValue::GSet(s) => {
            let mut m: Vec<String> = s.elements().cloned().collect();
            m.sort();
            json!({"type": "gset", "members": m})
        }
        CrdtValue::ORSet(s) => {
            let mut m: Vec<String> = s.elements().cloned().collect();
            m.sort();
            json!({"type": "orset", "members": m})
        }
    };
    json!({"body": body, "expiry_ms": v.expiry_ms})
}

/// Names of the components in which two values differ (peer view).
pub fn diff_components(a: &ReplicatedValue, b: &ReplicatedValue) -> Vec<&'static str> {
    let ca = peer_components(a);
    let cb = peer_components(b);
    ca.iter()
        .zip(cb.iter())
        .filter(|(x, y)| x.1 != y.1)
        .map(|(x, _)| x.0)
        .collect()
}
