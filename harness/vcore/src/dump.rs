//! Visible-keyspace dumps taken through ordinary read commands (KEYS *, TYPE, value read,
//! PTTL), so they observe exactly what a client can observe.

use crate::resp::{argv_s, Argv, Reply};
use redis_sim::redis::{Command, CommandExecutor, RespValue};
use serde::{Deserialize, Serialize};
use std::collections::BTreeMap;
use std::future::Future;

#[derive(Clone, Debug, PartialEq, Eq, Serialize, Deserialize)]
pub struct KeyDump {
    pub ty: String,
    /// normalised: string -> Bulk, list -> Array, set -> sorted Array, hash -> Array of
    /// pairs sorted by field, zset -> Array (member, score, …) in rank order
    pub value: Reply,
    pub pttl: i64,
}

pub type Dump = BTreeMap<Vec<u8>, KeyDump>;

pub fn show_dump(d: &Dump) -> String {
    let mut s = String::new();
    for (k, v) in d {
        s.push_str(&format!(
            "    {:?} [{}] pttl={} {}\n",
            crate::show(k),
            v.ty,
            v.pttl,
            v.value.show()
        ));
    }
    if s.is_empty() {
        s.push_str("    (empty)\n");
    }
    s
}

/// Dump using an async executor of argv commands. Keys come from `KEYS *` plus `extra_keys`
/// (keys the caller knows about that KEYS might hide).
pub async fn dump_async<F, Fut>(mut exec: F, extra_keys: &[Vec<u8>]) -> Dump
where
    F: FnMut(Argv) -> Fut,
    Fut: Future<Output = Reply>,
{
    let mut keys: Vec<Vec<u8>> = Vec::new();
    if let Reply::Array(a) = exec(argv_s(&["KEYS", "*"])).await {
        for k in a {
            if let Reply::Bulk(b) = k {
                keys.push(b);
            }
        }
    }
    keys.extend(extra_keys.iter().cloned());
    keys.sort();
    keys.dedup();
    let mut out = Dump::new();
    for k in keys {
        let ty = match exec(vec![b"TYPE".to_vec(), k.clone()]).await {
            Reply::Simple(s) => String::from_utf8_lossy(&s).into_owned(),
            other => format!("?{}", other.show()),
        };
        if ty == "none" {
            continue;
        }
        let value = match ty.as_str() {
            "string" => exec(vec![b"GET".to_vec(), k.clone()]).await,
            "list" => {
                exec(vec![b"LRANGE".to_vec(), k.clone(), b"0".to_vec(), b"-1".to_vec()]).await
            }
            "set" => exec(vec![b"SMEMBERS".to_vec(), k.clone()]).await.sorted(),
            "hash" => exec(vec![b"HGETALL".to_vec(), k.clone()])
                .await
                .sorted_pairs(),
            "zset" => {
                exec(vec![
                    b"ZRANGE".to_vec(),
                    k.clone(),
                    b"0".to_vec(),
                    b"-1".to_vec(),
                    b"WITHSCORES".to_vec(),
                ])
                .await
            }
            _ => Reply::Nil,
        };
        let pttl = match exec(vec![b"PTTL".to_vec(), k.clone()]).await {
            Reply::Int(i) => i,
            _ => i64::MIN,
        };
        out.insert(k, KeyDump { ty, value, pttl });
    }
    out
}

/// Execute an argv on a `CommandExecutor` through the production parser.
/// A parse error is rendered the way the connection renders it (an error reply).
pub fn exec_argv(ex: &mut CommandExecutor, argv: &Argv) -> Reply {
    match crate::resp::parse_zc(argv) {
        Ok(cmd) => Reply::from_resp(&ex.execute(&cmd)),
        Err(e) => Reply::Error(e.into_bytes()),
    }
}

pub fn exec_cmd(ex: &mut CommandExecutor, cmd: &Command) -> Reply {
    let r: RespValue = ex.execute(cmd);
    Reply::from_resp(&r)
}

/// Synchronous dump of a `CommandExecutor` at its current clock.
pub fn dump_executor(ex: &mut CommandExecutor, extra_keys: &[Vec<u8>]) -> Dump {
    let cell = std::cell::RefCell::new(ex);
    futures::executor::block_on(dump_async(
        |a| {
            let r = exec_argv(&mut cell.borrow_mut(), &a);
            std::future::ready(r)
        },
        extra_keys,
    ))
}
