//! known_findings.json — committed under /verif, read-only at run time.
//!
//! { "findings": [ { "id": "KF-C04-01", "property": "C04", "status": "open" | "fixed",
//!                   "title": "...", "signature": "...", "commit": "<sha, for fixed>" } ] }
//!
//! Only `status == "open"` entries suppress anything, and only the exact discrepancy the
//! check's matcher for that id recognises. A `fixed` entry suppresses nothing.

use serde_json::Value as J;
use std::collections::BTreeMap;
use std::path::Path;

#[derive(Default, Clone)]
pub struct Findings {
    open: BTreeMap<String, String>,
}

impl Findings {
    pub fn load(path: &Path) -> Findings {
        let mut f = Findings::default();
        let Ok(text) = std::fs::read_to_string(path) else {
            return f;
        };
        let Ok(v) = serde_json::from_str::<J>(&text) else {
            eprintln!("known_findings.json does not parse; treating as empty");
            return f;
        };
        if let Some(list) = v["findings"].as_array() {
            for e in list {
                if e["status"].as_str() == Some("open") {
                    if let Some(id) = e["id"].as_str() {
                        f.open.insert(
                            id.to_string(),
                            e["title"].as_str().unwrap_or("").to_string(),
                        );
                    }
                }
            }
        }
        f
    }

    pub fn is_open(&self, id: &str) -> bool {
        self.open.contains_key(id)
    }

    pub fn title(&self, id: &str) -> Option<String> {
        self.open.get(id).cloned()
    }
}
