//! known_findings.json — committed under /verif, read-only at run time.
//!
//! { "findings": [ { "id": "KF-C04-01", "property": "C04", "status": "open" | "fixed",
//!                   "title": "...", "signature": "...", "commit": "<sha, for fixed>" } ] }
//!
//! Only `status == "open"` entries suppress anything, and only the exact discrepancy the
//! check's matcher for that id recognises. A `fixed` entry suppresses nothing.

use serde_json::Value as J;
use std::collections::BTreeMap;
use std::path::Path;

#[derive(Default, Clone)]
pub struct Findings {
    open: BTreeMap<String, String>,
}

impl Findings {
    /// Reads `known_findings.json` and every `known_findings.d/*.json` next to it.
    pub fn load(path: &Path) -> Findings {
        let mut f = Findings::default();
        f.load_file(path);
        if let Some(dir) = path.parent() {
            if let Ok(rd) = std::fs::read_dir(dir.join("known_findings.d")) {
                let mut files: Vec<_> = rd.flatten().map(|e| e.path()).collect();
                files.sort();
                for p in files {
                    if p.extension().and_then(|e| e.to_str()) == Some("json") {
                        f.load_file(&p);
                    }
                }
            }
        }
        f
    }

    fn load_file(&mut self, path: &Path) {
        let Ok(text) = std::fs::read_to_string(path) else {
            return;
        };
        let Ok(v) = serde_json::from_str::<J>(&text) else {
            eprintln!("{:?} does not parse; ignored", path);
            return;
        };
        if let Some(list) = v["findings"].as_array() {
            for e in list {
                if e["status"].as_str() == Some("open") {
                    if let Some(id) = e["id"].as_str() {
                        self.open.insert(
                            id.to_string(),
                            e["title"].as_str().unwrap_or("").to_string(),
                        );
                    }
                }
            }
        }
    }

    pub fn is_open(&self, id: &str) -> bool {
        self.open.contains_key(id)
    }

    pub fn title(&self, id: &str) -> Option<String> {
        self.open.get(id).cloned()
    }
}
