//! Value pools and the argv-level command grammar shared by C01/C03/C05/C16/C17.
//!
//! Everything is built from proptest combinators (construction, not rejection) so that
//! shrinking and replay work. Commands are generated *syntactically valid* (right arity,
//! option grammar); arbitrary arity is C16's own generator.

use crate::resp::Argv;
use proptest::prelude::*;
use proptest::strategy::BoxedStrategy;

#[derive(Clone, Debug)]
pub struct GenOpts {
    /// allow non-UTF-8 keys / members / fields (a separately counted class)
    pub binary_names: bool,
    pub flush: bool,
    pub scan: bool,
    /// SPOP / RANDOMKEY (nondeterministic choice)
    pub random: bool,
    pub two_key: bool,
    pub multi_key: bool,
    pub keys_cmd: bool,
    /// expiry-bearing commands and options
    pub expiry: bool,
    /// INCRBYFLOAT and float-heavy arguments
    pub floats: bool,
    /// number of distinct keys in the pool (<= KEY_POOL.len())
    pub key_pool: usize,
}

impl Default for GenOpts {
    fn default() -> Self {
        GenOpts {
            binary_names: false,
            flush: true,
            scan: true,
            random: true,
            two_key: true,
            multi_key: true,
            keys_cmd: true,
            expiry: true,
            floats: true,
            key_pool: 10,
        }
    }
}

pub const KEY_POOL: &[&[u8]] = &[
    b"k0",
    b"k1",
    b"k2",
    b"k3",
    b"{t}a",
    b"{t}b",
    b"key with space",
    b"K0",
    b"a-much-longer-key-name-that-exceeds-the-sso-boundary-0123456789",
    "\u{043a}\u{043b}\u{044e}\u{0447}".as_bytes(),
    b"k4",
    b"k5",
    b"k6",
    b"k7",
    b"k8",
    b"k9",
];

pub const BINARY_KEY: &[u8] = &[0xff, 0xfe, b'k'];

pub const MEMBER_POOL: &[&[u8]] = &[
    b"a", b"b", b"c", b"d", b"", b"m m", b"10", b"3.5", b"A", "\u{00e9}".as_bytes(), b"zz", b"-1",
];

pub const BINARY_MEMBER: &[u8] = &[0x80, 0x00, 0xff];

/// Monotone index mapping (keeps shrinking convergent): u16 -> 0..len
fn pick<'a>(pool: &'a [&'a [u8]], len: usize, i: u16) -> Vec<u8> {
    let n = len.min(pool.len()).max(1);
    pool[(i as usize * n) >> 16].to_vec()
}

pub fn key(o: &GenOpts) -> BoxedStrategy<Vec<u8>> {
    let n = o.key_pool;
    if o.binary_names {
        prop_oneof![
            12 => any::<u16>().prop_map(move |i| pick(KEY_POOL, n, i)),
            1 => Just(BINARY_KEY.to_vec()),
        ]
        .boxed()
    } else {
        any::<u16>().prop_map(move |i| pick(KEY_POOL, n, i)).boxed()
    }
}

pub fn member(o: &GenOpts) -> BoxedStrategy<Vec<u8>> {
    if o.binary_names {
        prop_oneof![
            12 => any::<u16>().prop_map(|i| pick(MEMBER_POOL, MEMBER_POOL.len(), i)),
            1 => Just(BINARY_MEMBER.to_vec()),
        ]
        .boxed()
    } else {
        any::<u16>()
            .prop_map(|i| pick(MEMBER_POOL, MEMBER_POOL.len(), i))
            .boxed()
    }
}

pub const VALUE_POOL: &[&[u8]] = &[
    b"",
    b"x",
    b"hello",
    b"0",
    b"1",
    b"-1",
    b"10",
    b"007",
    b"+5",
    b" 5",
    b"5 ",
    b"-0",
    b"1e3",
    b"3.5",
    b"0.25",
    b"9223372036854775807",
    b"-9223372036854775808",
    b"9223372036854775808",
    b"12345678901234567890123", // 23 bytes (SSO boundary)
    b"123456789012345678901234", // 24 bytes
    b"with\r\nnewline",
    &[0x00, 0xff, 0x80, 0x0d, 0x0a],
    b"abcdefghijklmnopqrstuvwxyz",
    b"inf",
    b"nan",
    b"1.5e308",
];

pub fn value() -> BoxedStrategy<Vec<u8>> {
    prop_oneof![
        6 => any::<u16>().prop_map(|i| pick(VALUE_POOL, VALUE_POOL.len(), i)),
        1 => proptest::collection::vec(any::<u8>(), 0..40),
        1 => (-1000i64..1000).prop_map(|i| i.to_string().into_bytes()),
    ]
    .boxed()
}

/// Integer argument text (canonical spelling) with boundary emphasis.
pub fn int_arg() -> BoxedStrategy<Vec<u8>> {
    prop_oneof![
        6 => (-6i64..7).prop_map(|i| i.to_string().into_bytes()),
        2 => (-200i64..200).prop_map(|i| i.to_string().into_bytes()),
        1 => prop_oneof![
            Just(i64::MAX), Just(i64::MIN), Just(i64::MAX - 1), Just(i64::MIN + 1),
            Just(i64::MAX / 1000), Just(i64::MAX / 1000 + 1), Just(1i64 << 32), Just(-(1i64 << 32)),
            Just(9_223_372_036_854_775i64), Just(9_223_372_036_854_776i64),
        ].prop_map(|i| i.to_string().into_bytes()),
    ]
    .boxed()
}

/// Index argument (list / range positions).
pub fn index_arg() -> BoxedStrategy<Vec<u8>> {
    prop_oneof![
        8 => (-7i64..8).prop_map(|i| i.to_string().into_bytes()),
        1 => prop_oneof![
            Just(i64::MAX), Just(i64::MIN), Just(i64::MIN + 1), Just(100i64), Just(-100i64)
        ].prop_map(|i| i.to_string().into_bytes()),
    ]
    .boxed()
}

/// Relative TTL arguments (seconds or milliseconds).
pub fn ttl_arg() -> BoxedStrategy<Vec<u8>> {
    prop_oneof![
        8 => (1i64..20).prop_map(|i| i.to_string().into_bytes()),
        2 => (1i64..5000).prop_map(|i| i.to_string().into_bytes()),
        2 => (-3i64..1).prop_map(|i| i.to_string().into_bytes()),
        1 => prop_oneof![
            Just(i64::MAX), Just(i64::MIN), Just(i64::MAX / 1000), Just(i64::MAX / 1000 + 1),
            Just(9_223_372_036_854_775i64), Just(9_223_372_036_854_776i64), Just(i64::MAX - 5),
        ].prop_map(|i| i.to_string().into_bytes()),
    ]
    .boxed()
}

/// Absolute time arguments (harness epoch base is 0, clocks stay below ~10^7 ms).
pub fn abs_time_arg(seconds: bool) -> BoxedStrategy<Vec<u8>> {
    if seconds {
        prop_oneof![
            8 => (0i64..40).prop_map(|i| i.to_string().into_bytes()),
            1 => prop_oneof![Just(-1i64), Just(i64::MAX), Just(i64::MAX / 1000), Just(i64::MAX / 1000 + 1)]
                .prop_map(|i| i.to_string().into_bytes()),
        ]
        .boxed()
    } else {
        prop_oneof![
            8 => (0i64..40_000).prop_map(|i| i.to_string().into_bytes()),
            1 => prop_oneof![Just(-1i64), Just(i64::MAX), Just(i64::MAX - 1)]
                .prop_map(|i| i.to_string().into_bytes()),
        ]
        .boxed()
    }
}

/// Scores: dyadic rationals with short decimal text (where %.17g, shortest round-trip and
/// Rust Display agree), plus infinities.
pub fn score_arg() -> BoxedStrategy<Vec<u8>> {
    prop_oneof![
        8 => (-8i64..9).prop_map(|i| i.to_string().into_bytes()),
        4 => (-40i64..41).prop_map(|i| format_dyadic(i, 4)),
        1 => prop_oneof![Just("inf"), Just("-inf"), Just("+inf"), Just("1e3"), Just("-0"), Just("0.0")]
            .prop_map(|s| s.as_bytes().to_vec()),
    ]
    .boxed()
}

/// i / 2^k as short decimal text
pub fn format_dyadic(i: i64, k: u32) -> Vec<u8> {
    let v = i as f64 / (1u64 << k) as f64;
    format!("{}", v).into_bytes()
}

pub fn score_bound() -> BoxedStrategy<Vec<u8>> {
    prop_oneof![
        5 => (-8i64..9).prop_map(|i| i.to_string().into_bytes()),
        2 => (-8i64..9).prop_map(|i| format!("({}", i).into_bytes()),
        2 => (-40i64..41).prop_map(|i| format_dyadic(i, 4)),
        2 => prop_oneof![Just("-inf"), Just("+inf"), Just("inf"), Just("(-inf"), Just("(+inf")]
            .prop_map(|s| s.as_bytes().to_vec()),
        1 => prop_oneof![Just("abc"), Just(""), Just("("), Just("[1"), Just("nan")]
            .prop_map(|s| s.as_bytes().to_vec()),
    ]
    .boxed()
}

pub fn pattern() -> BoxedStrategy<Vec<u8>> {
    let fixed = prop_oneof![
        Just("*"), Just("k*"), Just("k?"), Just("k[0-2]"), Just("k[^0]"), Just("*a"), Just("{t}*"),
        Just("k0"), Just("nomatch*"), Just("?*"), Just("k[13]"), Just("*e*"),
    ]
    .prop_map(|s| s.as_bytes().to_vec());
    // generated, well-formed globs over the alphabet of the key pool: 1..5 atoms out of
    // literal / * / ? / [set] / [^set] / [a-b]; every combination of a class with a leading
    // literal, a trailing star, a star in the middle ... occurs (a matcher with a shortcut for
    // one shape of pattern must agree with the general one on all of them)
    let lit = prop_oneof![
        6 => Just(b'k'), 1 => Just(b'K'), 1 => Just(b'{'), 1 => Just(b't'), 1 => Just(b'}'), 1 => Just(b'a'),
        1 => Just(b'b'), 1 => Just(b'e'), 1 => Just(b'y'), 1 => Just(b' '), 3 => (b'0'..=b'5'),
    ];
    let set = proptest::collection::vec(prop_oneof![4 => (b'0'..=b'5'), 1 => Just(b'k'), 1 => Just(b'a'), 1 => Just(b'b'), 1 => Just(b't')], 1..4);
    let atom = prop_oneof![
        5 => lit.prop_map(|c| vec![c]),
        3 => Just(b"*".to_vec()),
        2 => Just(b"?".to_vec()),
        2 => set.clone().prop_map(|v| {
            let mut o = vec![b'['];
            o.extend(v);
            o.push(b']');
            o
        }),
        1 => set.prop_map(|v| {
            let mut o = vec![b'[', b'^'];
            o.extend(v);
            o.push(b']');
            o
        }),
        2 => (b'0'..=b'3', 0u8..3).prop_map(|(lo, d)| vec![b'[', lo, b'-', lo + d, b']']),
    ];
    let generated = proptest::collection::vec(atom, 1..6).prop_map(|v| v.concat());
    prop_oneof![2 => fixed.boxed(), 3 => generated.boxed()].boxed()
}

fn b(s: &str) -> Vec<u8> {
    s.as_bytes().to_vec()
}

fn cmd1(name: &'static str, k: BoxedStrategy<Vec<u8>>) -> BoxedStrategy<Argv> {
    k.prop_map(move |k| vec![b(name), k]).boxed()
}

fn cmd2(
    name: &'static str,
    a: BoxedStrategy<Vec<u8>>,
    c: BoxedStrategy<Vec<u8>>,
) -> BoxedStrategy<Argv> {
    (a, c).prop_map(move |(a, c)| vec![b(name), a, c]).boxed()
}

fn cmd3(
    name: &'static str,
    a: BoxedStrategy<Vec<u8>>,
    c: BoxedStrategy<Vec<u8>>,
    d: BoxedStrategy<Vec<u8>>,
) -> BoxedStrategy<Argv> {
    (a, c, d)
        .prop_map(move |(a, c, d)| vec![b(name), a, c, d])
        .boxed()
}

/// SET with the full option grammar (including combinations Redis rejects).
pub fn set_cmd(o: &GenOpts) -> BoxedStrategy<Argv> {
    let expiry = o.expiry;
    (
        key(o),
        value(),
        0u8..4,       // 0,1 none; 2 NX; 3 XX
        any::<bool>(), // GET
        0u8..12,      // expiry option selector
        ttl_arg(),
        abs_time_arg(true),
        abs_time_arg(false),
        0u8..24, // rare: both NX and XX / duplicate expiry option
    )
        .prop_map(move |(k, v, cond, get, ex, ttl, at_s, at_ms, rare)| {
            let mut a = vec![b("SET"), k, v];
            match cond {
                2 => a.push(b("NX")),
                3 => a.push(b("XX")),
                _ => {}
            }
            if rare == 0 {
                a.push(b("NX"));
                a.push(b("XX"));
            }
            if get && rare != 1 {
                a.push(b("GET"));
            }
            if expiry {
                match ex {
                    0 | 1 => {
                        a.push(b("EX"));
                        a.push(ttl.clone());
                    }
                    2 | 3 => {
                        a.push(b("PX"));
                        a.push(ttl.clone());
                    }
                    4 => {
                        a.push(b("EXAT"));
                        a.push(at_s);
                    }
                    5 => {
                        a.push(b("PXAT"));
                        a.push(at_ms);
                    }
                    6 => a.push(b("KEEPTTL")),
                    _ => {}
                }
                if rare == 2 {
                    a.push(b("KEEPTTL"));
                }
            }
            a
        })
        .boxed()
}

fn expire_flags() -> BoxedStrategy<Vec<Vec<u8>>> {
    prop_oneof![
        10 => Just(vec![]),
        2 => Just(vec![b("NX")]),
        2 => Just(vec![b("XX")]),
        2 => Just(vec![b("GT")]),
        2 => Just(vec![b("LT")]),
        1 => Just(vec![b("XX"), b("GT")]),
        1 => Just(vec![b("XX"), b("LT")]),
    ]
    .boxed()
}

pub fn zadd_cmd(o: &GenOpts) -> BoxedStrategy<Argv> {
    (
        key(o),
        0u8..6,  // 0-3 none, 4 NX, 5 XX
        0u8..8,  // 0-5 none, 6 GT, 7 LT
        any::<bool>(),
        proptest::collection::vec((score_arg(), member(o)), 1..4),
        0u8..40, // rare invalid combos
    )
        .prop_map(|(k, cond, cmp, ch, pairs, rare)| {
            let mut a = vec![b("ZADD"), k];
            match cond {
                4 => a.push(b("NX")),
                5 => a.push(b("XX")),
                _ => {}
            }
            match cmp {
                6 => a.push(b("GT")),
                7 => a.push(b("LT")),
                _ => {}
            }
            match rare {
                0 => {
                    a.push(b("NX"));
                    a.push(b("XX"));
                }
                1 => {
                    a.push(b("GT"));
                    a.push(b("LT"));
                }
                2 => {
                    a.push(b("NX"));
                    a.push(b("GT"));
                }
                _ => {}
            }
            if ch {
                a.push(b("CH"));
            }
            for (s, m) in pairs {
                a.push(s);
                a.push(m);
            }
            a
        })
        .boxed()
}

/// One syntactically valid data command.
pub fn data_command(o: &GenOpts) -> BoxedStrategy<Argv> {
    let k = || key(o);
    let m = || member(o);
    let mut alts: Vec<(u32, BoxedStrategy<Argv>)> = Vec::new();

    // ---- strings
    alts.push((8, cmd1("GET", k())));
    alts.push((10, set_cmd(o)));
    alts.push((2, cmd2("SETNX", k(), value())));
    alts.push((3, cmd2("APPEND", k(), value())));
    alts.push((3, cmd2("GETSET", k(), value())));
    alts.push((2, cmd1("STRLEN", k())));
    alts.push((2, cmd3("GETRANGE", k(), index_arg(), index_arg())));
    alts.push((
        2,
        (k(), prop_oneof![8 => (0u32..40).boxed(), 1 => Just(1u32 << 20).boxed()], value())
            .prop_map(|(k, off, v)| vec![b("SETRANGE"), k, b(&off.to_string()), v])
            .boxed(),
    ));
    alts.push((
        2,
        (
            k(),
            prop_oneof![8 => (0u64..70).boxed(), 1 => Just(1u64 << 20).boxed(), 1 => Just(1u64 << 32).boxed()],
            0u8..2,
        )
            .prop_map(|(k, off, bit)| vec![b("SETBIT"), k, b(&off.to_string()), b(&bit.to_string())])
            .boxed(),
    ));
    alts.push((
        2,
        (k(), prop_oneof![8 => (0u64..70).boxed(), 1 => Just(1u64 << 32).boxed()])
            .prop_map(|(k, off)| vec![b("GETBIT"), k, b(&off.to_string())])
            .boxed(),
    ));
    alts.push((2, cmd1("GETDEL", k())));
    alts.push((4, cmd1("INCR", k())));
    alts.push((3, cmd1("DECR", k())));
    alts.push((3, cmd2("INCRBY", k(), int_arg())));
    alts.push((3, cmd2("DECRBY", k(), int_arg())));
    if o.floats {
        alts.push((2, cmd2("INCRBYFLOAT", k(), score_arg())));
    }
    if o.multi_key {
        alts.push((
            3,
            proptest::collection::vec(k(), 1..4)
                .prop_map(|ks| {
                    let mut a = vec![b("MGET")];
                    a.extend(ks);
                    a
                })
                .boxed(),
        ));
        alts.push((
            3,
            proptest::collection::vec((k(), value()), 1..4)
                .prop_map(|kv| {
                    let mut a = vec![b("MSET")];
                    for (k, v) in kv {
                        a.push(k);
                        a.push(v);
                    }
                    a
                })
                .boxed(),
        ));
        alts.push((
            2,
            proptest::collection::vec((k(), value()), 1..4)
                .prop_map(|kv| {
                    let mut a = vec![b("MSETNX")];
                    for (k, v) in kv {
                        a.push(k);
                        a.push(v);
                    }
                    a
                })
                .boxed(),
        ));
    }
    // ---- keys
    let multi = if o.multi_key { 4 } else { 2 };
    alts.push((
        5,
        (prop_oneof![Just("DEL"), Just("DEL"), Just("UNLINK")], proptest::collection::vec(k(), 1..multi))
            .prop_map(|(n, ks)| {
                let mut a = vec![b(n)];
                a.extend(ks);
                a
            })
            .boxed(),
    ));
    alts.push((
        3,
        proptest::collection::vec(k(), 1..multi)
            .prop_map(|ks| {
                let mut a = vec![b("EXISTS")];
                a.extend(ks);
                a
            })
            .boxed(),
    ));
    alts.push((3, cmd1("TYPE", k())));
    alts.push((1, Just(vec![b("DBSIZE")]).boxed()));
    if o.keys_cmd {
        alts.push((2, cmd1("KEYS", pattern())));
    }
    if o.flush {
        alts.push((
            1,
            prop_oneof![Just("FLUSHDB"), Just("FLUSHALL")]
                .prop_map(|n| vec![b(n)])
                .boxed(),
        ));
    }
    if o.random {
        alts.push((1, Just(vec![b("RANDOMKEY")]).boxed()));
    }
    if o.two_key {
        alts.push((2, cmd2("RENAME", k(), k())));
        alts.push((2, cmd2("RENAMENX", k(), k())));
    }
    if o.expiry {
        alts.push((
            2,
            (k(), ttl_arg(), value())
                .prop_map(|(k, t, v)| vec![b("SETEX"), k, t, v])
                .boxed(),
        ));
        alts.push((
            2,
            (k(), ttl_arg(), value())
                .prop_map(|(k, t, v)| vec![b("PSETEX"), k, t, v])
                .boxed(),
        ));
        alts.push((
            3,
            (
                k(),
                0u8..7,
                ttl_arg(),
                abs_time_arg(true),
                abs_time_arg(false),
            )
                .prop_map(|(k, sel, ttl, at_s, at_ms)| {
                    let mut a = vec![b("GETEX"), k];
                    match sel {
                        0 => {}
                        1 => {
                            a.push(b("EX"));
                            a.push(ttl);
                        }
                        2 => {
                            a.push(b("PX"));
                            a.push(ttl);
                        }
                        3 => {
                            a.push(b("EXAT"));
                            a.push(at_s);
                        }
                        4 => {
                            a.push(b("PXAT"));
                            a.push(at_ms);
                        }
                        _ => a.push(b("PERSIST")),
                    }
                    a
                })
                .boxed(),
        ));
        alts.push((
            5,
            (prop_oneof![Just("EXPIRE"), Just("PEXPIRE")], k(), ttl_arg(), expire_flags())
                .prop_map(|(n, k, t, fl)| {
                    let mut a = vec![b(n), k, t];
                    a.extend(fl);
                    a
                })
                .boxed(),
        ));
        alts.push((2, cmd2("EXPIREAT", k(), abs_time_arg(true))));
        alts.push((2, cmd2("PEXPIREAT", k(), abs_time_arg(false))));
        alts.push((3, cmd1("TTL", k())));
        alts.push((3, cmd1("PTTL", k())));
        alts.push((1, cmd1("EXPIRETIME", k())));
        alts.push((1, cmd1("PEXPIRETIME", k())));
        alts.push((2, cmd1("PERSIST", k())));
    }
    // ---- lists
    for name in ["LPUSH", "RPUSH"] {
        alts.push((
            4,
            (k(), proptest::collection::vec(value(), 1..4))
                .prop_map(move |(k, vs)| {
                    let mut a = vec![b(name), k];
                    a.extend(vs);
                    a
                })
                .boxed(),
        ));
    }
    alts.push((3, cmd1("LPOP", k())));
    alts.push((3, cmd1("RPOP", k())));
    alts.push((2, cmd1("LLEN", k())));
    alts.push((2, cmd2("LINDEX", k(), index_arg())));
    alts.push((3, cmd3("LRANGE", k(), index_arg(), index_arg())));
    alts.push((2, cmd3("LSET", k(), index_arg(), value())));
    alts.push((2, cmd3("LTRIM", k(), index_arg(), index_arg())));
    if o.two_key {
        alts.push((2, cmd2("RPOPLPUSH", k(), k())));
        alts.push((
            2,
            (
                k(),
                k(),
                prop_oneof![Just("LEFT"), Just("RIGHT"), Just("left")],
                prop_oneof![Just("LEFT"), Just("RIGHT"), Just("right")],
            )
                .prop_map(|(s, d, f, t)| vec![b("LMOVE"), s, d, b(f), b(t)])
                .boxed(),
        ));
    }
    // ---- sets
    for (name, w) in [("SADD", 5), ("SREM", 3)] {
        alts.push((
            w,
            (k(), proptest::collection::vec(m(), 1..4))
                .prop_map(move |(k, ms)| {
                    let mut a = vec![b(name), k];
                    a.extend(ms);
                    a
                })
                .boxed(),
        ));
    }
    alts.push((2, cmd1("SMEMBERS", k())));
    alts.push((2, cmd2("SISMEMBER", k(), m())));
    alts.push((2, cmd1("SCARD", k())));
    if o.random {
        alts.push((
            2,
            (k(), prop_oneof![3 => Just(None), 3 => (0u32..4).prop_map(Some)])
                .prop_map(|(k, c)| {
                    let mut a = vec![b("SPOP"), k];
                    if let Some(c) = c {
                        a.push(b(&c.to_string()));
                    }
                    a
                })
                .boxed(),
        ));
    }
    // ---- hashes
    alts.push((
        5,
        (k(), proptest::collection::vec((m(), value()), 1..4))
            .prop_map(|(k, fv)| {
                let mut a = vec![b("HSET"), k];
                for (f, v) in fv {
                    a.push(f);
                    a.push(v);
                }
                a
            })
            .boxed(),
    ));
    alts.push((2, cmd2("HGET", k(), m())));
    alts.push((
        3,
        (k(), proptest::collection::vec(m(), 1..4))
            .prop_map(|(k, fs)| {
                let mut a = vec![b("HDEL"), k];
                a.extend(fs);
                a
            })
            .boxed(),
    ));
    alts.push((2, cmd1("HGETALL", k())));
    alts.push((1, cmd1("HKEYS", k())));
    alts.push((1, cmd1("HVALS", k())));
    alts.push((1, cmd1("HLEN", k())));
    alts.push((1, cmd2("HEXISTS", k(), m())));
    alts.push((3, cmd3("HINCRBY", k(), m(), int_arg())));
    // ---- sorted sets
    alts.push((6, zadd_cmd(o)));
    alts.push((
        3,
        (k(), proptest::collection::vec(m(), 1..4))
            .prop_map(|(k, ms)| {
                let mut a = vec![b("ZREM"), k];
                a.extend(ms);
                a
            })
            .boxed(),
    ));
    for name in ["ZRANGE", "ZREVRANGE"] {
        alts.push((
            2,
            (k(), index_arg(), index_arg(), any::<bool>())
                .prop_map(move |(k, s, e, ws)| {
                    let mut a = vec![b(name), k, s, e];
                    if ws {
                        a.push(b("WITHSCORES"));
                    }
                    a
                })
                .boxed(),
        ));
    }
    alts.push((2, cmd2("ZSCORE", k(), m())));
    alts.push((2, cmd2("ZRANK", k(), m())));
    alts.push((1, cmd1("ZCARD", k())));
    alts.push((2, cmd3("ZCOUNT", k(), score_bound(), score_bound())));
    alts.push((
        3,
        (
            k(),
            score_bound(),
            score_bound(),
            any::<bool>(),
            prop_oneof![3 => Just(None), 2 => ((-1i64..4), (-1i64..4)).prop_map(Some)],
        )
            .prop_map(|(k, lo, hi, ws, lim)| {
                let mut a = vec![b("ZRANGEBYSCORE"), k, lo, hi];
                if ws {
                    a.push(b("WITHSCORES"));
                }
                if let Some((o, c)) = lim {
                    a.push(b("LIMIT"));
                    a.push(b(&o.to_string()));
                    a.push(b(&c.to_string()));
                }
                a
            })
            .boxed(),
    ));
    if o.scan {
        let scan_opts = || {
            (
                prop_oneof![2 => Just(None), 1 => pattern().prop_map(Some)],
                prop_oneof![2 => Just(None), 1 => (1u32..6).prop_map(Some)],
            )
        };
        alts.push((
            1,
            scan_opts()
                .prop_map(|(p, c)| {
                    let mut a = vec![b("SCAN"), b("0")];
                    if let Some(p) = p {
                        a.push(b("MATCH"));
                        a.push(p);
                    }
                    if let Some(c) = c {
                        a.push(b("COUNT"));
                        a.push(b(&c.to_string()));
                    }
                    a
                })
                .boxed(),
        ));
        for name in ["HSCAN", "ZSCAN"] {
            alts.push((
                1,
                (k(), scan_opts())
                    .prop_map(move |(k, (p, c))| {
                        let mut a = vec![b(name), k, b("0")];
                        if let Some(p) = p {
                            a.push(b("MATCH"));
                            a.push(p);
                        }
                        if let Some(c) = c {
                            a.push(b("COUNT"));
                            a.push(b(&c.to_string()));
                        }
                        a
                    })
                    .boxed(),
            ));
        }
    }
    proptest::strategy::Union::new_weighted(alts).boxed()
}

/// Upper-cased command name of an argv.
pub fn cmd_name(argv: &[Vec<u8>]) -> String {
    argv.first()
        .map(|n| String::from_utf8_lossy(n).to_uppercase())
        .unwrap_or_default()
}

/// Coarse family used for classification (str, key, list, set, hash, zset, scan, other).
pub fn family(name: &str) -> &'static str {
    match name {
        "GET" | "SET" | "SETNX" | "SETEX" | "PSETEX" | "APPEND" | "GETSET" | "STRLEN" | "MGET"
        | "MSET" | "MSETNX" | "GETRANGE" | "SETRANGE" | "SETBIT" | "GETBIT" | "GETEX" | "GETDEL"
        | "INCR" | "DECR" | "INCRBY" | "DECRBY" | "INCRBYFLOAT" => "str",
        "LPUSH" | "RPUSH" | "LPOP" | "RPOP" | "LLEN" | "LINDEX" | "LRANGE" | "LSET" | "LTRIM"
        | "RPOPLPUSH" | "LMOVE" => "list",
        "SADD" | "SREM" | "SMEMBERS" | "SISMEMBER" | "SCARD" | "SPOP" => "set",
        "HSET" | "HGET" | "HDEL" | "HGETALL" | "HKEYS" | "HVALS" | "HLEN" | "HEXISTS" | "HINCRBY"
        | "HSCAN" => "hash",
        "ZADD" | "ZREM" | "ZRANGE" | "ZREVRANGE" | "ZSCORE" | "ZRANK" | "ZCARD" | "ZCOUNT"
        | "ZRANGEBYSCORE" | "ZSCAN" => "zset",
        "EXPIRE" | "PEXPIRE" | "EXPIREAT" | "PEXPIREAT" | "TTL" | "PTTL" | "EXPIRETIME"
        | "PEXPIRETIME" | "PERSIST" => "expiry",
        _ => "key",
    }
}
