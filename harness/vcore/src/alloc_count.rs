//! Counting allocator: per-thread current/peak bytes while a measurement window is open.
//! A binary opts in with `#[global_allocator] static A: CountingAlloc = CountingAlloc;`.

use std::alloc::{GlobalAlloc, Layout, System};
use std::cell::Cell;

pub struct CountingAlloc;

thread_local! {
    static ON: Cell<bool> = const { Cell::new(false) };
    static CUR: Cell<isize> = const { Cell::new(0) };
    static PEAK: Cell<isize> = const { Cell::new(0) };
    static LARGEST: Cell<usize> = const { Cell::new(0) };
}

unsafe impl GlobalAlloc for CountingAlloc {
    unsafe fn alloc(&self, layout: Layout) -> *mut u8 {
        let p = System.alloc(layout);
        if !p.is_null() {
            track(layout.size() as isize, layout.size());
        }
        p
    }
    unsafe fn dealloc(&self, ptr: *mut u8, layout: Layout) {
        System.dealloc(ptr, layout);
        track(-(layout.size() as isize), 0);
    }
    unsafe fn realloc(&self, ptr: *mut u8, layout: Layout, new_size: usize) -> *mut u8 {
        let p = System.realloc(ptr, layout, new_size);
        if !p.is_null() {
            track(new_size as isize - layout.size() as isize, new_size);
        }
        p
    }
}

#[inline]
fn track(delta: isize, req: usize) {
    let _ = ON.try_with(|on| {
        if on.get() {
            let _ = CUR.try_with(|c| {
                let v = c.get() + delta;
                c.set(v);
                let _ = PEAK.try_with(|p| {
                    if v > p.get() {
                        p.set(v)
                    }
                });
            });
            let _ = LARGEST.try_with(|l| {
                if req > l.get() {
                    l.set(req)
                }
            });
        }
    });
}

/// Run `f` and return (result, peak net bytes allocated above the starting level,
/// largest single request) on this thread.
pub fn measure<R>(f: impl FnOnce() -> R) -> (R, usize, usize) {
    CUR.with(|c| c.set(0));
    PEAK.with(|p| p.set(0));
    LARGEST.with(|l| l.set(0));
    ON.with(|o| o.set(true));
    let r = f();
    ON.with(|o| o.set(false));
    let peak = PEAK.with(|p| p.get()).max(0) as usize;
    let largest = LARGEST.with(|l| l.get());
    (r, peak, largest)
}
