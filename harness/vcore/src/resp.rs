//! RESP helpers owned by the harness: frame building from argv, reply rendering, and a strict
//! RESP2 reply decoder that shares no code with the decoders under test.

use bytes::Bytes;
use redis_sim::redis::{Command, RespValue, RespValueZeroCopy};
use serde::{Deserialize, Serialize};

pub type Argv = Vec<Vec<u8>>;

pub fn argv<const N: usize>(parts: [&str; N]) -> Argv {
    parts.iter().map(|s| s.as_bytes().to_vec()).collect()
}

pub fn argv_s(parts: &[&str]) -> Argv {
    parts.iter().map(|s| s.as_bytes().to_vec()).collect()
}

/// `*N\r\n$len\r\narg\r\n…`
pub fn encode_command(argv: &[Vec<u8>]) -> Vec<u8> {
    let mut out = Vec::new();
    out.extend_from_slice(format!("*{}\r\n", argv.len()).as_bytes());
    for a in argv {
        out.extend_from_slice(format!("${}\r\n", a.len()).as_bytes());
        out.extend_from_slice(a);
        out.extend_from_slice(b"\r\n");
    }
    out
}

pub fn frame(argv: &[Vec<u8>]) -> RespValue {
    RespValue::Array(Some(
        argv.iter()
            .map(|a| RespValue::BulkString(Some(a.clone())))
            .collect(),
    ))
}

pub fn frame_zc(argv: &[Vec<u8>]) -> RespValueZeroCopy {
    RespValueZeroCopy::Array(Some(
        argv.iter()
            .map(|a| RespValueZeroCopy::BulkString(Some(Bytes::copy_from_slice(a))))
            .collect(),
    ))
}

/// Parse with the production (zero-copy) parser.
pub fn parse_zc(argv: &[Vec<u8>]) -> Result<Command, String> {
    Command::from_resp_zero_copy(&frame_zc(argv))
}

/// Parse with the simulation parser.
pub fn parse_sim(argv: &[Vec<u8>]) -> Result<Command, String> {
    Command::from_resp(&frame(argv))
}

/// Harness-side reply value (byte-exact, serialisable, ordered).
#[derive(Clone, Debug, PartialEq, Eq, PartialOrd, Ord, Hash, Serialize, Deserialize)]
pub enum Reply {
    Simple(Vec<u8>),
    Error(Vec<u8>),
    Int(i64),
    Bulk(Vec<u8>),
    Nil,
    NilArray,
    Array(Vec<Reply>),
}

impl Reply {
    pub fn from_resp(v: &RespValue) -> Reply {
        match v {
            RespValue::SimpleString(s) => Reply::Simple(s.as_bytes().to_vec()),
            RespValue::Error(s) => Reply::Error(s.as_bytes().to_vec()),
            RespValue::Integer(i) => Reply::Int(*i),
            RespValue::BulkString(None) => Reply::Nil,
            RespValue::BulkString(Some(b)) => Reply::Bulk(b.clone()),
            RespValue::Array(None) => Reply::NilArray,
            RespValue::Array(Some(a)) => Reply::Array(a.iter().map(Reply::from_resp).collect()),
        }
    }
    pub fn ok() -> Reply {
        Reply::Simple(b"OK".to_vec())
    }
    pub fn bulk(s: impl AsRef<[u8]>) -> Reply {
        Reply::Bulk(s.as_ref().to_vec())
    }
    pub fn is_error(&self) -> bool {
        matches!(self, Reply::Error(_))
    }
    pub fn error_text(&self) -> Option<String> {
        match self {
            Reply::Error(e) => Some(String::from_utf8_lossy(e).into_owned()),
            _ => None,
        }
    }
    /// First word of an error reply (`WRONGTYPE`, `ERR`, `EXECABORT`, …).
    pub fn error_code(&self) -> Option<String> {
        self.error_text()
            .map(|t| t.split(' ').next().unwrap_or("").to_string())
    }
    pub fn as_array(&self) -> Option<&Vec<Reply>> {
        match self {
            Reply::Array(a) => Some(a),
            _ => None,
        }
    }
    pub fn as_bulk(&self) -> Option<&[u8]> {
        match self {
            Reply::Bulk(b) => Some(b),
            _ => None,
        }
    }
    pub fn as_int(&self) -> Option<i64> {
        match self {
            Reply::Int(i) => Some(*i),
            _ => None,
        }
    }
    /// Sorted copy for comparing unordered multi-element replies as multisets.
    pub fn sorted(&self) -> Reply {
        match self {
            Reply::Array(a) => {
                let mut v = a.clone();
                v.sort();
                Reply::Array(v)
            }
            other => other.clone(),
        }
    }
    /// Array of alternating (a, b) sorted as pairs (HGETALL, ZRANGE WITHSCORES as multiset).
    pub fn sorted_pairs(&self) -> Reply {
        match self {
            Reply::Array(a) if a.len() % 2 == 0 => {
                let mut pairs: Vec<(Reply, Reply)> = a
                    .chunks(2)
                    .map(|c| (c[0].clone(), c[1].clone()))
                    .collect();
                pairs.sort();
                Reply::Array(pairs.into_iter().flat_map(|(a, b)| [a, b]).collect())
            }
            other => other.clone(),
        }
    }
    pub fn show(&self) -> String {
        match self {
            Reply::Simple(s) => format!("+{}", crate::show(s)),
            Reply::Error(s) => format!("-{}", crate::show(s)),
            Reply::Int(i) => format!(":{}", i),
            Reply::Bulk(b) => format!("\"{}\"", crate::show(b)),
            Reply::Nil => "(nil)".to_string(),
            Reply::NilArray => "(nil-array)".to_string(),
            Reply::Array(a) => format!(
                "[{}]",
                a.iter().map(|r| r.show()).collect::<Vec<_>>().join(", ")
            ),
        }
    }
    /// Canonical RESP2 encoding (harness-owned).
    pub fn encode(&self, out: &mut Vec<u8>) {
        match self {
            Reply::Simple(s) => {
                out.push(b'+');
                out.extend_from_slice(s);
                out.extend_from_slice(b"\r\n");
            }
            Reply::Error(s) => {
                out.push(b'-');
                out.extend_from_slice(s);
                out.extend_from_slice(b"\r\n");
            }
            Reply::Int(i) => out.extend_from_slice(format!(":{}\r\n", i).as_bytes()),
            Reply::Bulk(b) => {
                out.extend_from_slice(format!("${}\r\n", b.len()).as_bytes());
                out.extend_from_slice(b);
                out.extend_from_slice(b"\r\n");
            }
            Reply::Nil => out.extend_from_slice(b"$-1\r\n"),
            Reply::NilArray => out.extend_from_slice(b"*-1\r\n"),
            Reply::Array(a) => {
                out.extend_from_slice(format!("*{}\r\n", a.len()).as_bytes());
                for e in a {
                    e.encode(out);
                }
            }
        }
    }
}

pub fn show_argv(argv: &[Vec<u8>]) -> String {
    argv.iter()
        .map(|a| {
            let s = crate::show(a);
            if s.is_empty() || s.contains(' ') {
                format!("\"{}\"", s)
            } else {
                s
            }
        })
        .collect::<Vec<_>>()
        .join(" ")
}

#[derive(Debug, Clone, PartialEq, Eq)]
pub enum DecodeError {
    Incomplete,
    Malformed(String),
}

/// Strict RESP2 decoder for *replies*: returns (reply, consumed).
/// Line-based types end at the first CRLF; a bare CR or LF inside a simple string / error /
/// integer line is malformed (a reply line must not contain them).
pub fn decode_reply(input: &[u8]) -> Result<(Reply, usize), DecodeError> {
    decode_at(input, 0, 0)
}

fn read_line(input: &[u8], pos: usize) -> Result<(&[u8], usize), DecodeError> {
    let mut i = pos;
    while i < input.len() {
        match input[i] {
            b'\r' => {
                if i + 1 >= input.len() {
                    return Err(DecodeError::Incomplete);
                }
                if input[i + 1] != b'\n' {
                    return Err(DecodeError::Malformed(format!("bare CR at {}", i)));
                }
                return Ok((&input[pos..i], i + 2));
            }
            b'\n' => return Err(DecodeError::Malformed(format!("bare LF at {}", i))),
            _ => i += 1,
        }
    }
    Err(DecodeError::Incomplete)
}

fn parse_len(line: &[u8]) -> Result<i64, DecodeError> {
    let s = std::str::from_utf8(line)
        .map_err(|_| DecodeError::Malformed("non-ascii length".into()))?;
    if s.is_empty() {
        return Err(DecodeError::Malformed("empty number".into()));
    }
    let digits = s.strip_prefix('-').unwrap_or(s);
    if digits.is_empty() || !digits.bytes().all(|b| b.is_ascii_digit()) {
        return Err(DecodeError::Malformed(format!("bad number {:?}", s)));
    }
    s.parse::<i64>()
        .map_err(|_| DecodeError::Malformed(format!("number out of range {:?}", s)))
}

fn decode_at(input: &[u8], pos: usize, depth: usize) -> Result<(Reply, usize), DecodeError> {
    if depth > 64 {
        return Err(DecodeError::Malformed("nesting too deep".into()));
    }
    if pos >= input.len() {
        return Err(DecodeError::Incomplete);
    }
    let ty = input[pos];
    match ty {
        b'+' => {
            let (line, next) = read_line(input, pos + 1)?;
            Ok((Reply::Simple(line.to_vec()), next))
        }
        b'-' => {
            let (line, next) = read_line(input, pos + 1)?;
            Ok((Reply::Error(line.to_vec()), next))
        }
        b':' => {
            let (line, next) = read_line(input, pos + 1)?;
            Ok((Reply::Int(parse_len(line)?), next))
        }
        b'$' => {
            let (line, next) = read_line(input, pos + 1)?;
            let n = parse_len(line)?;
            if n == -1 {
                return Ok((Reply::Nil, next));
            }
            if n < 0 {
                return Err(DecodeError::Malformed(format!("negative bulk length {}", n)));
            }
            let n = n as usize;
            if input.len() < next + n + 2 {
                return Err(DecodeError::Incomplete);
            }
            if &input[next + n..next + n + 2] != b"\r\n" {
                return Err(DecodeError::Malformed("bulk not terminated by CRLF".into()));
            }
            Ok((Reply::Bulk(input[next..next + n].to_vec()), next + n + 2))
        }
        b'*' => {
            let (line, mut next) = read_line(input, pos + 1)?;
            let n = parse_len(line)?;
            if n == -1 {
                return Ok((Reply::NilArray, next));
            }
            if n < 0 {
                return Err(DecodeError::Malformed(format!("negative array length {}", n)));
            }
            let mut v = Vec::new();
            for _ in 0..n {
                let (e, nx) = decode_at(input, next, depth + 1)?;
                v.push(e);
                next = nx;
            }
            Ok((Reply::Array(v), next))
        }
        other => Err(DecodeError::Malformed(format!(
            "bad type byte 0x{:02x} at {}",
            other, pos
        ))),
    }
}

/// Decode a whole output stream into replies; `Err((replies_so_far, offset, why))` when the
/// stream is not a sequence of well-formed replies (trailing partial data is an error too).
pub fn decode_stream(mut input: &[u8]) -> Result<Vec<Reply>, (Vec<Reply>, usize, String)> {
    let total = input.len();
    let mut out = Vec::new();
    while !input.is_empty() {
        match decode_reply(input) {
            Ok((r, n)) => {
                out.push(r);
                input = &input[n..];
            }
            Err(DecodeError::Incomplete) => {
                return Err((out, total - input.len(), "trailing incomplete reply".into()))
            }
            Err(DecodeError::Malformed(m)) => return Err((out, total - input.len(), m)),
        }
    }
    Ok(out)
}
