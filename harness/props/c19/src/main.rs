//! C19 — Key placement is a function of membership; selective gossip reaches every owner.
//!
//! Checks (see DESIGN.md §3 C19 and notes/C19.md):
//!   perm_exhaustive     memberships of 1..=6 nodes: EVERY join order (n! permutations) must give
//!                       the same ordered replica list for every key and every rf 0..=7
//!   ring_placement      generated memberships (1..=12 sparse ids), vnodes 1..=200, rf 0..=6,
//!                       ~200 keys: list shape (len/distinct/subset), permutation independence
//!                       (all permutations up to 5 nodes, generated + systematic ones above),
//!                       per-key rf overrides, and a sequence of add/remove-one-node steps with
//!                       the minimal-movement relation and "history does not matter"
//!   router_new          GossipRouter::new with the full peer map, every member as sender,
//!                       route_deltas + GossipState::with_router/queue_deltas/drain_outbound
//!   router_from_config  the same through GossipRouter::from_config with the sequential-id
//!                       convention (ids 1..=n, peers = the other nodes' addresses in id order)
//!   gossip_manager_loop the production sender loops GossipManager::start_gossip_loop and
//!                       start_gossip_loop_with_actor, which address targeted messages through a
//!                       peer map of their own (a local of the loop): every peer is a loopback
//!                       TCP listener, the frames each one receives are compared with the oracle
//!   route_during_join   a batch queued while another thread write-locks the shared ring
//!   gossip_server_receive the receiving half: the real GossipManager::start_server on a loopback
//!                       port, a generated sequence of frames of very different sizes over ONE
//!                       persistent connection (as the sender loops use it); the delta callback
//!                       must get exactly the deltas sent, in order
//!   actor_mailbox       the production GossipActor driven through its public handle with generated
//!                       mailbox sequences (delta batches and bursts, joins/leaves = shared ring
//!                       update + set_router, drains, ticks, control messages) enqueued back to
//!                       back on a current-thread runtime; per-delta oracle against the memberships
//!                       in force between enqueueing and routing (see actor.rs)

mod actor;

use proptest::prelude::*;
use redis_sim::redis::SDS;
use redis_sim::replication::{
    GossipMessage, GossipRouter, GossipState, HashRing, LamportClock, ReplicaId, ReplicatedValue,
    ReplicationConfig, ReplicationDelta,
};
use serde::{Deserialize, Serialize};
use serde_json::json;
use std::collections::{BTreeMap, BTreeSet, HashMap};
use std::sync::{Arc, OnceLock, RwLock};
use vcore::{CaseCtx, Level, Session};

// ---------------------------------------------------------------------------------------
// pools
// ---------------------------------------------------------------------------------------

/// Sparse id space: small sequential ids, byte/word boundaries, huge ids.
const ID_POOL: &[u64] = &[
    0,
    1,
    2,
    3,
    4,
    5,
    6,
    7,
    8,
    9,
    10,
    11,
    12,
    13,
    16,
    100,
    255,
    256,
    1000,
    65535,
    65536,
    1 << 31,
    (1 << 32) - 1,
    1 << 32,
    (1 << 32) + 1,
    1 << 40,
    1 << 63,
    u64::MAX - 1,
    u64::MAX,
];

const GENERATED_KEYS: usize = 1000;

/// KEY_POOL (all UTF-8) + the empty key + 1000 generated keys of several shapes.
fn key_pool() -> &'static Vec<String> {
    static POOL: OnceLock<Vec<String>> = OnceLock::new();
    POOL.get_or_init(|| {
        let mut v: Vec<String> = vcore::gen::KEY_POOL
            .iter()
            .filter_map(|k| std::str::from_utf8(k).ok().map(|s| s.to_string()))
            .collect();
        v.push(String::new());
        let mut x: u64 = 0xC19;
        for i in 0..GENERATED_KEYS {
            x = vcore::mix64(x ^ i as u64);
            let k = match i % 8 {
                0 => format!("key_{}", i),
                1 => format!("user:{}:profile", x % 100_000),
                2 => format!("{{tag{}}}:{}", i % 7, x % 1000),
                3 => format!("{:016x}", x),
                4 => format!("k{}", i),
                5 => {
                    // variable length, printable
                    let len = 1 + (x % 40) as usize;
                    let mut s = String::new();
                    let mut y = x;
                    for _ in 0..len {
                        y = vcore::mix64(y);
                        s.push((b'!' + (y % 94) as u8) as char);
                    }
                    s
                }
                6 => {
                    // non-ASCII
                    let mut s = String::new();
                    let mut y = x;
                    for _ in 0..(1 + x % 6) {
                        y = vcore::mix64(y);
                        s.push(char::from_u32(0x400 + (y % 0x100) as u32).unwrap_or('x'));
                    }
                    s
                }
                _ => format!("session/{}/{}", x % 17, i),
            };
            v.push(k);
        }
        v
    })
}

fn key_at(i: u16) -> &'static str {
    let p = key_pool();
    &p[(i as usize * p.len()) >> 16]
}

fn id_strategy() -> impl Strategy<Value = u64> {
    prop_oneof![
        6 => any::<u16>().prop_map(|i| ID_POOL[(i as usize * ID_POOL.len()) >> 16]),
        3 => 1u64..=16,
        1 => any::<u64>(),
    ]
}

fn dedup(v: Vec<u64>) -> Vec<u64> {
    let mut seen = BTreeSet::new();
    v.into_iter().filter(|x| seen.insert(*x)).collect()
}

fn membership(max: usize) -> impl Strategy<Value = Vec<u64>> {
    proptest::collection::vec(id_strategy(), 1..=max).prop_map(dedup)
}

fn extra_key() -> impl Strategy<Value = String> {
    proptest::collection::vec(
        prop_oneof![
            8 => (0x20u8..0x7f).prop_map(|b| b as char),
            1 => Just('\u{0}'),
            1 => Just('\n'),
            1 => Just('\u{e9}'),
            1 => Just('\u{4e2d}'),
        ],
        0..24,
    )
    .prop_map(|cs| cs.into_iter().collect())
}

fn rid(ids: &[u64]) -> Vec<ReplicaId> {
    ids.iter().map(|&i| ReplicaId::new(i)).collect()
}

fn raw(ids: &[ReplicaId]) -> Vec<u64> {
    ids.iter().map(|r| r.0).collect()
}

// ---------------------------------------------------------------------------------------
// list shape and relations
// ---------------------------------------------------------------------------------------

/// `len = min(rf, n)`, members distinct and ⊆ membership.
fn check_shape(list: &[u64], members: &[u64], rf: usize, what: &str) -> Result<(), String> {
    let want = rf.min(members.len());
    if list.len() != want {
        return Err(format!(
            "{}: replica list {:?} has {} members, expected min(rf={}, n={}) = {} (membership {:?})",
            what,
            list,
            list.len(),
            rf,
            members.len(),
            want,
            members
        ));
    }
    let set: BTreeSet<u64> = list.iter().copied().collect();
    if set.len() != list.len() {
        return Err(format!("{}: replica list {:?} contains a node twice", what, list));
    }
    for x in list {
        if !members.contains(x) {
            return Err(format!(
                "{}: replica list {:?} names node {} which is not in the membership {:?}",
                what, list, x, members
            ));
        }
    }
    Ok(())
}

/// Relation between the list on the membership without `x` (`small`) and the list on the same
/// membership plus `x` (`large`), both with the same rf:
///  * `large` does not contain x  =>  `large == small`
///  * `large` contains x          =>  `large` minus x is a prefix of `small` (x inserted, the
///    tail dropped, order of the others preserved)
/// Lengths are checked separately (check_shape).
fn check_gain(small: &[u64], large: &[u64], x: u64, what: &str) -> Result<(), String> {
    if !large.contains(&x) {
        if large != small {
            return Err(format!(
                "{}: the list does not involve node {} but differs: without the node {:?}, with the node {:?}",
                what, x, small, large
            ));
        }
        return Ok(());
    }
    let without: Vec<u64> = large.iter().copied().filter(|y| *y != x).collect();
    if without.len() > small.len() || without[..] != small[..without.len()] {
        return Err(format!(
            "{}: with node {} the list is {:?}; removing it must leave a prefix of the list without the node {:?} (others keep their order, only the tail is dropped)",
            what, x, large, small
        ));
    }
    Ok(())
}

/// Everything one ring says about a set of keys: full clockwise order (rf = n) and the
/// configured-rf list per key.
struct Placement {
    full: Vec<Vec<u64>>,
    list: Vec<Vec<u64>>,
}

fn placement(ring: &HashRing, keys: &[&str], n: usize) -> Placement {
    Placement {
        full: keys
            .iter()
            .map(|k| raw(&ring.get_replicas_with_rf(k, n)))
            .collect(),
        list: keys.iter().map(|k| raw(&ring.get_replicas(k))).collect(),
    }
}

/// Shape of every list of one ring + prefix consistency between rf values.
fn check_ring_shape(
    ring: &HashRing,
    keys: &[&str],
    members: &[u64],
    rf: usize,
    overrides: &[usize],
    p: &Placement,
    what: &str,
) -> Result<(), String> {
    let n = members.len();
    if ring.node_count() != n {
        return Err(format!(
            "{}: node_count() = {} for membership {:?}",
            what,
            ring.node_count(),
            members
        ));
    }
    for (i, k) in keys.iter().enumerate() {
        check_shape(&p.full[i], members, n, &format!("{} key {:?} rf=n", what, k))?;
        check_shape(&p.list[i], members, rf, &format!("{} key {:?} get_replicas", what, k))?;
        if p.list[i][..] != p.full[i][..p.list[i].len()] {
            return Err(format!(
                "{} key {:?}: get_replicas (rf {}) = {:?} is not the head of the preference order {:?}",
                what, k, rf, p.list[i], p.full[i]
            ));
        }
        for &r in overrides {
            let l = raw(&ring.get_replicas_with_rf(k, r));
            check_shape(&l, members, r, &format!("{} key {:?} get_replicas_with_rf({})", what, k, r))?;
            if l[..] != p.full[i][..l.len()] {
                return Err(format!(
                    "{} key {:?}: get_replicas_with_rf({}) = {:?} is not the head of the preference order {:?}",
                    what, k, r, l, p.full[i]
                ));
            }
            // the hot-key predicate agrees with the list
            for &m in members.iter().take(3) {
                if ring.is_responsible_with_rf(k, ReplicaId::new(m), r) != l.contains(&m) {
                    return Err(format!(
                        "{} key {:?}: is_responsible_with_rf(node {}, rf {}) disagrees with the list {:?}",
                        what, k, m, r, l
                    ));
                }
            }
        }
        if ring.get_primary(k).map(|r| r.0) != p.list[i].first().copied() {
            return Err(format!(
                "{} key {:?}: get_primary() = {:?} but get_replicas() = {:?}",
                what,
                k,
                ring.get_primary(k),
                p.list[i]
            ));
        }
        for &m in members.iter().take(3) {
            if ring.is_responsible(k, ReplicaId::new(m)) != p.list[i].contains(&m) {
                return Err(format!(
                    "{} key {:?}: is_responsible(node {}) disagrees with get_replicas() = {:?}",
                    what, k, m, p.list[i]
                ));
            }
            let t = raw(&ring.get_gossip_targets(k, ReplicaId::new(m)));
            let want: Vec<u64> = p.list[i].iter().copied().filter(|y| *y != m).collect();
            if t != want {
                return Err(format!(
                    "{} key {:?}: get_gossip_targets(sender {}) = {:?}, expected get_replicas minus sender = {:?}",
                    what, k, m, t, want
                ));
            }
        }
    }
    Ok(())
}

fn compare_placements(a: &Placement, b: &Placement, keys: &[&str], what: &dyn Fn() -> String) -> Result<(), String> {
    for (i, k) in keys.iter().enumerate() {
        if a.list[i] != b.list[i] {
            return Err(format!(
                "{}: key {:?}: get_replicas differs: {:?} vs {:?}",
                what(),
                k,
                a.list[i],
                b.list[i]
            ));
        }
        if a.full[i] != b.full[i] {
            return Err(format!(
                "{}: key {:?}: preference order (rf = n) differs: {:?} vs {:?}",
                what(),
                k,
                a.full[i],
                b.full[i]
            ));
        }
    }
    Ok(())
}

fn all_permutations(n: usize) -> Vec<Vec<usize>> {
    fn rec(cur: &mut Vec<usize>, used: &mut Vec<bool>, n: usize, out: &mut Vec<Vec<usize>>) {
        if cur.len() == n {
            out.push(cur.clone());
            return;
        }
        for i in 0..n {
            if !used[i] {
                used[i] = true;
                cur.push(i);
                rec(cur, used, n, out);
                cur.pop();
                used[i] = false;
            }
        }
    }
    let mut out = Vec::new();
    rec(&mut Vec::new(), &mut vec![false; n], n, &mut out);
    out
}

fn perm_from_sort_keys(n: usize, sort_keys: &[u16]) -> Vec<usize> {
    let mut idx: Vec<usize> = (0..n).collect();
    idx.sort_by_key(|&i| (sort_keys.get(i).copied().unwrap_or(0), i));
    idx
}

// ---------------------------------------------------------------------------------------
// (1) exhaustive permutations, n <= 6
// ---------------------------------------------------------------------------------------

#[derive(Clone, Debug, Serialize, Deserialize)]
struct PermCase {
    ids: Vec<u64>,
    vnodes: u32,
    rf: usize,
    /// number of pool keys used (prefix of the pool)
    keys: usize,
    /// this item covers the permutations with index % parts == part (all items together: all n!)
    part: usize,
    parts: usize,
}

fn check_perm_exhaustive(c: &PermCase, ctx: &mut CaseCtx<'_>) -> Result<(), String> {
    let n = c.ids.len();
    let pool = key_pool();
    let keys: Vec<&str> = pool.iter().take(c.keys).map(|s| s.as_str()).collect();
    let overrides: Vec<usize> = (0..=7).collect();
    let base = HashRing::new(rid(&c.ids), c.vnodes, c.rf);
    let bp = placement(&base, &keys, n);
    check_ring_shape(&base, &keys, &c.ids, c.rf, &overrides, &bp, "base order")?;
    let parts = c.parts.max(1);
    let perms: Vec<Vec<usize>> = all_permutations(n)
        .into_iter()
        .enumerate()
        .filter(|(i, _)| i % parts == c.part % parts)
        .map(|(_, p)| p)
        .collect();
    for p in &perms {
        let order: Vec<u64> = p.iter().map(|&i| c.ids[i]).collect();
        let ring = HashRing::new(rid(&order), c.vnodes, c.rf);
        let pp = placement(&ring, &keys, n);
        compare_placements(&bp, &pp, &keys, &|| {
            format!(
                "join order {:?} vs join order {:?} (vnodes {}, rf {})",
                c.ids, order, c.vnodes, c.rf
            )
        })?;
        for &r in &overrides {
            for (i, k) in keys.iter().enumerate() {
                let l = raw(&ring.get_replicas_with_rf(k, r));
                if l[..] != bp.full[i][..r.min(n)] {
                    return Err(format!(
                        "join order {:?}: key {:?}: get_replicas_with_rf({}) = {:?}, join order {:?} gives {:?}",
                        order,
                        k,
                        r,
                        l,
                        c.ids,
                        &bp.full[i][..r.min(n)]
                    ));
                }
            }
        }
    }
    ctx.add_evaluations((perms.len() * keys.len()) as u64);
    ctx.label(&format!("n={}", n));
    if n >= 3 && c.rf > 0 && c.rf < n {
        ctx.nontrivial(&(c.ids.clone(), c.vnodes, c.rf));
    }
    Ok(())
}

// ---------------------------------------------------------------------------------------
// (2) generated memberships
// ---------------------------------------------------------------------------------------

#[derive(Clone, Debug, Serialize, Deserialize)]
enum Step {
    /// join this id (no change expected if it is already a member)
    Add(u64),
    /// remove the member at this position of the sorted membership (u16 / 65536 of its length)
    RemoveAt(u16),
    /// remove this id (no change expected if it is not a member)
    RemoveId(u64),
}

#[derive(Clone, Debug, Serialize, Deserialize)]
struct RingCase {
    /// distinct ids in the base join order
    ids: Vec<u64>,
    vnodes: u32,
    rf: usize,
    /// further join orders as sort keys (argsort, ties by position)
    perms: Vec<Vec<u16>>,
    /// key pool indices (u16 / 65536 of the pool length)
    keys: Vec<u16>,
    extra_keys: Vec<String>,
    steps: Vec<Step>,
    rf_overrides: Vec<usize>,
}

fn ring_case(max_nodes: usize, nkeys: std::ops::RangeInclusive<usize>) -> impl Strategy<Value = RingCase> {
    (
        membership(max_nodes),
        prop_oneof![
            2 => Just(1u32), 2 => 2u32..=10, 3 => 11u32..=100, 3 => 101u32..=200,
            1 => Just(150u32), 1 => Just(200u32)
        ],
        0usize..=6,
        proptest::collection::vec(proptest::collection::vec(any::<u16>(), 12), 0..8),
        proptest::collection::vec(any::<u16>(), nkeys),
        proptest::collection::vec(extra_key(), 0..6),
        proptest::collection::vec(
            prop_oneof![
                5 => id_strategy().prop_map(Step::Add),
                5 => any::<u16>().prop_map(Step::RemoveAt),
                1 => id_strategy().prop_map(Step::RemoveId),
            ],
            1..5,
        ),
        proptest::collection::vec(0usize..=13, 0..4),
    )
        .prop_map(|(ids, vnodes, rf, perms, keys, extra_keys, steps, rf_overrides)| RingCase {
            ids,
            vnodes,
            rf,
            perms,
            keys,
            extra_keys,
            steps,
            rf_overrides,
        })
}

fn check_ring_case(c: &RingCase, ctx: &mut CaseCtx<'_>) -> Result<(), String> {
    let ids = dedup(c.ids.clone());
    let n = ids.len();
    if n == 0 {
        return Ok(());
    }
    let mut keyset: Vec<&str> = c.keys.iter().map(|&i| key_at(i)).collect();
    for k in &c.extra_keys {
        keyset.push(k.as_str());
    }
    // always: the fixed pool of the other checks
    for k in key_pool().iter().take(17) {
        keyset.push(k.as_str());
    }
    let keys = keyset;
    let mut overrides = c.rf_overrides.clone();
    overrides.push(n);
    overrides.push(n + 1);

    let base = HashRing::new(rid(&ids), c.vnodes, c.rf);
    let bp = placement(&base, &keys, n);
    check_ring_shape(&base, &keys, &ids, c.rf, &overrides, &bp, "base order")?;
    let mut evals = keys.len() as u64;

    // ---- join orders
    let mut orders: Vec<Vec<usize>> = Vec::new();
    if n <= 5 {
        orders = all_permutations(n);
        ctx.label("perms:all");
    } else {
        ctx.label("perms:sampled");
        orders.push((0..n).rev().collect());
        let mut sorted: Vec<usize> = (0..n).collect();
        sorted.sort_by_key(|&i| ids[i]);
        orders.push(sorted.clone());
        sorted.reverse();
        orders.push(sorted);
        for r in 1..n {
            orders.push((0..n).map(|i| (i + r) % n).collect());
        }
        for sk in &c.perms {
            orders.push(perm_from_sort_keys(n, sk));
        }
    }
    for p in &orders {
        let order: Vec<u64> = p.iter().map(|&i| ids[i]).collect();
        let ring = HashRing::new(rid(&order), c.vnodes, c.rf);
        let pp = placement(&ring, &keys, n);
        compare_placements(&bp, &pp, &keys, &|| {
            format!(
                "join order {:?} vs join order {:?} (vnodes {}, rf {})",
                ids, order, c.vnodes, c.rf
            )
        })?;
        evals += keys.len() as u64;
    }
    // joining twice / building by add_node from an empty ring is the same membership
    {
        let mut twice = ids.clone();
        twice.extend(ids.iter().rev().copied());
        let ring = HashRing::new(rid(&twice), c.vnodes, c.rf);
        let pp = placement(&ring, &keys, n);
        compare_placements(&bp, &pp, &keys, &|| {
            format!("join list with every node named twice {:?} vs {:?}", twice, ids)
        })?;
        let mut inc = HashRing::new(vec![], c.vnodes, c.rf);
        for &i in ids.iter().rev() {
            inc.add_node(ReplicaId::new(i));
        }
        let pp = placement(&inc, &keys, n);
        compare_placements(&bp, &pp, &keys, &|| {
            format!("ring grown by add_node in reverse order vs HashRing::new({:?})", ids)
        })?;
    }

    // ---- membership changes, one node at a time
    let mut ring = base.clone();
    let mut members = ids.clone();
    let mut prev = bp;
    for (si, st) in c.steps.iter().enumerate() {
        let mut sorted = members.clone();
        sorted.sort();
        let (add, x) = match st {
            Step::Add(x) => (true, *x),
            Step::RemoveId(x) => (false, *x),
            Step::RemoveAt(i) => {
                if sorted.is_empty() {
                    continue;
                }
                (false, sorted[(*i as usize * sorted.len()) >> 16])
            }
        };
        let was_member = members.contains(&x);
        let old_members = members.clone();
        if add {
            ring.add_node(ReplicaId::new(x));
            if !was_member {
                members.push(x);
            }
        } else {
            ring.remove_node(ReplicaId::new(x));
            members.retain(|m| *m != x);
        }
        let m = members.len();
        let what = format!(
            "step {} ({} node {}; membership {:?} -> {:?}; vnodes {}, rf {})",
            si,
            if add { "add" } else { "remove" },
            x,
            old_members,
            members,
            c.vnodes,
            c.rf
        );
        // full order over the *larger* membership size so that both sides are complete orders
        let cur = Placement {
            full: keys.iter().map(|k| raw(&ring.get_replicas_with_rf(k, m))).collect(),
            list: keys.iter().map(|k| raw(&ring.get_replicas(k))).collect(),
        };
        let mut ov = c.rf_overrides.clone();
        ov.push(m);
        check_ring_shape(&ring, &keys, &members, c.rf, &ov, &cur, &what)?;
        if add == was_member {
            // add of a member / remove of a non-member: the membership is unchanged
            ctx.label(if add { "step:add_existing" } else { "step:remove_absent" });
            compare_placements(&prev, &cur, &keys, &|| format!("{}: membership unchanged", what))?;
        } else {
            ctx.label(if add { "step:add" } else { "step:remove" });
            for (i, k) in keys.iter().enumerate() {
                let w = format!("{} key {:?}", what, k);
                if add {
                    check_gain(&prev.list[i], &cur.list[i], x, &w)?;
                    check_gain(&prev.full[i], &cur.full[i], x, &format!("{} (rf = n)", w))?;
                } else {
                    check_gain(&cur.list[i], &prev.list[i], x, &w)?;
                    check_gain(&cur.full[i], &prev.full[i], x, &format!("{} (rf = n)", w))?;
                }
            }
            // hot-key overrides across the change
            if !c.rf_overrides.is_empty() {
                let before = HashRing::new(rid(&old_members), c.vnodes, c.rf);
                for &r in &c.rf_overrides {
                    for k in keys.iter().take(60) {
                        let a = raw(&before.get_replicas_with_rf(k, r));
                        let b = raw(&ring.get_replicas_with_rf(k, r));
                        let w = format!("{} key {:?} rf override {}", what, k, r);
                        if add {
                            check_gain(&a, &b, x, &w)?;
                        } else {
                            check_gain(&b, &a, x, &w)?;
                        }
                    }
                }
            }
        }
        // history does not matter: a fresh ring of the resulting membership agrees
        let mut fresh_order = members.clone();
        fresh_order.sort();
        let fresh = HashRing::new(rid(&fresh_order), c.vnodes, c.rf);
        let fp = Placement {
            full: keys.iter().map(|k| raw(&fresh.get_replicas_with_rf(k, m))).collect(),
            list: keys.iter().map(|k| raw(&fresh.get_replicas(k))).collect(),
        };
        compare_placements(&cur, &fp, &keys, &|| {
            format!("{}: ring after the change vs fresh ring of {:?}", what, fresh_order)
        })?;
        evals += 3 * keys.len() as u64;
        prev = cur;
    }
    ctx.add_evaluations(evals);
    ctx.label(match n {
        1 => "n=1",
        2 => "n=2",
        3..=5 => "n=3..5",
        6..=8 => "n=6..8",
        _ => "n=9..12",
    });
    ctx.label(if c.rf == 0 {
        "rf=0"
    } else if c.rf < n {
        "rf<n"
    } else {
        "rf>=n"
    });
    ctx.label(match c.vnodes {
        1 => "vnodes=1",
        2..=10 => "vnodes<=10",
        11..=100 => "vnodes<=100",
        _ => "vnodes<=200",
    });
    if n >= 3 && c.rf > 0 && c.rf < n {
        ctx.nontrivial(&(ids, c.vnodes, c.rf, format!("{:?}", c.steps)));
    }
    Ok(())
}

// ---------------------------------------------------------------------------------------
// (3) router
// ---------------------------------------------------------------------------------------

/// The ORIGIN (`source_replica`) of a gossiped delta need not be the node that queues it: deltas
/// are relayed, recovered, replayed and handed over by anti-entropy. The property's sets are
/// defined by the queueing node (the sender), so the origin must not influence who receives
/// the update. The low three bits of the tag select the origin: the sender itself, another
/// member, the first / last owner of the key other than the sender, a member that does not own
/// the key, or an id outside the membership.
fn origin_of(key: &str, tag: u32, sender: u64, ring: &HashRing, members: &[u64]) -> u64 {
    let owners: Vec<u64> = ring.get_replicas(key).iter().map(|r| r.0).filter(|o| *o != sender).collect();
    match tag % 8 {
        0..=2 => sender,
        3 => members.get((tag as usize / 8) % members.len().max(1)).copied().unwrap_or(sender),
        4 => owners.first().copied().unwrap_or(sender),
        5 => owners.last().copied().unwrap_or(sender),
        6 => members
            .iter()
            .copied()
            .find(|m| *m != sender && !owners.contains(m))
            .unwrap_or(sender),
        _ => {
            let mut x = 0xFFFF_FFFF_FFFF_FF00u64 + (tag as u64 % 200);
            while members.contains(&x) {
                x = x.wrapping_sub(1);
            }
            x
        }
    }
}

fn mk_delta(key: &str, tag: u32, sender: u64, ring: &HashRing, members: &[u64]) -> ReplicationDelta {
    let r = ReplicaId::new(origin_of(key, tag, sender, ring, members));
    let v = ReplicatedValue::with_value(SDS::from_str(&format!("t{}", tag)), LamportClock::new(r));
    ReplicationDelta::new(key.to_string(), v, r)
}

fn delta_tag(d: &ReplicationDelta) -> Result<(String, u32), String> {
    let v = d
        .value
        .get()
        .ok_or_else(|| format!("routed delta for key {:?} lost its value", d.key))?;
    let s = String::from_utf8_lossy(v.as_bytes()).to_string();
    let tag = s
        .strip_prefix('t')
        .and_then(|t| t.parse::<u32>().ok())
        .ok_or_else(|| format!("routed delta for key {:?} carries an unknown value {:?}", d.key, s))?;
    Ok((d.key.clone(), tag))
}

/// target -> sorted (key, tag) deliveries
type Deliveries = BTreeMap<u64, Vec<(String, u32)>>;

fn expected_deliveries(ring: &HashRing, sender: u64, batch: &[(String, u32)]) -> Deliveries {
    let mut d: Deliveries = BTreeMap::new();
    for (k, tag) in batch {
        for r in ring.get_replicas(k) {
            if r.0 != sender {
                d.entry(r.0).or_default().push((k.clone(), *tag));
            }
        }
    }
    for v in d.values_mut() {
        v.sort();
    }
    d
}

fn show_deliveries(d: &Deliveries) -> String {
    let mut s = String::new();
    for (t, v) in d {
        s.push_str(&format!(
            "\n      node {} <- {} deltas {:?}",
            t,
            v.len(),
            v.iter().take(6).collect::<Vec<_>>()
        ));
    }
    if s.is_empty() {
        s.push_str(" (none)");
    }
    s
}

fn table_deliveries(t: &HashMap<ReplicaId, Vec<ReplicationDelta>>) -> Result<Deliveries, String> {
    let mut d: Deliveries = BTreeMap::new();
    for (r, ds) in t {
        let mut v = Vec::new();
        for x in ds {
            v.push(delta_tag(x)?);
        }
        v.sort();
        d.insert(r.0, v);
    }
    Ok(d)
}

/// Deliveries implied by the drained outbound queue of a GossipState in selective mode.
fn outbound_deliveries(
    msgs: &[redis_sim::replication::RoutedMessage],
    sender: u64,
    members: &[u64],
) -> Result<Deliveries, String> {
    let mut d: Deliveries = BTreeMap::new();
    for m in msgs {
        match (&m.target, &m.message) {
            (
                Some(t),
                GossipMessage::TargetedDelta {
                    source_replica,
                    target_replica,
                    deltas,
                    ..
                },
            ) => {
                if t != target_replica {
                    return Err(format!(
                        "outbound message addressed to node {} carries target_replica {}",
                        t.0, target_replica.0
                    ));
                }
                if source_replica.0 != sender {
                    return Err(format!(
                        "outbound message of sender {} names source_replica {}",
                        sender, source_replica.0
                    ));
                }
                if t.0 == sender {
                    return Err(format!("sender {} queued a targeted message to itself", sender));
                }
                if !members.contains(&t.0) {
                    return Err(format!(
                        "targeted message to node {} which is not in the membership {:?}",
                        t.0, members
                    ));
                }
                if deltas.is_empty() {
                    return Err(format!("empty targeted message to node {}", t.0));
                }
                let e = d.entry(t.0).or_default();
                for x in deltas {
                    e.push(delta_tag(x)?);
                }
            }
            (None, msg) if msg.is_delta_message() => {
                return Err(format!(
                    "selective gossip queued a broadcast delta message ({} deltas): every peer would receive it, not only the owners",
                    msg.clone().into_deltas().map(|d| d.len()).unwrap_or(0)
                ));
            }
            (t, other) => {
                return Err(format!(
                    "unexpected outbound message target={:?} message={:?}",
                    t.map(|r| r.0),
                    other
                ));
            }
        }
    }
    for v in d.values_mut() {
        v.sort();
    }
    Ok(d)
}

#[derive(Clone, Debug, Serialize, Deserialize)]
struct RouterCase {
    ids: Vec<u64>,
    vnodes: u32,
    rf: usize,
    /// the peer map handed to GossipRouter::new also names the sender itself
    self_in_peers: bool,
    /// batches of key pool indices; a small modulus makes keys repeat inside a batch
    batches: Vec<Vec<u16>>,
    key_space: u16,
    /// a write burst inside one gossip interval: one more batch of `size` deltas whose key
    /// indices come from a small generator seeded with `seed` (the case stays small and shrinks
    /// as two numbers). Sizes sit on and around the thresholds a batching layer might have
    /// (powers of two, 500/1000/1500) so that "more than N deltas owed to one target" is met.
    #[serde(default)]
    burst: Option<(u16, u16)>,
}

fn burst_strategy() -> impl Strategy<Value = Option<(u16, u16)>> {
    prop_oneof![
        6 => Just(None),
        1 => (prop_oneof![
            Just(64u16), Just(65), Just(127), Just(128), Just(129), Just(255), Just(256), Just(257),
            Just(500), Just(511), Just(512), Just(513), Just(600), Just(1000), Just(1023), Just(1024),
            Just(1025), Just(1500), Just(2047), Just(2049), Just(4097), 41u16..5000
        ], any::<u16>()).prop_map(Some),
    ]
}

fn burst_batch(size: u16, seed: u16) -> Vec<u16> {
    let mut x = (seed as u32).wrapping_mul(2654435761u32) | 1;
    (0..size)
        .map(|_| {
            x = x.wrapping_mul(1664525).wrapping_add(1013904223);
            (x >> 16) as u16
        })
        .collect()
}

fn batches_strategy() -> impl Strategy<Value = Vec<Vec<u16>>> {
    proptest::collection::vec(proptest::collection::vec(any::<u16>(), 0..40), 1..4)
}

fn router_case() -> impl Strategy<Value = RouterCase> {
    (
        membership(12),
        prop_oneof![1 => Just(1u32), 2 => 2u32..=20, 3 => 21u32..=200, 1 => Just(150u32)],
        0usize..=6,
        any::<bool>(),
        batches_strategy(),
        prop_oneof![1 => Just(4u16), 1 => Just(24u16), 3 => Just(u16::MAX)],
        burst_strategy(),
    )
        .prop_map(|(ids, vnodes, rf, self_in_peers, batches, key_space, burst)| RouterCase {
            ids,
            vnodes,
            rf,
            self_in_peers,
            batches,
            key_space,
            burst,
        })
}

fn batch_keys(batches: &[Vec<u16>], key_space: u16) -> Vec<Vec<(String, u32)>> {
    let mut tag = 0u32;
    batches
        .iter()
        .map(|b| {
            b.iter()
                .map(|&i| {
                    tag += 1;
                    let idx = if key_space == u16::MAX {
                        i
                    } else {
                        // few distinct keys: collisions inside a batch
                        ((i % key_space) as u32 * 65535 / key_space as u32) as u16
                    };
                    // unique tag; its low three bits choose the delta's origin (see origin_of)
                    (key_at(idx).to_string(), tag * 8 + (i as u32 / 31) % 8)
                })
                .collect()
        })
        .collect()
}

fn partitioned_config(sender: u64, peers: Vec<String>, rf: usize, vnodes: u32) -> ReplicationConfig {
    ReplicationConfig::new_partitioned_cluster(sender, peers, rf).with_virtual_nodes(vnodes)
}

/// One sender, one router constructor: routing table and queued messages against the oracle
/// `get_replicas(key) minus sender`. `adjust` lets the caller account for a known finding: it
/// receives (expected, actual) and may rewrite `expected`.
fn check_sender(
    ring: &Arc<RwLock<HashRing>>,
    members: &[u64],
    sender: u64,
    mk_router: &dyn Fn() -> GossipRouter,
    config: &ReplicationConfig,
    batches: &[Vec<(String, u32)>],
    adjust: &mut dyn FnMut(&mut Deliveries, &Deliveries) -> Result<(), String>,
    what: &str,
) -> Result<u64, String> {
    let mut evals = 0u64;
    let r: HashRing = ring.read().map_err(|_| "ring lock poisoned".to_string())?.clone();
    // --- route_deltas per batch
    let router = mk_router();
    if !router.is_selective() {
        return Err(format!("{}: router is not in selective mode", what));
    }
    if router.my_replica().0 != sender {
        return Err(format!(
            "{}: router.my_replica() = {} for sender {}",
            what,
            router.my_replica().0,
            sender
        ));
    }
    for (bi, b) in batches.iter().enumerate() {
        let deltas: Vec<ReplicationDelta> = b.iter().map(|(k, t)| mk_delta(k, *t, sender, &r, members)).collect();
        let mut want = expected_deliveries(&r, sender, b);
        let table = router.route_deltas(deltas.clone());
        if let Some((t, _)) = table.iter().find(|(_, v)| v.is_empty()) {
            return Err(format!("{}: routing table has an empty entry for node {}", what, t.0));
        }
        let got = table_deliveries(&table)?;
        if got != want {
            adjust(&mut want, &got)?;
        }
        if got != want {
            return Err(format!(
                "{} batch {} ({} deltas): route_deltas differs from get_replicas(key) minus sender.\n    expected:{}\n    routing table:{}",
                what,
                bi,
                b.len(),
                show_deliveries(&want),
                show_deliveries(&got)
            ));
        }
        // route_with_stats returns the same table
        let (table2, stats) = router.route_with_stats(deltas);
        let got2 = table_deliveries(&table2)?;
        if got2 != got {
            return Err(format!("{} batch {}: route_with_stats routes differently from route_deltas", what, bi));
        }
        let total: usize = got.values().map(|v| v.len()).sum();
        if stats.total_assignments != total || stats.total_deltas != b.len() {
            return Err(format!(
                "{} batch {}: RoutingStats {:?} disagrees with the table ({} assignments, {} deltas)",
                what,
                bi,
                stats,
                total,
                b.len()
            ));
        }
        evals += b.len() as u64;
    }
    // --- GossipState: queue every batch, then drain
    let mut gs = GossipState::with_router(config.clone(), mk_router());
    if !gs.is_selective() {
        return Err(format!("{}: GossipState::with_router is not selective", what));
    }
    let mut all: Vec<(String, u32)> = Vec::new();
    for b in batches {
        let deltas: Vec<ReplicationDelta> = b.iter().map(|(k, t)| mk_delta(k, *t, sender, &r, members)).collect();
        gs.queue_deltas(deltas);
        all.extend(b.iter().cloned());
    }
    let out = gs.drain_outbound();
    if !gs.outbound_queue.is_empty() {
        return Err(format!("{}: outbound queue not empty after drain_outbound", what));
    }
    let mut want = expected_deliveries(&r, sender, &all);
    let got = outbound_deliveries(&out, sender, members).map_err(|e| format!("{}: {}", what, e))?;
    if got != want {
        adjust(&mut want, &got)?;
    }
    if got != want {
        return Err(format!(
            "{}: messages queued by GossipState::queue_deltas differ from get_replicas(key) minus sender over {} batches.\n    expected:{}\n    queued:{}",
            what,
            batches.len(),
            show_deliveries(&want),
            show_deliveries(&got)
        ));
    }
    // one targeted message per (batch, target): a delta reaches a target exactly once because
    // the multiset above matched; additionally no target got two messages for one batch
    let per_target_msgs = out.len();
    let max_msgs: usize = batches.len() * members.len();
    if per_target_msgs > max_msgs {
        return Err(format!("{}: {} messages for {} batches", what, per_target_msgs, batches.len()));
    }
    Ok(evals + all.len() as u64)
}

// ---------------------------------------------------------------------------------------
// a long-lived router: peers learnt and forgotten between batches, senders outside the ring
// ---------------------------------------------------------------------------------------

#[derive(Clone, Debug, Hash, Serialize, Deserialize)]
enum LifeStep {
    /// route a batch of key indices (small key space: the same keys come back)
    Route(Vec<u8>),
    /// GossipRouter::update_peer(member chosen by the selector, address)
    Learn(u16),
    /// GossipRouter::remove_peer(member chosen by the selector)
    Forget(u16),
}

#[derive(Clone, Debug, Hash, Serialize, Deserialize)]
struct RouterLifeCase {
    ids: Vec<u64>,
    vnodes: u32,
    rf: usize,
    /// None = the sender is a ring member (selector); Some(id) = a node that is NOT in the ring
    /// (just removed from it while it still holds deltas, or not added yet)
    outsider: Option<u64>,
    sender_sel: u16,
    /// bit i set = member i's address is known when the router is built
    known_mask: u16,
    steps: Vec<LifeStep>,
}

fn router_life_case() -> impl Strategy<Value = RouterLifeCase> {
    let step = prop_oneof![
        5 => proptest::collection::vec(0u8..12, 1..10).prop_map(LifeStep::Route),
        2 => any::<u16>().prop_map(LifeStep::Learn),
        2 => any::<u16>().prop_map(LifeStep::Forget),
    ];
    (
        membership(8),
        prop_oneof![1 => Just(1u32), 2 => 2u32..=20, 2 => 21u32..=150],
        0usize..=4,
        prop_oneof![3 => Just(None), 1 => (1_000_000u64..1_000_100).prop_map(Some)],
        any::<u16>(),
        any::<u16>(),
        proptest::collection::vec(step, 2..14),
    )
        .prop_map(|(ids, vnodes, rf, outsider, sender_sel, known_mask, steps)| RouterLifeCase {
            ids,
            vnodes,
            rf,
            outsider,
            sender_sel,
            known_mask,
            steps,
        })
}

/// Oracle: at every routing step, each delta goes exactly to the owners of its key
/// (`get_replicas`), minus the sender, minus the owners whose address the router does not know AT
/// THAT MOMENT - whatever it routed before, and whether or not the sender is a ring member.
fn check_router_life(c: &RouterLifeCase, ctx: &mut CaseCtx<'_>) -> Result<(), String> {
    let ids = dedup(c.ids.clone());
    let n = ids.len();
    if n < 2 {
        return Ok(());
    }
    let ring_v = HashRing::new(rid(&ids), c.vnodes, c.rf);
    let ring = Arc::new(RwLock::new(ring_v.clone()));
    let sender = match c.outsider {
        Some(x) if !ids.contains(&x) => x,
        _ => ids[(c.sender_sel as usize * n) >> 16],
    };
    let member_sender = ids.contains(&sender);
    let addr = |j: u64| format!("10.1.0.1:{}", 7000 + (j % 1000));
    let mut known: BTreeSet<u64> = ids
        .iter()
        .enumerate()
        .filter(|(i, j)| **j != sender && (c.known_mask >> (i % 16)) & 1 == 1)
        .map(|(_, j)| *j)
        .collect();
    let peers: HashMap<ReplicaId, String> = known.iter().map(|&j| (ReplicaId::new(j), addr(j))).collect();
    let mut router = GossipRouter::new(ring.clone(), ReplicaId::new(sender), peers, true);
    let mut tag = 0u32;
    let mut routed_before: BTreeSet<String> = BTreeSet::new();
    let mut trace: Vec<String> = Vec::new();
    let mut changed_since_route = false;
    let mut evals = 0u64;
    for st in &c.steps {
        match st {
            LifeStep::Learn(sel) => {
                let j = ids[(*sel as usize * n) >> 16];
                if j != sender {
                    router.update_peer(ReplicaId::new(j), addr(j));
                    if known.insert(j) {
                        changed_since_route = true;
                    }
                    trace.push(format!("update_peer({})", j));
                }
            }
            LifeStep::Forget(sel) => {
                let j = ids[(*sel as usize * n) >> 16];
                router.remove_peer(ReplicaId::new(j));
                if known.remove(&j) {
                    changed_since_route = true;
                }
                trace.push(format!("remove_peer({})", j));
            }
            LifeStep::Route(ks) => {
                let batch: Vec<(String, u32)> = ks
                    .iter()
                    .map(|&i| {
                        tag += 1;
                        (key_at((i as u32 * 5461) as u16).to_string(), tag * 8)
                    })
                    .collect();
                let deltas: Vec<ReplicationDelta> = batch.iter().map(|(k, t)| mk_delta(k, *t, sender, &ring_v, &ids)).collect();
                let mut want = expected_deliveries(&ring_v, sender, &batch);
                want.retain(|t, _| known.contains(t));
                let got = table_deliveries(&router.route_deltas(deltas))?;
                trace.push(format!("route {:?}", batch.iter().map(|(k, _)| k.as_str()).collect::<Vec<_>>()));
                if got != want {
                    return Err(format!(
                        "long-lived GossipRouter of node {} ({}; membership {:?}, vnodes {}, rf {}): after [{}] the routing table differs from get_replicas(key) minus sender, restricted to the peers whose address is known now {:?}.\n    expected:{}\n    routing table:{}",
                        sender,
                        if member_sender { "a ring member" } else { "NOT a ring member" },
                        ids, c.vnodes, c.rf,
                        trace.join("; "),
                        known,
                        show_deliveries(&want),
                        show_deliveries(&got)
                    ));
                }
                if changed_since_route && batch.iter().any(|(k, _)| routed_before.contains(k)) {
                    ctx.label("key_routed_again_after_a_peer_change");
                }
                changed_since_route = false;
                for (k, _) in &batch {
                    routed_before.insert(k.clone());
                }
                evals += batch.len() as u64;
            }
        }
    }
    ctx.add_evaluations(evals);
    ctx.label(if member_sender { "sender:ring_member" } else { "sender:outside_the_ring" });
    if c.rf > 0 && evals > 0 {
        ctx.nontrivial(c);
    }
    Ok(())
}

fn check_router_case(c: &RouterCase, ctx: &mut CaseCtx<'_>) -> Result<(), String> {
    let ids = dedup(c.ids.clone());
    let n = ids.len();
    if n == 0 {
        return Ok(());
    }
    let ring = Arc::new(RwLock::new(HashRing::new(rid(&ids), c.vnodes, c.rf)));
    let mut raw = c.batches.clone();
    if let Some((size, seed)) = c.burst {
        raw.push(burst_batch(size, seed));
        ctx.label("burst_batch");
        ctx.label(if size > 512 { "burst_batch:>512" } else { "burst_batch:<=512" });
    }
    let batches = batch_keys(&raw, c.key_space);
    let mut evals = 0;
    for &sender in &ids {
        let peers: HashMap<ReplicaId, String> = ids
            .iter()
            .filter(|&&j| c.self_in_peers || j != sender)
            .map(|&j| (ReplicaId::new(j), format!("10.0.0.1:{}", 7000 + (j % 1000))))
            .collect();
        let cfg = partitioned_config(sender, peers.values().cloned().collect(), c.rf, c.vnodes);
        let mk = || GossipRouter::new(ring.clone(), ReplicaId::new(sender), peers.clone(), true);
        evals += check_sender(
            &ring,
            &ids,
            sender,
            &mk,
            &cfg,
            &batches,
            &mut |_, _| Ok(()),
            &format!(
                "GossipRouter::new membership {:?} vnodes {} rf {} sender {}",
                ids, c.vnodes, c.rf, sender
            ),
        )?;
    }
    ctx.add_evaluations(evals);
    ctx.label(if c.self_in_peers { "peers:with_self" } else { "peers:others" });
    ctx.label(if c.rf == 0 {
        "rf=0"
    } else if c.rf < n {
        "rf<n"
    } else {
        "rf>=n"
    });
    let total: usize = batches.iter().map(|b| b.len()).sum();
    if n >= 3 && c.rf > 0 && c.rf < n && total > 0 {
        ctx.nontrivial(&(ids, c.vnodes, c.rf, c.batches.clone(), c.key_space, c.burst));
    }
    Ok(())
}

#[derive(Clone, Debug, Serialize, Deserialize)]
struct FromConfigCase {
    /// cluster of ids 1..=n
    n: u64,
    vnodes: u32,
    rf: usize,
    batches: Vec<Vec<u16>>,
    key_space: u16,
}

fn addr(id: u64) -> String {
    format!("node-{}.cluster.local:{}", id, 3000 + id)
}

/// from_config's documented convention: ids are 1..=n, `config.peers` lists the other nodes'
/// addresses in id order.
fn from_config_router(n: u64, sender: u64, rf: usize, vnodes: u32, ring: &Arc<RwLock<HashRing>>) -> (ReplicationConfig, GossipRouter) {
    let peers: Vec<String> = (1..=n).filter(|&j| j != sender).map(addr).collect();
    let cfg = partitioned_config(sender, peers, rf, vnodes);
    let router = GossipRouter::from_config(&cfg, ring.clone());
    (cfg, router)
}

const KF01: &str = "KF-C19-01";

fn check_from_config_case(c: &FromConfigCase, ctx: &mut CaseCtx<'_>) -> Result<(), String> {
    let n = c.n;
    if n == 0 {
        return Ok(());
    }
    let ids: Vec<u64> = (1..=n).collect();
    let ring = Arc::new(RwLock::new(HashRing::new(rid(&ids), c.vnodes, c.rf)));
    let batches = batch_keys(&c.batches, c.key_space);
    let mut evals = 0;
    let mut tolerated = false;
    for &sender in &ids {
        let what = format!(
            "GossipRouter::from_config cluster 1..={} vnodes {} rf {} sender {}",
            n, c.vnodes, c.rf, sender
        );
        let (cfg, router) = from_config_router(n, sender, c.rf, c.vnodes, &ring);
        if cfg.cluster_size() as u64 != n {
            return Err(format!("{}: cluster_size() = {}", what, cfg.cluster_size()));
        }
        // --- the peer table: every other node under its own id and address, not the sender
        let want_peers: BTreeMap<u64, String> = ids.iter().filter(|&&j| j != sender).map(|&j| (j, addr(j))).collect();
        let mut got_peers: BTreeMap<u64, String> = BTreeMap::new();
        for p in router.peer_ids() {
            got_peers.insert(p.0, router.get_peer_address(*p).cloned().unwrap_or_default());
        }
        // Exactly the discrepancy of KF-C19-01: for a sender r < n, the slot that should be
        // id r+1 is filed under the sender's own id r (same address, everything else right).
        let mut kf_shape = false;
        if got_peers != want_peers {
            let mut shifted = want_peers.clone();
            if let Some(a) = shifted.remove(&(sender + 1)) {
                shifted.insert(sender, a);
            }
            // counted once per case (every sender r < n of the cluster shows it)
            if sender < n && got_peers == shifted && (tolerated || ctx.tolerate(KF01)) {
                kf_shape = true;
                tolerated = true;
            } else {
                return Err(format!(
                    "{}: peer table is {:?}, the documented convention (ids sequential from 1, excluding self, config.peers in id order) gives {:?}",
                    what, got_peers, want_peers
                ));
            }
        }
        let mk = || from_config_router(n, sender, c.rf, c.vnodes, &ring).1;
        let mut adjust = |want: &mut Deliveries, got: &Deliveries| -> Result<(), String> {
            // KF-C19-01, and only it: everything addressed to node sender+1 is missing
            if kf_shape && want.contains_key(&(sender + 1)) && !got.contains_key(&(sender + 1)) {
                want.remove(&(sender + 1));
            }
            Ok(())
        };
        evals += check_sender(&ring, &ids, sender, &mk, &cfg, &batches, &mut adjust, &what)?;
    }
    ctx.add_evaluations(evals);
    if tolerated {
        ctx.label("from_config:kf01_tolerated");
    }
    ctx.label(&format!("n={}", n));
    let total: usize = batches.iter().map(|b| b.len()).sum();
    if n >= 3 && c.rf > 0 && (c.rf as u64) < n && total > 0 {
        ctx.nontrivial(&(n, c.vnodes, c.rf, c.batches.clone(), c.key_space));
    }
    Ok(())
}

// ---------------------------------------------------------------------------------------
// (4) the production gossip loops (GossipManager) against loopback listeners
// ---------------------------------------------------------------------------------------

#[derive(Clone, Debug, Serialize, Deserialize)]
struct ManagerCase {
    /// cluster of ids 1..=n
    n: u64,
    sender: u64,
    vnodes: u32,
    rf: usize,
    batch: Vec<u16>,
    key_space: u16,
    /// false: start_gossip_loop (Arc<RwLock<GossipState>>), true: start_gossip_loop_with_actor
    actor: bool,
}

const KF02: &str = "KF-C19-02";

enum LoopOutcome {
    /// what each listener (peer id) received before the closing heartbeat
    Deliveries(Deliveries),
    /// sockets unavailable / timed out: nothing can be concluded
    Inconclusive(String),
}

/// Runs one production gossip loop for two ticks: tick 1 gossips `batch`, tick 2 a heartbeat,
/// which both loops broadcast to every configured peer address (not through the peer map under
/// test) strictly after all messages of tick 1 were written. Every listener therefore sees a
/// heartbeat frame after everything that was ever addressed to it: termination is structural.
fn run_manager_loop(c: &ManagerCase, batch: &[(String, u32)]) -> Result<LoopOutcome, String> {
    use redis_sim::production::{GossipActor, GossipManager};
    use std::sync::atomic::{AtomicUsize, Ordering};
    use tokio::io::AsyncReadExt;
    use tokio::net::TcpListener;
    let (n, sender) = (c.n, c.sender);
    vcore::block_on(async {
        // one loopback listener per peer, in id order
        let mut listeners: Vec<(u64, TcpListener)> = Vec::new();
        let mut addrs: BTreeMap<u64, String> = BTreeMap::new();
        for j in (1..=n).filter(|&j| j != sender) {
            let l = match TcpListener::bind("127.0.0.1:0").await {
                Ok(l) => l,
                Err(e) => return Ok(LoopOutcome::Inconclusive(format!("bind: {}", e))),
            };
            let a = match l.local_addr() {
                Ok(a) => a.to_string(),
                Err(e) => return Ok(LoopOutcome::Inconclusive(format!("local_addr: {}", e))),
            };
            addrs.insert(j, a);
            listeners.push((j, l));
        }
        let ids: Vec<u64> = (1..=n).collect();
        let mut cfg = partitioned_config(sender, addrs.values().cloned().collect(), c.rf, c.vnodes);
        cfg.gossip_interval_ms = 1;
        let ring = Arc::new(RwLock::new(HashRing::new(rid(&ids), c.vnodes, c.rf)));
        // a CORRECT router (full, right peer map): only the loop's own addressing is under test
        let peers: HashMap<ReplicaId, String> = addrs.iter().map(|(j, a)| (ReplicaId::new(*j), a.clone())).collect();
        let router = GossipRouter::new(ring.clone(), ReplicaId::new(sender), peers, true);
        let ring_copy: HashRing = ring.read().map_err(|_| "ring lock poisoned".to_string())?.clone();
        let deltas: Vec<ReplicationDelta> = batch.iter().map(|(k, t)| mk_delta(k, *t, sender, &ring_copy, &ids)).collect();
        let calls = Arc::new(AtomicUsize::new(0));
        let task = if c.actor {
            let handle = GossipActor::spawn_with_router(cfg.clone(), router);
            let h2 = handle.clone();
            let calls = calls.clone();
            tokio::spawn(GossipManager::start_gossip_loop_with_actor(cfg.clone(), handle, move || {
                match calls.fetch_add(1, Ordering::SeqCst) {
                    0 => deltas.clone(),
                    1 => {
                        h2.queue_heartbeat();
                        Vec::new()
                    }
                    _ => Vec::new(),
                }
            }))
        } else {
            let state = Arc::new(parking_lot::RwLock::new(GossipState::with_router(cfg.clone(), router)));
            let s2 = state.clone();
            let calls = calls.clone();
            tokio::spawn(GossipManager::start_gossip_loop(cfg.clone(), state, move || {
                match calls.fetch_add(1, Ordering::SeqCst) {
                    0 => deltas.clone(),
                    1 => {
                        // the loop calls collect_deltas() before it takes the state lock
                        s2.write().queue_heartbeat();
                        Vec::new()
                    }
                    _ => Vec::new(),
                }
            }))
        };
        let read_all = async {
            let mut got: Deliveries = BTreeMap::new();
            for (j, l) in listeners.iter() {
                let (mut sock, _) = l.accept().await.map_err(|e| format!("accept: {}", e))?;
                loop {
                    let mut len = [0u8; 4];
                    sock.read_exact(&mut len).await.map_err(|e| format!("read: {}", e))?;
                    let mut buf = vec![0u8; u32::from_be_bytes(len) as usize];
                    sock.read_exact(&mut buf).await.map_err(|e| format!("read: {}", e))?;
                    let msg = GossipMessage::deserialize(&buf).map_err(|e| format!("peer {} received an undecodable frame: {}", j, e))?;
                    match msg {
                        GossipMessage::Heartbeat { .. } => break,
                        GossipMessage::TargetedDelta {
                            source_replica,
                            target_replica,
                            deltas,
                            ..
                        } => {
                            if target_replica.0 != *j || source_replica.0 != sender {
                                return Err(format!(
                                    "VIOLATION: the listener of node {} received a message addressed to node {} from node {} (sender under test: {})",
                                    j, target_replica.0, source_replica.0, sender
                                ));
                            }
                            let e = got.entry(*j).or_default();
                            for d in &deltas {
                                e.push(delta_tag(d)?);
                            }
                        }
                        other => {
                            return Err(format!("VIOLATION: node {} received an unexpected message in selective mode: {:?}", j, other));
                        }
                    }
                }
            }
            for v in got.values_mut() {
                v.sort();
            }
            Ok::<Deliveries, String>(got)
        };
        let r = tokio::time::timeout(std::time::Duration::from_secs(20), read_all).await;
        task.abort();
        match r {
            Err(_) => Ok(LoopOutcome::Inconclusive("timed out waiting for the closing heartbeat".into())),
            Ok(Err(e)) if e.starts_with("VIOLATION: ") => Err(e["VIOLATION: ".len()..].to_string()),
            Ok(Err(e)) => Ok(LoopOutcome::Inconclusive(e)),
            Ok(Ok(d)) => Ok(LoopOutcome::Deliveries(d)),
        }
    })
}

fn check_manager_case(c: &ManagerCase, ctx: &mut CaseCtx<'_>) -> Result<(), String> {
    let n = c.n;
    if n < 2 || c.sender < 1 || c.sender > n {
        return Ok(());
    }
    let ids: Vec<u64> = (1..=n).collect();
    let ring = HashRing::new(rid(&ids), c.vnodes, c.rf);
    let batch = batch_keys(std::slice::from_ref(&c.batch), c.key_space).pop().unwrap_or_default();
    let mut want = expected_deliveries(&ring, c.sender, &batch);
    let got = match run_manager_loop(c, &batch)? {
        LoopOutcome::Deliveries(d) => d,
        LoopOutcome::Inconclusive(why) => {
            ctx.abstain();
            ctx.label(&format!("inconclusive:{}", why.split(':').next().unwrap_or("")));
            return Ok(());
        }
    };
    ctx.label(if c.actor { "loop:actor" } else { "loop:rwlock" });
    let what = format!(
        "GossipManager::{} cluster 1..={} vnodes {} rf {} sender {}",
        if c.actor { "start_gossip_loop_with_actor" } else { "start_gossip_loop" },
        n,
        c.vnodes,
        c.rf,
        c.sender
    );
    if got != want {
        // KF-C19-02, and only it: sender r < n, everything addressed to node r+1 is missing
        // (the loop's own peer map files that peer under the sender's id), nothing else differs
        let miss = c.sender + 1;
        if c.sender < n && want.contains_key(&miss) && !got.contains_key(&miss) {
            let mut w2 = want.clone();
            w2.remove(&miss);
            if w2 == got && ctx.tolerate(KF02) {
                ctx.label("gossip_manager:kf02_tolerated");
                want = w2;
            }
        }
    }
    if got != want {
        return Err(format!(
            "{}: the frames received by the peers' listeners differ from get_replicas(key) minus sender for a batch of {} deltas (the GossipState's router is correct; the loop addresses targets through its own peer map).\n    expected:{}\n    received:{}",
            what,
            batch.len(),
            show_deliveries(&want),
            show_deliveries(&got)
        ));
    }
    ctx.add_evaluations(batch.len() as u64);
    if n >= 3 && c.rf > 0 && (c.rf as u64) < n && !batch.is_empty() {
        ctx.nontrivial(&(n, c.sender, c.vnodes, c.rf, c.batch.clone(), c.actor));
    }
    Ok(())
}

// ---------------------------------------------------------------------------------------
// (4b) routing while the shared ring is write-locked by a membership change
// ---------------------------------------------------------------------------------------

#[derive(Clone, Debug, Serialize, Deserialize)]
struct LockedCase {
    ids: Vec<u64>,
    vnodes: u32,
    rf: usize,
    joiner: u64,
    batch: Vec<u16>,
}

/// Another thread holds the write lock of the shared `Arc<RwLock<HashRing>>` (a node is
/// joining) while the sender queues a batch. `route_deltas` consumes the batch, so whatever it
/// does about the lock, every delta must come out addressed to the owners under the ring
/// before OR after the join (whichever the router saw) — never to nobody. The 15 ms the writer
/// keeps the lock only widen the window; the verdict does not depend on timing.
fn check_locked_case(c: &LockedCase, ctx: &mut CaseCtx<'_>) -> Result<(), String> {
    let ids = dedup(c.ids.clone());
    if ids.len() < 2 || ids.contains(&c.joiner) || c.batch.is_empty() {
        return Ok(());
    }
    let sender = ids[0];
    let before = HashRing::new(rid(&ids), c.vnodes, c.rf);
    let mut after = before.clone();
    after.add_node(ReplicaId::new(c.joiner));
    let ring = Arc::new(RwLock::new(before.clone()));
    let mut members = ids.clone();
    members.push(c.joiner);
    let peers: HashMap<ReplicaId, String> = members.iter().filter(|j| **j != sender).map(|j| (ReplicaId::new(*j), format!("h{}:1", j))).collect();
    let cfg = partitioned_config(sender, peers.values().cloned().collect(), c.rf, c.vnodes);
    let router = GossipRouter::new(ring.clone(), ReplicaId::new(sender), peers, true);
    let mut gs = GossipState::with_router(cfg, router);
    let batch = batch_keys(std::slice::from_ref(&c.batch), u16::MAX).pop().unwrap_or_default();
    let deltas: Vec<ReplicationDelta> = batch.iter().map(|(k, t)| mk_delta(k, *t, sender, &before, &members)).collect();
    let (tx, rx) = std::sync::mpsc::channel::<()>();
    let r2 = ring.clone();
    let joiner = c.joiner;
    let writer = std::thread::spawn(move || {
        let mut g = r2.write().expect("ring lock");
        let _ = tx.send(());
        std::thread::sleep(std::time::Duration::from_millis(15));
        g.add_node(ReplicaId::new(joiner));
    });
    let _ = rx.recv();
    gs.queue_deltas(deltas);
    let out = gs.drain_outbound();
    let _ = writer.join();
    let got = outbound_deliveries(&out, sender, &members)?;
    let want_before = expected_deliveries(&before, sender, &batch);
    let want_after = expected_deliveries(&after, sender, &batch);
    if got != want_before && got != want_after {
        return Err(format!(
            "membership {:?} vnodes {} rf {} sender {}: a batch of {} deltas queued while node {} was joining (ring write-locked) was routed neither by the ring before nor by the ring after the join.\n    before:{}\n    after:{}\n    queued:{}",
            ids,
            c.vnodes,
            c.rf,
            sender,
            batch.len(),
            c.joiner,
            show_deliveries(&want_before),
            show_deliveries(&want_after),
            show_deliveries(&got)
        ));
    }
    ctx.add_evaluations(batch.len() as u64);
    if ids.len() >= 3 && c.rf > 0 && c.rf < ids.len() {
        ctx.nontrivial(&(ids, c.vnodes, c.rf, c.joiner, c.batch.clone()));
    }
    Ok(())
}

// ---------------------------------------------------------------------------------------
// (5) the production gossip server (receiving side)
// ---------------------------------------------------------------------------------------

#[derive(Clone, Debug, Serialize, Deserialize)]
struct FrameSpec {
    /// 0,1 TargetedDelta  2 DeltaBatch  3 Heartbeat  4 SyncResponse  5 SyncRequest
    kind: u8,
    /// (key pool index, value padding length)
    deltas: Vec<(u16, u16)>,
}

#[derive(Clone, Debug, Serialize, Deserialize)]
struct ServerCase {
    frames: Vec<FrameSpec>,
    /// where the byte stream is cut into separate writes (u16 / 65536 of its length)
    cuts: Vec<u16>,
}

fn padded_tag(d: &ReplicationDelta) -> Result<(String, u32, usize), String> {
    let v = d.value.get().ok_or_else(|| format!("delta for key {:?} lost its value", d.key))?;
    let s = String::from_utf8_lossy(v.as_bytes()).to_string();
    let (t, pad) = s
        .strip_prefix('t')
        .and_then(|r| r.split_once(':'))
        .ok_or_else(|| format!("delta for key {:?} carries an unknown value", d.key))?;
    Ok((d.key.clone(), t.parse::<u32>().map_err(|e| e.to_string())?, pad.len()))
}

enum ServerOutcome {
    Received(Vec<(String, u32, usize)>),
    Inconclusive(String),
}

/// `GossipManager::start_server` binds 3001 + replica id itself, so the harness can only *probe*
/// for a free port, release it and let the server bind it again. Cases run on 16 worker threads:
/// two cases probing at the same moment can be handed the same port, one server then fails to
/// listen and its client talks to the OTHER case's server (seen once, on a fresh copy of the
/// sandbox: one case received 0 of 7 deltas, its neighbour 24 instead of 17). The cases of this
/// sub-check therefore run one at a time.
static SERVER_CASE_LOCK: std::sync::Mutex<()> = std::sync::Mutex::new(());

fn run_server_case(c: &ServerCase) -> Result<(Vec<(String, u32, usize)>, ServerOutcome), String> {
    let _one_at_a_time = SERVER_CASE_LOCK.lock().unwrap_or_else(|p| p.into_inner());
    use redis_sim::production::GossipManager;
    use tokio::io::{AsyncReadExt, AsyncWriteExt};
    use tokio::net::{TcpListener, TcpStream};
    // the byte stream and what the callback must see
    let mut expected: Vec<(String, u32, usize)> = Vec::new();
    let mut stream_bytes: Vec<u8> = Vec::new();
    let mut tag = 0u32;
    let src = ReplicaId::new(7);
    // every delta of this case carries a nonce (process id and case number) as its Lamport time:
    // a delta that reaches our callback with another nonce came over a connection that was not
    // ours (another process probing the same port at the same moment) - the case is then
    // inconclusive, not a violation
    static CASE_NO: std::sync::atomic::AtomicU64 = std::sync::atomic::AtomicU64::new(1);
    let nonce: u64 = ((std::process::id() as u64) << 24) | (CASE_NO.fetch_add(1, std::sync::atomic::Ordering::Relaxed) & 0xFF_FFFF);
    for (fi, f) in c.frames.iter().enumerate() {
        let deltas: Vec<ReplicationDelta> = f
            .deltas
            .iter()
            .map(|(ki, len)| {
                tag += 1;
                let key = key_at(*ki).to_string();
                let v = ReplicatedValue::with_value(
                    SDS::from_str(&format!("t{}:{}", tag, "x".repeat(*len as usize))),
                    LamportClock { time: nonce, replica_id: src },
                );
                ReplicationDelta::new(key, v, src)
            })
            .collect();
        let carried: Vec<(String, u32, usize)> = deltas.iter().map(padded_tag).collect::<Result<_, _>>()?;
        let msg = match f.kind % 6 {
            0 | 1 => GossipMessage::new_targeted_delta(src, ReplicaId::new(2), deltas, fi as u64),
            2 => GossipMessage::new_delta_batch(src, deltas, fi as u64),
            3 => GossipMessage::new_heartbeat(src, fi as u64),
            4 => GossipMessage::SyncResponse {
                source_replica: src,
                deltas,
            },
            _ => GossipMessage::SyncRequest {
                source_replica: src,
                known_versions: f.deltas.iter().map(|(k, l)| (key_at(*k).to_string(), *l as u64)).collect(),
            },
        };
        // what the server hands to the callback: the deltas of delta-carrying messages
        if matches!(f.kind % 6, 0 | 1 | 2 | 4) {
            expected.extend(carried);
        }
        let data = msg.serialize().map_err(|e| e.to_string())?;
        stream_bytes.extend_from_slice(&(data.len() as u32).to_be_bytes());
        stream_bytes.extend_from_slice(&data);
    }
    let mut cuts: Vec<usize> = c.cuts.iter().map(|x| (*x as usize * (stream_bytes.len() + 1)) >> 16).collect();
    cuts.sort();
    cuts.push(stream_bytes.len());
    let outcome = vcore::block_on(async {
        // start_server listens on 3001 + replica_id: pick a replica id whose port is free now
        let port = match TcpListener::bind("127.0.0.1:0").await.and_then(|l| l.local_addr()) {
            Ok(a) if a.port() > 3002 => a.port(),
            Ok(_) => return ServerOutcome::Inconclusive("port".into()),
            Err(e) => return ServerOutcome::Inconclusive(format!("bind: {}", e)),
        };
        let cfg = ReplicationConfig::new_cluster((port - 3001) as u64, vec![]);
        let got: Arc<std::sync::Mutex<Vec<(String, u32, usize)>>> = Arc::new(std::sync::Mutex::new(Vec::new()));
        let bad: Arc<std::sync::Mutex<Option<String>>> = Arc::new(std::sync::Mutex::new(None));
        let (g2, b2) = (got.clone(), bad.clone());
        let foreign = Arc::new(std::sync::atomic::AtomicBool::new(false));
        let f2 = foreign.clone();
        let server = tokio::spawn(GossipManager::start_server(
            cfg,
            Arc::new(move |deltas: Vec<ReplicationDelta>| {
                for d in &deltas {
                    if d.value.timestamp.time != nonce {
                        f2.store(true, std::sync::atomic::Ordering::SeqCst);
                        continue;
                    }
                    match padded_tag(d) {
                        Ok(x) => g2.lock().unwrap().push(x),
                        Err(e) => *b2.lock().unwrap() = Some(e),
                    }
                }
            }),
        ));
        // connect (the listener appears as soon as the server task has run)
        let mut sock = None;
        for _ in 0..2000 {
            if server.is_finished() {
                return ServerOutcome::Inconclusive("server: could not listen".into());
            }
            match TcpStream::connect(("127.0.0.1", port)).await {
                Ok(s) => {
                    sock = Some(s);
                    break;
                }
                Err(_) => tokio::time::sleep(std::time::Duration::from_millis(1)).await,
            }
        }
        let Some(mut sock) = sock else {
            server.abort();
            return ServerOutcome::Inconclusive("connect".into());
        };
        let io = async {
            let mut last = 0usize;
            for &cut in &cuts {
                if cut > last {
                    sock.write_all(&stream_bytes[last..cut]).await?;
                    sock.flush().await?;
                    tokio::task::yield_now().await;
                    last = cut;
                }
            }
            // half-close: the handler reads EOF after the last frame, returns and drops its socket;
            // our read side then sees EOF — everything before has been handed to the callback
            sock.shutdown().await?;
            let mut rest = Vec::new();
            sock.read_to_end(&mut rest).await?;
            Ok::<(), std::io::Error>(())
        };
        let r = tokio::time::timeout(std::time::Duration::from_secs(20), io).await;
        // the accept loop never returns by itself: a finished server task means it could not bind
        // (someone else owns the port) and whatever we talked to was not our server
        let server_died = server.is_finished();
        server.abort();
        if server_died {
            return ServerOutcome::Inconclusive("server: exited (could not listen); the peer we reached was not ours".into());
        }
        if foreign.load(std::sync::atomic::Ordering::SeqCst) {
            return ServerOutcome::Inconclusive("a connection that was not ours delivered deltas to this server".into());
        }
        match r {
            Err(_) => ServerOutcome::Inconclusive("timeout".into()),
            Ok(Err(e)) => ServerOutcome::Inconclusive(format!("io: {}", e.kind())),
            Ok(Ok(())) => {
                if let Some(e) = bad.lock().unwrap().take() {
                    return ServerOutcome::Received(vec![(format!("<{}>", e), 0, 0)]);
                }
                let v = got.lock().unwrap().clone();
                ServerOutcome::Received(v)
            }
        }
    });
    Ok((expected, outcome))
}

fn check_server_case(c: &ServerCase, ctx: &mut CaseCtx<'_>) -> Result<(), String> {
    if c.frames.is_empty() {
        return Ok(());
    }
    let (expected, outcome) = run_server_case(c)?;
    let got = match outcome {
        ServerOutcome::Received(g) => g,
        ServerOutcome::Inconclusive(why) => {
            ctx.abstain();
            ctx.label(&format!("inconclusive:{}", why.split(':').next().unwrap_or("")));
            return Ok(());
        }
    };
    if got != expected {
        let at = got.iter().zip(expected.iter()).position(|(a, b)| a != b).unwrap_or(got.len().min(expected.len()));
        let show = |v: &Vec<(String, u32, usize)>| {
            v.iter().skip(at.saturating_sub(1)).take(4).map(|(k, t, l)| format!("{:?}#{}(+{}B)", k, t, l)).collect::<Vec<_>>().join(", ")
        };
        return Err(format!(
            "GossipManager::start_server: {} frames over one connection carried {} deltas, the delta callback received {}; first difference at delta {}:\n    sent:     … {}\n    received: … {}\n    frame sizes (deltas, padding): {:?}",
            c.frames.len(),
            expected.len(),
            got.len(),
            at,
            show(&expected),
            show(&got),
            c.frames.iter().map(|f| (f.kind % 6, f.deltas.len(), f.deltas.iter().map(|d| d.1 as usize).sum::<usize>())).collect::<Vec<_>>()
        ));
    }
    ctx.add_evaluations(expected.len() as u64);
    let sizes: BTreeSet<usize> = c
        .frames
        .iter()
        .filter(|f| matches!(f.kind % 6, 0 | 1 | 2 | 4) && !f.deltas.is_empty())
        .map(|f| f.deltas.iter().map(|d| d.1 as usize + 40).sum())
        .collect();
    if sizes.len() >= 2 {
        ctx.nontrivial(&format!("{:?}", c.frames));
    }
    Ok(())
}

// ---------------------------------------------------------------------------------------

fn main() {
    let args = vcore::parse_args();
    let s = Session::new(
        "C19",
        Level::Exploration,
        "memberships of 1..=12 distinct ids from a sparse u64 id space (pool of boundary ids, 1..=16, arbitrary u64), virtual nodes 1..=200, rf 0..=6, \
         ~200 keys per membership from KEY_POOL + 1000 generated keys + generated strings; join orders: all n! for n<=5 (n<=6 in perm_exhaustive), \
         systematic + generated above; 1..=4 add/remove-one-node steps; rf overrides 0..=13; router: every member as sender, 1..=3 batches of 0..=39 deltas; \
         actor: one member of 1..=8 ids as sender, 1..=20 mailbox operations (delta batches/bursts, joins, leaves, set_router, drains, ticks, control messages). \
         non-trivial = n >= 3 and 0 < rf < n (router checks: and at least one delta); distinct by (membership, vnodes, rf, steps | batches)",
        &args,
    );
    s.assume("the oracle for routing is the ring itself: targets(key) = HashRing::get_replicas(key) minus the sender (as the property's observe_at states)");
    s.assume("two virtual nodes never hash to the same 64-bit ring position (SipHash-1-3 with the fixed zero key; <= 2400 positions per ring)");
    s.assume("actor_mailbox: the actor task runs only while the case awaits (fresh current-thread tokio runtime per case), so everything enqueued between two synchronisation points is in the mailbox before the actor works; a membership change is performed as the in-tree simulator wires it: routers share one Arc<RwLock<HashRing>> with the membership layer, the ring is updated first, then the router for the new membership is handed to set_router");
    s.assume("from_config convention: replica ids are 1..=n and config.peers holds the other nodes' addresses in ascending id order (the only reading of 'numbered sequentially ... starting from 1, excluding self')");

    // ---- known finding probe: 3 nodes, sender 1, one key owned by everybody
    s.probe(
        KF01,
        json!({"cluster": [1, 2, 3], "sender": 1, "rf": 3, "peers": [addr(2), addr(3)], "key": "k0"}),
        || {
            let case = FromConfigCase {
                n: 3,
                vnodes: 16,
                rf: 3,
                batches: vec![vec![0]],
                key_space: u16::MAX,
            };
            s.strict_eval(|ctx| check_from_config_case(&case, ctx)).err()
        },
    );

    // ---- KF-C19-02: 3 nodes, node 1 gossips one key owned by everybody through the production loop
    s.probe(
        KF02,
        json!({"cluster": [1, 2, 3], "sender": 1, "rf": 3, "key": "k0", "api": "GossipManager::start_gossip_loop / start_gossip_loop_with_actor with a GossipState whose router is correct"}),
        || {
            for actor in [false, true] {
                let case = ManagerCase {
                    n: 3,
                    sender: 1,
                    vnodes: 16,
                    rf: 3,
                    batch: vec![0],
                    key_space: u16::MAX,
                    actor,
                };
                if let Err(e) = s.strict_eval(|ctx| check_manager_case(&case, ctx)) {
                    return Some(e);
                }
            }
            None
        },
    );

    // ---- (1) exhaustive join orders up to 6 nodes
    s.describe_check(
        "perm_exhaustive",
        "memberships of 1..=6 ids (sequential, sparse, huge), vnodes in a fixed list, rf 0..=6: every one of the n! join orders, every pool key, rf overrides 0..=7",
    );
    let id_sets: Vec<Vec<u64>> = {
        let mut v: Vec<Vec<u64>> = Vec::new();
        for n in 1..=6usize {
            v.push((1..=n as u64).collect());
            v.push([0u64, u64::MAX, 1 << 32, 255, 65536, 7][..n].to_vec());
            v.push([1000u64, 3, (1 << 63), 12, u64::MAX - 1, 256][..n].to_vec());
            if s.thorough() {
                v.push([9u64, 8, 7, 6, 5, 4][..n].to_vec());
                v.push([(1u64 << 40), (1 << 31), 100, 2, 65535, 13][..n].to_vec());
            }
        }
        v
    };
    let vnode_list: Vec<u32> = if s.thorough() {
        vec![1, 2, 3, 7, 16, 50, 100, 150, 199, 200]
    } else {
        vec![1, 2, 7, 50, 200]
    };
    let nkeys = if s.thorough() { key_pool().len() } else { 17 + 200 };
    let scale_pct = std::env::var("VERIF_SCALE").ok().and_then(|x| x.parse::<usize>().ok());
    let mut perm_items: Vec<PermCase> = Vec::new();
    for ids in &id_sets {
        for &v in &vnode_list {
            for rf in 0..=6usize {
                // the n! join orders of one configuration are split over several work items
                let parts = match ids.len() {
                    6 => 12,
                    5 => 4,
                    _ => 1,
                };
                for part in 0..parts {
                    perm_items.push(PermCase {
                        ids: ids.clone(),
                        vnodes: v,
                        rf,
                        keys: nkeys,
                        part,
                        parts,
                    });
                }
            }
        }
    }
    // the runner hands out chunks of 64 items: a fixed shuffle spreads the heavy (n = 6) items
    // evenly over the chunks
    let mut keyed: Vec<(u64, PermCase)> = perm_items
        .into_iter()
        .enumerate()
        .map(|(i, c)| (vcore::mix64(i as u64 ^ 0xC19C19), c))
        .collect();
    keyed.sort_by_key(|(k, _)| *k);
    let mut perm_items: Vec<PermCase> = keyed.into_iter().map(|(_, c)| c).collect();
    if let Some(p) = scale_pct {
        // sensitivity runs: a prefix of the shuffled list
        let keep = (perm_items.len() * p / 100).max(1);
        perm_items.truncate(keep);
    }
    s.run_enumerated("perm_exhaustive", perm_items.into_iter(), check_perm_exhaustive);
    s.set_exhaustive(false);

    // ---- (2) generated memberships
    s.describe_check(
        "ring_placement",
        "generated membership/vnodes/rf/keys; list shape; join-order independence; rf overrides are heads of one preference order; add/remove one node: lists not involving the node unchanged, others = old list with the node inserted and the tail dropped; ring after changes = fresh ring",
    );
    let thorough = s.thorough();
    s.run_cases(
        "ring_placement",
        s.scale(4_000, 100_000),
        || {
            if thorough {
                ring_case(12, 600..=1000).boxed()
            } else {
                ring_case(12, 150..=250).boxed()
            }
        },
        check_ring_case,
    );

    // ---- (3) router
    s.describe_check(
        "router_new",
        "GossipRouter::new(full peer map, selective) for every member as sender: route_deltas / route_with_stats / GossipState::with_router+queue_deltas+drain_outbound deliver each delta to get_replicas(key) minus sender exactly once and to nobody else",
    );
    s.run_cases("router_new", s.scale(15_000, 1_000_000), router_case, check_router_case);

    s.describe_check(
        "router_lifecycle",
        "one long-lived GossipRouter (selective) per case: built with a generated subset of the members' addresses, for a sender that is a ring member or (1 in 4) a node outside the ring; 2..13 steps over {route a batch from a 12-key space, update_peer, remove_peer} with no ring change: at every routing step each delta goes exactly to get_replicas(key) minus sender minus the owners whose address is unknown at that moment",
    );
    s.run_cases("router_lifecycle", s.scale(10_000, 600_000), router_life_case, check_router_life);

    s.describe_check(
        "router_from_config",
        "clusters 1..=n (n <= 12) configured through ReplicationConfig::new_partitioned_cluster + GossipRouter::from_config for every sender: peer table = the other nodes under their own ids/addresses; same delivery oracle as router_new",
    );
    s.run_cases(
        "router_from_config",
        s.scale(6_000, 400_000),
        || {
            (
                1u64..=12,
                prop_oneof![1 => Just(1u32), 2 => 2u32..=20, 3 => 21u32..=200, 1 => Just(150u32)],
                0usize..=6,
                batches_strategy(),
                prop_oneof![1 => Just(4u16), 1 => Just(24u16), 3 => Just(u16::MAX)],
            )
                .prop_map(|(n, vnodes, rf, batches, key_space)| FromConfigCase {
                    n,
                    vnodes,
                    rf,
                    batches,
                    key_space,
                })
        },
        check_from_config_case,
    );

    s.describe_check(
        "gossip_manager_loop",
        "clusters 1..=n (n 2..=6), one sender, both production sender loops, GossipState/GossipActor with a correct selective router, every peer a loopback TCP listener: frames received per peer = get_replicas(key) minus sender, nothing to anybody else; a heartbeat broadcast in the next tick closes every stream (structural termination); socket trouble = abstain",
    );
    s.assume("gossip_manager_loop uses loopback TCP listeners (127.0.0.1, ephemeral ports): the loops' peer map is a local variable, the address that receives the bytes is the only observable; if sockets are unavailable the sub-check abstains");
    s.run_cases(
        "gossip_manager_loop",
        s.scale(100, 3_000),
        || {
            (
                2u64..=6,
                any::<u16>(),
                prop_oneof![1 => Just(1u32), 2 => 2u32..=20, 2 => 21u32..=200],
                0usize..=6,
                proptest::collection::vec(any::<u16>(), 0..16),
                prop_oneof![1 => Just(4u16), 3 => Just(u16::MAX)],
                any::<bool>(),
            )
                .prop_map(|(n, si, vnodes, rf, batch, key_space, actor)| ManagerCase {
                    n,
                    sender: 1 + ((si as u64 * n) >> 16),
                    vnodes,
                    rf,
                    batch,
                    key_space,
                    actor,
                })
        },
        check_manager_case,
    );

    s.describe_check(
        "route_during_join",
        "a batch is queued (GossipState::queue_deltas) while another thread holds the ring's write lock for a joining node: the drained messages must equal get_replicas(key) minus sender under the ring before or after the join — a consumed batch is never handed to nobody",
    );
    s.run_cases(
        "route_during_join",
        s.scale(60, 2_000),
        || {
            (
                membership(8),
                prop_oneof![1 => Just(1u32), 2 => 2u32..=50, 1 => Just(150u32)],
                1usize..=4,
                id_strategy(),
                proptest::collection::vec(any::<u16>(), 1..30),
            )
                .prop_map(|(ids, vnodes, rf, joiner, batch)| LockedCase { ids, vnodes, rf, joiner, batch })
        },
        check_locked_case,
    );

    s.describe_check(
        "actor_mailbox",
        "GossipActor::spawn_with_router / spawn + set_router for one member of a generated membership (1..=8 ids), driven through GossipActorHandle clones with 1..=20 generated mailbox operations: queue_deltas batches (0..=29 deltas) and one-delta-per-write bursts, joins/leaves (shared ring add_node/remove_node, then set_router with a router for the new membership, built by GossipRouter::new, or new/from_config + update_peer/remove_peer), set_router for the unchanged membership, DrainOutbound without waiting, gossip-loop ticks and drain_outbound().await (the only points where the actor runs; current-thread runtime), advance_epoch, queue_heartbeat, queue_deltas_broadcast. Per delta: handed exactly once to get_replicas(key) minus sender — exactly, when the placement of the key is the same under every membership between enqueueing and routing (so a batch enqueued behind a join's set_router must reach the joined node); for updates in flight during a change that moves the key: at least to the replicas responsible under all of these memberships, to nobody who is responsible under none",
    );
    s.run_cases("actor_mailbox", s.scale(5_000, 250_000), actor::actor_case, actor::check_actor_case);

    s.describe_check(
        "gossip_server_receive",
        "GossipManager::start_server on a loopback port (3001 + a replica id chosen so that the port is free); 1..=12 generated frames (TargetedDelta, DeltaBatch, SyncResponse, Heartbeat, SyncRequest; 0..=6 deltas each with 0..=4000 bytes of value padding, so long and short frames alternate) written over ONE connection in generated chunks; half-close and wait for the server's close (structural); the delta callback must have received exactly the deltas sent, in order",
    );
    s.run_cases(
        "gossip_server_receive",
        s.scale(100, 3_000),
        || {
            let pad = prop_oneof![3 => 0u16..8, 2 => 8u16..200, 2 => 200u16..1500, 1 => 1500u16..=4000];
            let frame = (0u8..6, proptest::collection::vec((any::<u16>(), pad), 0..=6)).prop_map(|(kind, deltas)| FrameSpec { kind, deltas });
            (proptest::collection::vec(frame, 1..=12), proptest::collection::vec(any::<u16>(), 0..4)).prop_map(|(frames, cuts)| ServerCase { frames, cuts })
        },
        check_server_case,
    );

    s.finish();
}
