//! (6) the production gossip ACTOR (`GossipActor` / `GossipActorHandle`) — the second entry point
//! to selective gossip next to `GossipState`/`GossipManager`.
//!
//! The actor owns the `GossipState`; shards, the membership layer and the gossip loop talk to it
//! through the handle (`queue_deltas`, `set_router`, `drain_outbound`, …). The mailbox is an
//! unbounded mpsc channel, the actor processes it in order. The property quantifies over "all
//! batches routed from every sender", also while membership changes, so this tier generates
//! MAILBOX SEQUENCES: bursts of `QueueDeltas` (batches and one-delta-per-write bursts, as
//! `ReplicatedShardedState::execute` produces them), joins and leaves (shared ring updated, then
//! `SetRouter` with a router that knows the new membership — ring and router share one
//! `Arc<RwLock<HashRing>>` as in `MultiNodeSimulation::new_partitioned`), control messages
//! (`AdvanceEpoch`, `QueueHeartbeat`, `QueueDeltasBroadcast`, `DrainOutbound` without waiting) and
//! synchronisation points (the gossip loop's tick `advance_epoch; queue_deltas; drain_outbound().await`).
//!
//! The interleaving is harness-owned: every case runs on a fresh current-thread runtime, the
//! actor task can only run while the case awaits, and the case awaits only at `Sync`/`Tick` ops
//! (and at the end). Everything between two such points is enqueued back to back and is in the
//! mailbox when the actor starts to work. A `DrainOutbound` that is not to be waited for is sent
//! by polling the `drain_outbound()` future exactly once (the send happens in the first poll).
//!
//! Oracle (per delta, from the property text): the update is handed to every responsible replica
//! other than the sender and to nobody else, exactly once. "Responsible" is evaluated with the
//! ring itself (`get_replicas`), for the memberships in force between the moment the batch was
//! ENQUEUED and the moment the mailbox was processed (the next synchronisation point):
//!   * placement of the key identical under all of them (always the case when no membership change
//!     was enqueued behind the batch): deliveries == get_replicas(key) minus sender, exactly.
//!     In particular a batch enqueued AFTER a join's `SetRouter` must reach the joined node.
//!   * the update was in flight during a change that moves the key: every node that is responsible
//!     under ALL of these memberships must get it, nobody who is responsible under NONE of them may.
//! The unchanged actor satisfies this by construction: it routes a batch with the last router
//! enqueued before it (mailbox order) and the shared ring as it is at processing time.

use crate::*;
use std::future::Future;
use std::pin::Pin;
use std::task::Poll;

#[derive(Clone, Debug, Serialize, Deserialize)]
pub enum MailOp {
    /// `handle.queue_deltas(batch)` — key pool indices (an empty batch sends nothing)
    Queue(Vec<u16>),
    /// a write burst as the shards produce it: one `QueueDeltas` message per write
    Burst(Vec<u16>),
    /// a node joins: shared ring `add_node`, then `set_router(router that knows the node)`
    Join(u64),
    /// a member other than the sender leaves (u16 / 65536 of the sorted others): `remove_node`, `set_router`
    Leave(u16),
    /// `set_router` with a router for the unchanged membership
    Reinstall,
    /// `DrainOutbound` enqueued but not waited for (its answer is collected at the next sync)
    Drain,
    /// the gossip loop's tick: `advance_epoch(); queue_deltas(batch); drain_outbound().await`
    Tick(Vec<u16>),
    /// `drain_outbound().await`: the actor works off the mailbox
    Sync,
    AdvanceEpoch,
    Heartbeat,
    /// `queue_deltas_broadcast(batch)` (the router is bypassed on purpose)
    Broadcast(Vec<u16>),
}

#[derive(Clone, Debug, Serialize, Deserialize)]
pub struct ActorCase {
    ids: Vec<u64>,
    vnodes: u32,
    rf: usize,
    /// u16 / 65536 of the membership: which member runs the actor
    sender_idx: u16,
    /// 0: every router = `GossipRouter::new(full current peer map)`; 1: `GossipRouter::new(initial
    /// peer map)` + the `update_peer` / `remove_peer` history; 2: `GossipRouter::from_config` + history
    /// (only for clusters 1..=n, otherwise as 1)
    router_build: u8,
    self_in_peers: bool,
    /// `GossipActor::spawn` (no router, broadcast fallback) and a later `set_router`, instead of `spawn_with_router`
    start_without_router: bool,
    /// with `start_without_router`: the op index (u16 / 65536 of len + 1) before which the router is installed
    install_at: u16,
    key_space: u16,
    ops: Vec<MailOp>,
}

fn mail_op() -> impl Strategy<Value = MailOp> {
    prop_oneof![
        5 => proptest::collection::vec(any::<u16>(), 0..30).prop_map(MailOp::Queue),
        3 => proptest::collection::vec(any::<u16>(), 1..8).prop_map(MailOp::Burst),
        3 => id_strategy().prop_map(MailOp::Join),
        2 => any::<u16>().prop_map(MailOp::Leave),
        1 => Just(MailOp::Reinstall),
        2 => Just(MailOp::Drain),
        1 => proptest::collection::vec(any::<u16>(), 0..20).prop_map(MailOp::Tick),
        1 => Just(MailOp::Sync),
        1 => Just(MailOp::AdvanceEpoch),
        1 => Just(MailOp::Heartbeat),
        1 => proptest::collection::vec(any::<u16>(), 0..10).prop_map(MailOp::Broadcast),
    ]
}

pub fn actor_case() -> impl Strategy<Value = ActorCase> {
    (
        prop_oneof![
            3 => membership(8),
            2 => (1u64..=8).prop_map(|n| (1..=n).collect::<Vec<u64>>()),
        ],
        prop_oneof![1 => Just(1u32), 2 => 2u32..=20, 3 => 21u32..=200, 1 => Just(150u32)],
        0usize..=5,
        any::<u16>(),
        0u8..3,
        any::<bool>(),
        prop_oneof![4 => Just(false), 1 => Just(true)],
        any::<u16>(),
        prop_oneof![1 => Just(4u16), 1 => Just(24u16), 3 => Just(u16::MAX)],
        proptest::collection::vec(mail_op(), 1..=20),
    )
        .prop_map(
            |(ids, vnodes, rf, sender_idx, router_build, self_in_peers, start_without_router, install_at, key_space, ops)| ActorCase {
                ids,
                vnodes,
                rf,
                sender_idx,
                router_build,
                self_in_peers,
                start_without_router,
                install_at,
                key_space,
                ops,
            },
        )
}

fn peer_addr(id: u64) -> String {
    format!("node-{}.gossip:7000", id)
}

#[derive(Clone, Copy, PartialEq, Debug)]
enum Mode {
    /// enqueued while a selective router was the last one installed
    Selective,
    /// enqueued before any router was installed (documented fallback: broadcast) or through
    /// `queue_deltas_broadcast`
    Broadcast,
}

struct BatchRec {
    /// position of the message in the mailbox sequence (for the report)
    msg_no: usize,
    items: Vec<(String, u32)>,
    mode: Mode,
    /// ring version when enqueued / when the mailbox was worked off
    v_enq: usize,
    v_proc: Option<usize>,
    /// router version (index into `routers`) in force when enqueued / at the start of the segment
    r_enq: usize,
    r_seg: usize,
}

struct RouterRec {
    /// peers the router has an address for (without the sender)
    peers: BTreeSet<u64>,
    /// a non-empty QueueDeltas message was enqueued earlier in the same segment
    deltas_before_in_segment: bool,
}

type DrainFut = Pin<Box<dyn Future<Output = Vec<redis_sim::replication::RoutedMessage>>>>;

/// Everything the actor handed out, per delta tag.
#[derive(Default)]
struct Handed {
    targeted: BTreeMap<u32, Vec<u64>>,
    broadcast: BTreeMap<u32, usize>,
}

fn collect(msgs: &[redis_sim::replication::RoutedMessage], sender: u64, h: &mut Handed) -> Result<(), String> {
    for m in msgs {
        match (&m.target, &m.message) {
            (
                Some(t),
                GossipMessage::TargetedDelta {
                    source_replica,
                    target_replica,
                    deltas,
                    ..
                },
            ) => {
                if t != target_replica {
                    return Err(format!(
                        "outbound message addressed to node {} carries target_replica {}",
                        t.0, target_replica.0
                    ));
                }
                if source_replica.0 != sender {
                    return Err(format!("outbound message of sender {} names source_replica {}", sender, source_replica.0));
                }
                if t.0 == sender {
                    return Err(format!("sender {} queued a targeted message to itself", sender));
                }
                if deltas.is_empty() {
                    return Err(format!("empty targeted message to node {}", t.0));
                }
                for d in deltas {
                    let (_, tag) = delta_tag(d)?;
                    h.targeted.entry(tag).or_default().push(t.0);
                }
            }
            (None, GossipMessage::DeltaBatch { source_replica, deltas, .. }) => {
                if source_replica.0 != sender {
                    return Err(format!("broadcast message of sender {} names source_replica {}", sender, source_replica.0));
                }
                for d in deltas {
                    let (_, tag) = delta_tag(d)?;
                    *h.broadcast.entry(tag).or_default() += 1;
                }
            }
            (None, GossipMessage::Heartbeat { .. }) => {}
            (t, other) => {
                return Err(format!(
                    "unexpected outbound message target={:?} message={:?}",
                    t.map(|r| r.0),
                    other
                ));
            }
        }
    }
    Ok(())
}

#[allow(unused_assignments)]
pub fn check_actor_case(c: &ActorCase, ctx: &mut CaseCtx<'_>) -> Result<(), String> {
    use redis_sim::production::GossipActor;
    let ids = dedup(c.ids.clone());
    let n = ids.len();
    if n == 0 || c.ops.is_empty() {
        return Ok(());
    }
    let sender = {
        let mut s = ids.clone();
        s.sort();
        s[(c.sender_idx as usize * n) >> 16]
    };
    let sequential = ids.iter().enumerate().all(|(i, &x)| x == i as u64 + 1);
    let build = if c.router_build == 2 && !sequential { 1 } else { c.router_build % 3 };
    let initial_others: Vec<u64> = {
        let mut o: Vec<u64> = ids.iter().copied().filter(|j| *j != sender).collect();
        o.sort();
        o
    };
    let cfg = partitioned_config(sender, initial_others.iter().map(|j| peer_addr(*j)).collect(), c.rf, c.vnodes);
    let ring = Arc::new(RwLock::new(HashRing::new(rid(&ids), c.vnodes, c.rf)));

    // membership history (for the update_peer / remove_peer way of building routers)
    let mut history: Vec<(bool, u64)> = Vec::new();
    let mk_router = |members: &[u64], history: &[(bool, u64)]| -> GossipRouter {
        let full = |ms: &[u64]| -> HashMap<ReplicaId, String> {
            ms.iter()
                .filter(|&&j| c.self_in_peers || j != sender)
                .map(|&j| (ReplicaId::new(j), peer_addr(j)))
                .collect()
        };
        match build {
            0 => GossipRouter::new(ring.clone(), ReplicaId::new(sender), full(members), true),
            b => {
                let mut r = if b == 2 {
                    GossipRouter::from_config(&cfg, ring.clone())
                } else {
                    GossipRouter::new(ring.clone(), ReplicaId::new(sender), full(&ids), true)
                };
                for &(join, x) in history {
                    if join {
                        if x != sender || c.self_in_peers {
                            r.update_peer(ReplicaId::new(x), peer_addr(x));
                        }
                    } else {
                        r.remove_peer(ReplicaId::new(x));
                    }
                }
                r
            }
        }
    };

    let mut members = ids.clone();
    let mut snapshots: Vec<HashRing> = vec![ring.read().map_err(|_| "ring lock poisoned".to_string())?.clone()];
    let mut member_sets: Vec<Vec<u64>> = vec![members.clone()];
    let peers_now = |members: &[u64]| -> BTreeSet<u64> { members.iter().copied().filter(|j| *j != sender).collect() };
    let mut routers: Vec<RouterRec> = vec![RouterRec {
        peers: if c.start_without_router { BTreeSet::new() } else { peers_now(&members) },
        deltas_before_in_segment: false,
    }];
    let mut batches: Vec<BatchRec> = Vec::new();
    let install_at = (c.install_at as usize * (c.ops.len() + 1)) >> 16;

    let mut joins = 0usize;
    let mut leaves = 0usize;
    let mut syncs = 0usize;

    let handed: Result<Handed, String> = vcore::block_on(async {
        let handle = if c.start_without_router {
            GossipActor::spawn(cfg.clone())
        } else {
            GossipActor::spawn_with_router(cfg.clone(), mk_router(&members, &history))
        };
        // shards and the gossip loop hold clones of the handle
        let handles = [handle.clone(), handle.clone()];
        let mut selective = !c.start_without_router;
        let mut pending: Vec<DrainFut> = Vec::new();
        let mut out: Vec<redis_sim::replication::RoutedMessage> = Vec::new();
        let mut tagctr = 0u32;
        let mut msg_no = 0usize;
        let mut seg_router = 0usize;
        let mut seg_has_deltas = false;

        // one QueueDeltas / QueueDeltasBroadcast message
        macro_rules! enqueue {
            ($h:expr, $idx:expr, $broadcast:expr) => {{
                let r = snapshots.last().expect("snapshot");
                let items: Vec<(String, u32)> = $idx
                    .iter()
                    .map(|&i| {
                        tagctr += 1;
                        let idx = if c.key_space == u16::MAX {
                            i
                        } else {
                            ((i % c.key_space) as u32 * 65535 / c.key_space as u32) as u16
                        };
                        (key_at(idx).to_string(), tagctr * 8 + (i as u32 / 31) % 8)
                    })
                    .collect();
                let deltas: Vec<ReplicationDelta> = items.iter().map(|(k, t)| mk_delta(k, *t, sender, r, &members)).collect();
                if !items.is_empty() {
                    msg_no += 1;
                    batches.push(BatchRec {
                        msg_no,
                        items,
                        mode: if $broadcast || !selective { Mode::Broadcast } else { Mode::Selective },
                        v_enq: snapshots.len() - 1,
                        v_proc: None,
                        r_enq: routers.len() - 1,
                        r_seg: seg_router,
                    });
                    if !$broadcast {
                        seg_has_deltas = true;
                    }
                }
                if $broadcast {
                    $h.queue_deltas_broadcast(deltas);
                } else {
                    $h.queue_deltas(deltas);
                }
            }};
        }
        macro_rules! install {
            ($h:expr) => {{
                msg_no += 1;
                $h.set_router(mk_router(&members, &history));
                selective = true;
                routers.push(RouterRec {
                    peers: peers_now(&members),
                    deltas_before_in_segment: seg_has_deltas,
                });
            }};
        }
        // send DrainOutbound now (first poll), take the answer later
        macro_rules! drain_nowait {
            ($h:expr) => {{
                msg_no += 1;
                let h = $h.clone();
                let mut f: DrainFut = Box::pin(async move { h.drain_outbound().await });
                let mut early = None;
                std::future::poll_fn(|cx| {
                    if let Poll::Ready(v) = f.as_mut().poll(cx) {
                        early = Some(v);
                    }
                    Poll::Ready(())
                })
                .await;
                match early {
                    // only when the mailbox is closed: the actor is gone
                    Some(_) => return Err("GossipActorHandle::drain_outbound answered without the actor running: the actor has stopped".to_string()),
                    None => pending.push(f),
                }
            }};
        }
        macro_rules! sync {
            ($h:expr) => {{
                drain_nowait!($h);
                for f in pending.drain(..) {
                    out.extend(f.await);
                }
                // the last DrainOutbound has been answered: everything enqueued so far is processed
                let v = snapshots.len() - 1;
                for b in batches.iter_mut().filter(|b| b.v_proc.is_none()) {
                    b.v_proc = Some(v);
                }
                seg_router = routers.len() - 1;
                seg_has_deltas = false;
                syncs += 1;
            }};
        }

        for (oi, op) in c.ops.iter().enumerate() {
            let h = &handles[oi % 2];
            if c.start_without_router && oi == install_at && !selective {
                install!(h);
            }
            match op {
                MailOp::Queue(b) => enqueue!(h, b, false),
                MailOp::Burst(b) => {
                    for i in b {
                        enqueue!(h, std::slice::from_ref(i), false);
                    }
                }
                MailOp::Broadcast(b) => enqueue!(h, b, true),
                MailOp::Join(x) => {
                    joins += 1;
                    ring.write().map_err(|_| "ring lock poisoned".to_string())?.add_node(ReplicaId::new(*x));
                    if !members.contains(x) {
                        members.push(*x);
                        snapshots.push(ring.read().map_err(|_| "ring lock poisoned".to_string())?.clone());
                        member_sets.push(members.clone());
                    }
                    history.push((true, *x));
                    install!(h);
                }
                MailOp::Leave(i) => {
                    let mut others: Vec<u64> = members.iter().copied().filter(|j| *j != sender).collect();
                    others.sort();
                    if !others.is_empty() {
                        leaves += 1;
                        let y = others[(*i as usize * others.len()) >> 16];
                        ring.write().map_err(|_| "ring lock poisoned".to_string())?.remove_node(ReplicaId::new(y));
                        members.retain(|m| *m != y);
                        snapshots.push(ring.read().map_err(|_| "ring lock poisoned".to_string())?.clone());
                        member_sets.push(members.clone());
                        history.push((false, y));
                    }
                    install!(h);
                }
                MailOp::Reinstall => install!(h),
                MailOp::Drain => drain_nowait!(h),
                MailOp::Tick(b) => {
                    msg_no += 1;
                    h.advance_epoch();
                    enqueue!(h, b, false);
                    sync!(h);
                }
                MailOp::Sync => sync!(h),
                MailOp::AdvanceEpoch => {
                    msg_no += 1;
                    h.advance_epoch();
                }
                MailOp::Heartbeat => {
                    msg_no += 1;
                    h.queue_heartbeat();
                }
            }
        }
        sync!(handle);
        syncs -= 1;
        if !handle.is_selective().await && selective {
            return Err("a selective router was installed with set_router, but GossipActorHandle::is_selective() answers false after the mailbox was worked off".to_string());
        }
        handle.shutdown().await;
        let mut handed = Handed::default();
        collect(&out, sender, &mut handed)?;
        Ok(handed)
    });
    let what = format!(
        "GossipActor of node {} (initial membership {:?}, vnodes {}, rf {}, routers built by {}{})",
        sender,
        ids,
        c.vnodes,
        c.rf,
        match build {
            0 => "GossipRouter::new(full peer map)",
            1 => "GossipRouter::new + update_peer/remove_peer",
            _ => "GossipRouter::from_config + update_peer/remove_peer",
        },
        if c.start_without_router { ", spawned without a router" } else { "" }
    );
    let handed = handed.map_err(|e| format!("{}: {}", what, e))?;

    // ---- oracle, per delta
    let mut evals = 0u64;
    let mut exact_keys = 0usize;
    let mut inflight_keys = 0usize;
    let mut reorder_observable = false;
    let mut reorder_observable_after_deltas = false;
    let mut known_tags: BTreeSet<u32> = BTreeSet::new();
    for b in &batches {
        let v_proc = b.v_proc.ok_or_else(|| "internal: batch without a synchronisation point".to_string())?;
        for (key, tag) in &b.items {
            known_tags.insert(*tag);
            evals += 1;
            let owners: Vec<BTreeSet<u64>> = (b.v_enq..=v_proc)
                .map(|v| snapshots[v].get_replicas(key).iter().map(|r| r.0).filter(|o| *o != sender).collect())
                .collect();
            let mut lower = owners[0].clone();
            let mut upper = owners[0].clone();
            for o in &owners[1..] {
                lower = lower.intersection(o).copied().collect();
                upper = upper.union(o).copied().collect();
            }
            let got_list = handed.targeted.get(tag).cloned().unwrap_or_default();
            let got: BTreeSet<u64> = got_list.iter().copied().collect();
            let nb = handed.broadcast.get(tag).copied().unwrap_or(0);
            let describe = || {
                format!(
                    "{}: delta #{} for key {:?} of mailbox message {} (enqueued under membership {:?}{}; mailbox worked off under membership {:?})",
                    what,
                    tag / 8,
                    key,
                    b.msg_no,
                    member_sets[b.v_enq],
                    if b.mode == Mode::Selective {
                        format!(", after a router that knows {:?} had been handed to set_router", routers[b.r_enq].peers)
                    } else {
                        ", broadcast".to_string()
                    },
                    member_sets[v_proc]
                )
            };
            if b.mode == Mode::Broadcast && nb >= 1 {
                // broadcast (no router yet / queue_deltas_broadcast): reaches every peer; not the selective path
                continue;
            }
            if b.mode == Mode::Selective && nb > 0 {
                return Err(format!(
                    "{} went out in a broadcast delta message although the batch was enqueued after a selective router had been installed: every peer would receive it, not only the owners",
                    describe()
                ));
            }
            if got.len() != got_list.len() {
                return Err(format!("{} was handed to a replica more than once: {:?}", describe(), got_list));
            }
            let starved: Vec<u64> = lower.difference(&got).copied().collect();
            let foreign: Vec<u64> = got.difference(&upper).copied().collect();
            if !starved.is_empty() || !foreign.is_empty() {
                let resp = if lower == upper {
                    format!("{:?} (get_replicas(key) minus sender, identical under every membership between enqueueing and routing)", lower)
                } else {
                    format!("{:?} under all memberships between enqueueing and routing, {:?} under at least one of them", lower, upper)
                };
                return Err(format!(
                    "{} was handed to {:?}. Responsible replicas other than the sender: {}. Starved owners: {:?}; handed to although not responsible: {:?}",
                    describe(),
                    got,
                    resp,
                    starved,
                    foreign
                ));
            }
            if lower == upper {
                exact_keys += 1;
            } else {
                inflight_keys += 1;
            }
            // would an actor that routed this batch with a router installed EARLIER in the same
            // segment (mailbox order not kept between SetRouter and QueueDeltas) hand it out differently?
            if b.mode == Mode::Selective && b.r_seg < b.r_enq && lower == upper {
                let now: BTreeSet<u64> = lower.intersection(&routers[b.r_enq].peers).copied().collect();
                for r in b.r_seg..b.r_enq {
                    let stale: BTreeSet<u64> = lower.intersection(&routers[r].peers).copied().collect();
                    if stale != now {
                        reorder_observable = true;
                        if routers[r + 1].deltas_before_in_segment {
                            reorder_observable_after_deltas = true;
                        }
                    }
                }
            }
        }
    }
    for tag in handed.targeted.keys().chain(handed.broadcast.keys()) {
        if !known_tags.contains(tag) {
            return Err(format!("{}: the actor handed out a delta (#{}) that was never queued", what, tag / 8));
        }
    }

    ctx.add_evaluations(evals);
    ctx.label(if c.start_without_router { "actor:spawn+set_router" } else { "actor:spawn_with_router" });
    ctx.label(match build {
        0 => "actor:router=new_full_map",
        1 => "actor:router=new+update_peer",
        _ => "actor:router=from_config+update_peer",
    });
    if joins > 0 {
        ctx.label("actor:join");
    }
    if leaves > 0 {
        ctx.label("actor:leave");
    }
    if syncs > 0 {
        ctx.label("actor:mid_sequence_sync");
    }
    if inflight_keys > 0 {
        ctx.label("actor:update_in_flight_during_move");
    }
    if exact_keys > 0 {
        ctx.label("actor:exact_oracle");
    }
    if reorder_observable {
        ctx.label("actor:stale_router_observable");
    }
    if reorder_observable_after_deltas {
        ctx.label("actor:stale_router_observable_behind_deltas");
    }
    if n >= 3 && c.rf > 0 && c.rf < n && evals > 0 {
        ctx.nontrivial(&format!("{:?}", c));
    }
    Ok(())
}
