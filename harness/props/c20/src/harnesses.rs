//! One canonical transcript per (harness, seed, preset, n).
//!
//! A transcript is a list of `field = value` lines containing everything the harness' public
//! API exposes: the result struct (field by field), operation / history logs (one entry per
//! line), violations, final state dumps, verdict. Maps and sets are canonicalised HERE
//! (`canon::canon` sorts `{…}` groups; explicit dumps are sorted by key) — an unspecified
//! iteration order inside a `Debug` rendering is not a difference; a different operation,
//! reply, state or verdict is.

use crate::canon::canon;
use redis_sim::buggify::FaultConfig;
use redis_sim::io::simulation::SimulatedRng;
use redis_sim::redis::{Command, RespValue};
use redis_sim::simulator::{DeterministicRng, HostId};
use std::fmt::{Debug, Display};
use vcore::resp::{argv_s, parse_zc, Reply};

/// Points inside a harness run at which a "dirty context" (see dirty.rs) may act: right after the
/// object under test was constructed, and in the middle of its run. No-ops in pristine runs.
#[derive(Clone, Copy, Debug, PartialEq, Eq)]
pub enum Point {
    Constructed,
    Mid,
}

thread_local! {
    static HOOK: std::cell::RefCell<Option<Box<dyn FnMut(Point)>>> = const { std::cell::RefCell::new(None) };
}

pub fn set_hook(h: Option<Box<dyn FnMut(Point)>>) -> Option<Box<dyn FnMut(Point)>> {
    HOOK.with(|c| std::mem::replace(&mut *c.borrow_mut(), h))
}

fn hook(p: Point) {
    // take the hook out while it runs (it constructs other simulations, never re-enters)
    let h = HOOK.with(|c| c.borrow_mut().take());
    if let Some(mut f) = h {
        f(p);
        HOOK.with(|c| *c.borrow_mut() = Some(f));
    }
}

pub struct Transcript {
    pub lines: Vec<String>,
    /// operations the run performed (non-trivial rule: >= 100)
    pub ops: u64,
    /// injected faults observed; None = this harness/preset cannot inject faults
    pub faults: Option<u64>,
}

impl Transcript {
    fn new() -> Self {
        Transcript {
            lines: Vec::new(),
            ops: 0,
            faults: None,
        }
    }
    /// `key = canon(Debug(value))`
    fn dbg(&mut self, key: impl Display, v: &impl Debug) {
        self.lines.push(format!("{} = {}", key, canon(&format!("{:?}", v))));
    }
    /// `key = canon(text)` for free text (violation messages may embed `{:?}` of a set)
    fn txt(&mut self, key: impl Display, text: &str) {
        self.lines
            .push(format!("{} = {}", key, canon(&text.replace('\n', "\\n"))));
    }
    fn list<T: Debug>(&mut self, key: &str, items: &[T]) {
        self.lines.push(format!("{}.len = {}", key, items.len()));
        for (i, it) in items.iter().enumerate() {
            self.dbg(format!("{}[{}]", key, i), it);
        }
    }
    fn texts(&mut self, key: &str, items: &[String]) {
        self.lines.push(format!("{}.len = {}", key, items.len()));
        for (i, it) in items.iter().enumerate() {
            self.txt(format!("{}[{}]", key, i), it);
        }
    }
}

pub struct HarnessDef {
    pub name: &'static str,
    pub presets: &'static [&'static str],
    /// operation-count range (quick tier); the thorough tier multiplies the upper bound
    pub n: (u32, u32),
    pub n_thorough: u32,
    /// triples per tier (quick, thorough)
    pub cases: (u32, u32),
}

pub const HARNESSES: &[HarnessDef] = &[
    HarnessDef { name: "executor", presets: &["new", "calm", "chaos", "string_heavy"], n: (100, 1500), n_thorough: 8000, cases: (40, 400) },
    HarnessDef { name: "list", presets: &["new", "high_churn", "modify_heavy"], n: (100, 2000), n_thorough: 10000, cases: (40, 400) },
    HarnessDef { name: "set", presets: &["new", "small_members", "high_churn", "large_members"], n: (100, 1500), n_thorough: 8000, cases: (40, 400) },
    HarnessDef { name: "hash", presets: &["new", "small_fields", "high_churn"], n: (100, 1500), n_thorough: 8000, cases: (40, 400) },
    HarnessDef { name: "zset", presets: &["new", "small_keyspace", "large_keyspace"], n: (100, 1500), n_thorough: 8000, cases: (40, 400) },
    HarnessDef { name: "txn", presets: &["new", "high_conflict", "error_heavy"], n: (100, 1000), n_thorough: 5000, cases: (40, 400) },
    HarnessDef { name: "gcounter", presets: &["calm", "moderate", "chaos"], n: (100, 2000), n_thorough: 10000, cases: (40, 400) },
    HarnessDef { name: "pncounter", presets: &["calm", "moderate", "chaos"], n: (100, 2000), n_thorough: 10000, cases: (40, 400) },
    HarnessDef { name: "orset", presets: &["calm", "moderate", "chaos"], n: (100, 1500), n_thorough: 6000, cases: (40, 400) },
    HarnessDef { name: "vclock", presets: &["calm", "moderate", "chaos"], n: (100, 2000), n_thorough: 10000, cases: (40, 400) },
    HarnessDef { name: "dst", presets: &["new", "calm", "chaos", "chaos8"], n: (100, 1200), n_thorough: 1500, cases: (40, 400) },
    HarnessDef { name: "redis_dst", presets: &["zipf", "uniform", "calm", "chaos"], n: (100, 600), n_thorough: 1300, cases: (40, 400) },
    HarnessDef { name: "multi_broadcast", presets: &["plain", "lossy", "partitions", "lossy_partitions", "busy", "burst", "burst_partitions", "ae_limit"], n: (60, 250), n_thorough: 800, cases: (40, 400) },
    HarnessDef { name: "multi_partitioned", presets: &["single_target", "single_target_partitions", "rf3", "rf3_lossy", "rf3_partitions", "rf2_any_node", "busy", "burst"], n: (60, 250), n_thorough: 800, cases: (40, 400) },
    HarnessDef { name: "partition", presets: &["isolate", "split_brain", "asymmetric", "ring", "isolate_mw", "split_brain_mw", "asymmetric_mw", "ring_mw"], n: (100, 160), n_thorough: 400, cases: (40, 400) },
    HarnessDef { name: "streaming", presets: &["new", "calm", "moderate", "chaos"], n: (100, 160), n_thorough: 400, cases: (12, 100) },
    HarnessDef { name: "compaction", presets: &["new", "calm", "aggressive", "chaos"], n: (100, 160), n_thorough: 400, cases: (10, 80) },
    HarnessDef { name: "wal", presets: &["default", "baseline", "crash_only", "chaos", "chaos_nofsync"], n: (100, 1500), n_thorough: 6000, cases: (40, 400) },
    HarnessDef { name: "connection", presets: &["batched", "unbatched", "partial", "arrivals"], n: (100, 800), n_thorough: 4000, cases: (40, 400) },
    HarnessDef { name: "pipeline", presets: &["default", "sized"], n: (100, 400), n_thorough: 1500, cases: (40, 400) },
    HarnessDef { name: "scenario", presets: &["plain", "buggify", "eviction", "sets"], n: (100, 800), n_thorough: 4000, cases: (40, 400) },
    HarnessDef { name: "event_sim", presets: &["plain", "lossy", "partitioned"], n: (100, 1500), n_thorough: 6000, cases: (40, 400) },
    HarnessDef { name: "sim_store", presets: &["no_faults", "default", "chaos"], n: (100, 600), n_thorough: 3000, cases: (40, 400) },
    // the crash / recovery bookkeeping of the simulator on its own, with COARSE ticks: several
    // nodes crash, recover and become due inside one advance_time call
    HarnessDef { name: "crash_sim", presets: &["coarse", "fine"], n: (20, 200), n_thorough: 1000, cases: (40, 400) },
];

pub fn def(name: &str) -> Option<&'static HarnessDef> {
    HARNESSES.iter().find(|h| h.name == name)
}

pub fn run_harness(name: &str, seed: u64, preset: &str, n: u32) -> Result<Transcript, String> {
    let n = n as usize;
    match name {
        "executor" => executor(seed, preset, n),
        "list" => list(seed, preset, n),
        "set" => set(seed, preset, n),
        "hash" => hash(seed, preset, n),
        "zset" => zset(seed, preset, n),
        "txn" => txn(seed, preset, n),
        "gcounter" | "pncounter" | "orset" | "vclock" => crdt(name, seed, preset, n),
        "dst" => dst(seed, preset, n),
        "redis_dst" => redis_dst(seed, preset, n),
        "multi_broadcast" => multi(false, seed, preset, n),
        "multi_partitioned" => multi(true, seed, preset, n),
        "partition" => partition(seed, preset, n),
        "streaming" => streaming(seed, preset, n),
        "compaction" => compaction(seed, preset, n),
        "wal" => wal(seed, preset, n),
        "connection" => connection(seed, preset, n),
        "pipeline" => pipeline(seed, preset, n),
        "scenario" => scenario(seed, preset, n),
        "event_sim" => event_sim(seed, preset, n),
        "sim_store" => sim_store(seed, preset, n),
        "crash_sim" => crash_sim(seed, preset, n),
        _ => Err(format!("unknown harness {}", name)),
    }
}

// ---------------------------------------------------------------------------------------
// CrashSimulator driven directly: crashes, recoveries with drawn durations, coarse ticks
// ---------------------------------------------------------------------------------------

fn crash_sim(seed: u64, preset: &str, n: usize) -> Result<Transcript, String> {
    use redis_sim::simulator::{CrashConfig, CrashReason, CrashSimulator, VirtualTime};
    let tick: u64 = match preset {
        "coarse" => 5_000,
        "fine" => 37,
        _ => return bad_preset("crash_sim", preset),
    };
    let nodes = 12usize;
    let mut sim = CrashSimulator::with_config(CrashConfig::default());
    for i in 0..nodes {
        sim.register_node(HostId(i));
    }
    let mut rng = SimulatedRng::new(seed ^ 0xC4A5_0001);
    let mut wl = DeterministicRng::new(seed ^ 0xC4A5_0002);
    let mut t = Transcript::new();
    hook(Point::Constructed);
    let mut now = 0u64;
    let mut crashes = 0u64;
    for step in 0..n {
        if step == n / 2 {
            hook(Point::Mid);
        }
        // a burst of crashes (power failure of a rack), recoveries started at once
        let k = 1 + wl.gen_range(0, 6) as usize;
        for _ in 0..k {
            let id = HostId(wl.gen_range(0, nodes as u64) as usize);
            if sim.is_running(id) {
                sim.crash_node(id, VirtualTime(now), CrashReason::PowerFailure);
                crashes += 1;
            }
        }
        for i in 0..nodes {
            if sim.is_crashed(HostId(i)) {
                let _ = sim.start_recovery(&mut rng, HostId(i), VirtualTime(now));
            }
        }
        now += tick + wl.gen_range(0, tick / 4 + 1);
        let done = sim.advance_time(VirtualTime(now));
        t.lines.push(format!("step[{}] t={} completed={:?} recovering={:?} crashed={:?}", step, now, done, sim.recovering_nodes(), sim.crashed_nodes()));
    }
    let st = sim.stats();
    t.dbg("stats.total_crashes", &st.total_crashes);
    t.dbg("stats.total_recoveries", &st.total_recoveries);
    t.lines.push(format!("stats.average_recovery_time_ms.bits = {:016x}", st.average_recovery_time_ms.to_bits()));
    t.dbg("stats", st);
    t.ops = n as u64;
    t.faults = Some(crashes);
    Ok(t)
}

fn bad_preset<T>(h: &str, p: &str) -> Result<T, String> {
    Err(format!("harness {} has no preset {}", h, p))
}

// ---------------------------------------------------------------------------------------
// data-structure and executor DSTs: one result line per operation + final state
// ---------------------------------------------------------------------------------------

macro_rules! stepwise {
    ($t:expr, $h:expr, $n:expr) => {
        stepwise!($t, $h, $n, |_t: &mut Transcript, _i: usize| {})
    };
    // `$snap` dumps the structure under test; it runs at ~16 evenly spaced checkpoints, so that a
    // difference in the structure's content or order is seen near the operation that caused it
    // and not only in the final dump
    ($t:expr, $h:expr, $n:expr, $snap:expr) => {{
        let every = ($n / 16).max(1);
        hook(Point::Constructed);
        for i in 0..$n {
            if i == $n / 2 {
                hook(Point::Mid);
            }
            $h.run(1);
            $t.dbg(format!("op[{}]", i), $h.result());
            if i % every == every - 1 {
                #[allow(clippy::redundant_closure_call)]
                ($snap)(&mut $t, i);
            }
            if !$h.result().invariant_violations.is_empty() {
                break;
            }
        }
        let r = $h.result();
        $t.ops = r.total_operations;
        $t.texts("violations", &r.invariant_violations);
        $t.txt("summary", &r.summary());
        $t.dbg("verdict.is_success", &r.is_success());
    }};
}

fn executor(seed: u64, preset: &str, n: usize) -> Result<Transcript, String> {
    use redis_sim::redis::executor_dst::{ExecutorDSTConfig, ExecutorDSTHarness};
    let cfg = match preset {
        "new" => ExecutorDSTConfig::new(seed),
        "calm" => ExecutorDSTConfig::calm(seed),
        "chaos" => ExecutorDSTConfig::chaos(seed),
        "string_heavy" => ExecutorDSTConfig::string_heavy(seed),
        _ => return bad_preset("executor", preset),
    };
    let mut t = Transcript::new();
    t.dbg("config", &cfg);
    let mut h = ExecutorDSTHarness::new(cfg);
    stepwise!(t, h, n, |t: &mut Transcript, i: usize| {
        let data = h.executor().get_data();
        let mut keys: Vec<&String> = data.keys().collect();
        keys.sort();
        for k in keys {
            t.dbg(format!("at[{}].state[{:?}]", i, k), &data[k]);
        }
    });
    // final keyspace through the public accessor, sorted by key
    let data = h.executor().get_data();
    let mut keys: Vec<&String> = data.keys().collect();
    keys.sort();
    t.lines.push(format!("state.keys = {}", keys.len()));
    for k in keys {
        t.dbg(format!("state[{:?}]", k), &data[k]);
    }
    Ok(t)
}

fn list(seed: u64, preset: &str, n: usize) -> Result<Transcript, String> {
    use redis_sim::redis::list_dst::{ListDSTConfig, ListDSTHarness};
    let cfg = match preset {
        "new" => ListDSTConfig::new(seed),
        "high_churn" => ListDSTConfig::high_churn(seed),
        "modify_heavy" => ListDSTConfig::modify_heavy(seed),
        _ => return bad_preset("list", preset),
    };
    let mut t = Transcript::new();
    t.dbg("config", &cfg);
    let mut h = ListDSTHarness::new(cfg);
    stepwise!(t, h, n, |t: &mut Transcript, i: usize| {
        t.dbg(format!("at[{}].state", i), &h.list().range(0, -1));
    });
    t.dbg("state", &h.list().range(0, -1));
    Ok(t)
}

fn set(seed: u64, preset: &str, n: usize) -> Result<Transcript, String> {
    use redis_sim::redis::set_dst::{SetDSTConfig, SetDSTHarness};
    let cfg = match preset {
        "new" => SetDSTConfig::new(seed),
        "small_members" => SetDSTConfig::small_members(seed),
        "high_churn" => SetDSTConfig::high_churn(seed),
        "large_members" => SetDSTConfig::large_members(seed),
        _ => return bad_preset("set", preset),
    };
    let mut t = Transcript::new();
    t.dbg("config", &cfg);
    let mut h = SetDSTHarness::new(cfg);
    stepwise!(t, h, n, |t: &mut Transcript, i: usize| {
        let mut m: Vec<String> = h.set().members().iter().map(|s| s.to_string()).collect();
        m.sort();
        t.dbg(format!("at[{}].state", i), &m);
    });
    let mut m: Vec<String> = h.set().members().iter().map(|s| s.to_string()).collect();
    m.sort();
    t.dbg("state", &m);
    Ok(t)
}

fn hash(seed: u64, preset: &str, n: usize) -> Result<Transcript, String> {
    use redis_sim::redis::hash_dst::{HashDSTConfig, HashDSTHarness};
    let cfg = match preset {
        "new" => HashDSTConfig::new(seed),
        "small_fields" => HashDSTConfig::small_fields(seed),
        "high_churn" => HashDSTConfig::high_churn(seed),
        _ => return bad_preset("hash", preset),
    };
    let mut t = Transcript::new();
    t.dbg("config", &cfg);
    let mut h = HashDSTHarness::new(cfg);
    stepwise!(t, h, n, |t: &mut Transcript, i: usize| {
        let mut m: Vec<(String, String)> = h.hash().get_all().iter().map(|(k, v)| (k.to_string(), v.to_string())).collect();
        m.sort();
        t.dbg(format!("at[{}].state", i), &m);
    });
    let mut m: Vec<(String, String)> = h
        .hash()
        .get_all()
        .iter()
        .map(|(k, v)| (k.to_string(), v.to_string()))
        .collect();
    m.sort();
    t.dbg("state", &m);
    Ok(t)
}

fn zset(seed: u64, preset: &str, n: usize) -> Result<Transcript, String> {
    use redis_sim::redis::sorted_set_dst::{SortedSetDSTConfig, SortedSetDSTHarness};
    let cfg = match preset {
        "new" => SortedSetDSTConfig::new(seed),
        "small_keyspace" => SortedSetDSTConfig::small_keyspace(seed),
        "large_keyspace" => SortedSetDSTConfig::large_keyspace(seed),
        _ => return bad_preset("zset", preset),
    };
    let mut t = Transcript::new();
    t.dbg("config", &cfg);
    let mut h = SortedSetDSTHarness::new(cfg);
    stepwise!(t, h, n, |t: &mut Transcript, i: usize| {
        let m: Vec<(String, f64)> = h.sorted_set().range(0, -1).iter().map(|(k, s)| (k.to_string(), *s)).collect();
        t.dbg(format!("at[{}].state", i), &m);
    });
    // rank order is behaviour: not sorted by the harness
    let m: Vec<(String, f64)> = h
        .sorted_set()
        .range(0, -1)
        .iter()
        .map(|(k, s)| (k.to_string(), *s))
        .collect();
    t.dbg("state", &m);
    Ok(t)
}

fn txn(seed: u64, preset: &str, n: usize) -> Result<Transcript, String> {
    use redis_sim::redis::transaction_dst::{TransactionDSTConfig, TransactionDSTHarness};
    let cfg = match preset {
        "new" => TransactionDSTConfig::new(seed),
        "high_conflict" => TransactionDSTConfig::high_conflict(seed),
        "error_heavy" => TransactionDSTConfig::error_heavy(seed),
        _ => return bad_preset("txn", preset),
    };
    let mut t = Transcript::new();
    t.dbg("config", &cfg);
    let mut h = TransactionDSTHarness::new(cfg);
    stepwise!(t, h, n);
    Ok(t)
}

// ---------------------------------------------------------------------------------------
// CRDT DSTs
// ---------------------------------------------------------------------------------------

fn crdt(kind: &str, seed: u64, preset: &str, n: usize) -> Result<Transcript, String> {
    use redis_sim::replication::crdt_dst::*;
    let cfg = match preset {
        "calm" => CRDTDSTConfig::calm(seed),
        "moderate" => CRDTDSTConfig::moderate(seed),
        "chaos" => CRDTDSTConfig::chaos(seed),
        _ => return bad_preset(kind, preset),
    };
    let mut t = Transcript::new();
    t.dbg("config", &cfg);
    let can_drop = cfg.message_drop_prob > 0.0;
    macro_rules! drive {
        ($H:ident) => {{
            let mut h = $H::new(cfg);
            hook(Point::Constructed);
            for i in 0..n {
                if i == n / 2 {
                    hook(Point::Mid);
                }
                h.run(1);
                t.dbg(format!("op[{}]", i), h.result());
            }
            h.sync_all();
            t.dbg("after_sync", h.result());
            h.check_convergence();
            let r = h.into_result();
            t.ops = r.total_operations;
            t.faults = if can_drop { Some(r.messages_dropped) } else { None };
            t.dbg("result.seed", &r.seed);
            t.dbg("result.total_operations", &r.total_operations);
            let mut per: Vec<(usize, u64)> = r.ops_per_replica.iter().map(|(k, v)| (*k, *v)).collect();
            per.sort();
            t.dbg("result.ops_per_replica", &per);
            t.dbg("result.syncs_performed", &r.syncs_performed);
            t.dbg("result.messages_dropped", &r.messages_dropped);
            t.texts("violations", &r.invariant_violations);
            t.dbg("verdict.converged", &r.converged);
            t.dbg("verdict.is_success", &r.is_success());
            t.txt("summary", &r.summary());
        }};
    }
    match kind {
        "gcounter" => drive!(GCounterDSTHarness),
        "pncounter" => drive!(PNCounterDSTHarness),
        "orset" => drive!(ORSetDSTHarness),
        "vclock" => drive!(VectorClockDSTHarness),
        _ => return Err(format!("unknown CRDT harness {}", kind)),
    }
    Ok(t)
}

// ---------------------------------------------------------------------------------------
// DSTSimulation / RedisDSTSimulation
// ---------------------------------------------------------------------------------------

fn sim_result(t: &mut Transcript, r: &redis_sim::simulator::SimulationResult) {
    t.dbg("result.seed", &r.seed);
    t.dbg("result.total_time_ms", &r.total_time_ms);
    t.dbg("result.total_operations", &r.total_operations);
    let mut by: Vec<(&String, &u64)> = r.operations_by_type.iter().collect();
    by.sort();
    t.dbg("result.operations_by_type", &by);
    t.dbg("result.crashes", &r.crashes);
    t.dbg("result.recoveries", &r.recoveries);
    let mut c: Vec<(&String, &u64)> = r.buggify_stats.checks.iter().collect();
    c.sort();
    t.dbg("result.buggify_stats.checks", &c);
    let mut c: Vec<(&String, &u64)> = r.buggify_stats.triggers.iter().collect();
    c.sort();
    t.dbg("result.buggify_stats.triggers", &c);
    t.dbg("verdict.linearizable", &r.linearizable);
    t.dbg("verdict.converged", &r.converged);
    t.texts("errors", &r.errors);
    t.dbg("verdict.is_success", &r.is_success());
    t.txt("summary", &r.summary());
}

fn dst(seed: u64, preset: &str, n: usize) -> Result<Transcript, String> {
    use redis_sim::simulator::{DSTConfig, DSTSimulation};
    let cfg = match preset {
        "new" => DSTConfig::new(seed),
        "calm" => DSTConfig::calm(seed),
        "chaos" => DSTConfig::chaos(seed),
        "chaos8" => DSTConfig::chaos(seed).with_nodes(8),
        _ => return bad_preset("dst", preset),
    };
    let mut t = Transcript::new();
    let nodes = cfg.node_count;
    let crashes_possible = cfg.crash_config.enable_buggify_crashes;
    t.dbg("config", &cfg);
    let mut sim = DSTSimulation::with_config(cfg);
    hook(Point::Constructed);
    for i in 0..n {
        if i == n / 2 {
            hook(Point::Mid);
        }
        sim.step();
        t.dbg(format!("step[{}].time", i), &sim.current_time());
        let states: Vec<_> = (0..nodes)
            .map(|k| sim.crash_simulator().get_state(HostId(k)).cloned())
            .collect();
        t.dbg(format!("step[{}].nodes", i), &states);
        if sim.current_time().0 >= sim.config().max_time_ms {
            break;
        }
    }
    t.dbg("crash_stats", sim.crash_simulator().stats());
    let r = sim.finalize().clone();
    t.list("history", &r.operation_history);
    sim_result(&mut t, &r);
    t.ops = r.total_operations;
    t.faults = if crashes_possible { Some(r.crashes) } else { None };
    Ok(t)
}

fn redis_dst(seed: u64, preset: &str, n: usize) -> Result<Transcript, String> {
    use redis_sim::simulator::dst_integration::RedisDSTSimulation;
    let mut sim = match preset {
        // generated configuration: "kd=zipf|uniform,keys=K,skew=S,nodes=N,faults=moderate|calm|chaos"
        p if p.contains('=') => {
            use redis_sim::simulator::dst_integration::KeyDistribution;
            let get = |k: &str| p.split(',').find_map(|kv| kv.strip_prefix(k).and_then(|v| v.strip_prefix('=')));
            let keys: u64 = get("keys").and_then(|v| v.parse().ok()).ok_or("redis_dst: keys=")?;
            let nodes: usize = get("nodes").and_then(|v| v.parse().ok()).ok_or("redis_dst: nodes=")?;
            let kd = match get("kd") {
                Some("uniform") => KeyDistribution::Uniform { num_keys: keys },
                Some("zipf") => KeyDistribution::Zipfian {
                    num_keys: keys,
                    skew: get("skew").and_then(|v| v.parse().ok()).ok_or("redis_dst: skew=")?,
                },
                _ => return bad_preset("redis_dst", preset),
            };
            let sim = RedisDSTSimulation::with_key_distribution(seed, nodes, kd);
            match get("faults") {
                Some("moderate") | None => sim,
                Some("calm") => sim.with_faults(FaultConfig::calm()),
                Some("chaos") => sim.with_faults(FaultConfig::chaos()),
                _ => return bad_preset("redis_dst", preset),
            }
        }
        "zipf" => RedisDSTSimulation::new(seed, 5),
        "uniform" => RedisDSTSimulation::new_uniform(seed, 4, 50),
        "calm" => RedisDSTSimulation::new(seed, 3).with_faults(FaultConfig::calm()),
        "chaos" => RedisDSTSimulation::new(seed, 6).with_faults(FaultConfig::chaos()),
        _ => return bad_preset("redis_dst", preset),
    };
    let mut t = Transcript::new();
    let mut seen = 0usize;
    hook(Point::Constructed);
    for i in 0..n {
        if i == n / 2 {
            hook(Point::Mid);
        }
        let r = sim.run(1);
        t.lines.push(format!(
            "step[{}] = time {} ops {} crashes {} recoveries {}",
            i, r.total_time_ms, r.total_operations, r.crashes, r.recoveries
        ));
        let new: Vec<String> = r.operation_history[seen..]
            .iter()
            .map(|o| canon(&format!("{:?}", o)))
            .collect();
        seen = r.operation_history.len();
        for (k, o) in new.iter().enumerate() {
            t.lines.push(format!("step[{}].op[{}] = {}", i, k, o));
        }
        if r.total_time_ms >= 60_000 {
            break;
        }
    }
    let stats = sim.stats();
    t.dbg("stats", &stats);
    t.dbg("check_convergence", &sim.check_convergence());
    let r = sim.run(0).clone();
    sim_result(&mut t, &r);
    t.ops = r.total_operations;
    t.faults = Some(r.crashes);
    Ok(t)
}

// ---------------------------------------------------------------------------------------
// MultiNodeSimulation: the harness is a library; the driver below is a pure function of the
// seed (its own DeterministicRng stream, separate from the simulation's loss/delay stream)
// ---------------------------------------------------------------------------------------

fn show_reply(r: &RespValue) -> String {
    Reply::from_resp(r).show()
}

fn cmd(parts: &[&str]) -> Result<Command, String> {
    parse_zc(&argv_s(parts))
}

/// Everything order-sensitive the public API exposes, after EVERY gossip round: virtual time,
/// the in-flight queue in queue order (from, to, delivery time, the keys each message carries),
/// every node's Lamport clock and un-gossiped delta count, and every node's reply to a client
/// GET of every key touched so far (straight on the node's executor: not recorded in
/// `sim.history`, no replication side effect) next to the value held in its replica state.
fn multi_snapshot(
    t: &mut Transcript,
    sim: &mut redis_sim::simulator::MultiNodeSimulation,
    tag: &str,
    touched: &std::collections::BTreeSet<String>,
) {
    t.lines.push(format!("{}.time = {}", tag, sim.current_time.0));
    let q: Vec<String> = sim
        .message_queue
        .iter()
        .map(|m| {
            let ks: Vec<&str> = m.deltas.iter().map(|d| d.key.as_str()).collect();
            format!("{}->{}@{}#{}:{}", m.from, m.to, m.delivery_time.0, m.deltas.len(), ks.join("+"))
        })
        .collect();
    t.lines.push(format!("{}.queue = {}", tag, q.join(" ")));
    let clocks: Vec<u64> = sim.nodes.iter().map(|nd| nd.replica_state.lamport_clock.time).collect();
    t.lines.push(format!("{}.clocks = {:?}", tag, clocks));
    let pending: Vec<usize> = sim.nodes.iter().map(|nd| nd.replica_state.pending_deltas.len()).collect();
    t.lines.push(format!("{}.pending = {:?}", tag, pending));
    for ni in 0..sim.nodes.len() {
        let mut parts: Vec<String> = Vec::with_capacity(touched.len());
        for k in touched {
            let reply = sim.nodes[ni].executor.execute(&Command::Get(k.clone()));
            let held = sim.nodes[ni].get_replicated_value(k);
            parts.push(format!("{}={}/{:?}", k, show_reply(&reply), held));
        }
        t.lines.push(format!("{}.get[node{}] = {}", tag, ni, parts.join(" ")));
    }
}

/// Time step of one round: mostly shorter than the maximum message delay (so that only a
/// prefix of the in-flight queue is delivered), sometimes long.
fn round_step(wl: &mut DeterministicRng, fine: bool) -> u64 {
    match wl.gen_range(0, 10) {
        0..=5 => wl.gen_range(1, 6),
        6..=8 => {
            if fine {
                wl.gen_range(1, 6)
            } else {
                wl.gen_range(5, 16)
            }
        }
        _ => wl.gen_range(30, 81),
    }
}

/// Anti-entropy at its per-sync key limit (AntiEntropyConfig::max_keys_per_sync = 1000): node 0
/// is cut off, takes 999 / 1000 / 1001 / 1100 distinct keys in chunks below the pending-delta
/// capacity, then the partitions heal.
fn multi_ae_limit(seed: u64, n: usize) -> Result<Transcript, String> {
    use redis_sim::simulator::multi_node::MultiNodeSimulation;
    let mut wl = DeterministicRng::new(seed ^ 0xAE11_0001);
    let total = [999usize, 1000, 1001, 1100][wl.gen_range(0, 4) as usize];
    let mut sim = MultiNodeSimulation::new(3, seed).with_packet_loss(0.05);
    let mut t = Transcript::new();
    t.lines.push(format!("config = ae_limit keys {} rounds-after {}", total, n.min(40)));
    sim.partition(0, 1);
    sim.partition(0, 2);
    let sample: std::collections::BTreeSet<String> = (0..12).map(|i| format!("wk{}", i * total / 12)).collect();
    hook(Point::Constructed);
    let mut written = 0usize;
    let mut round = 0usize;
    while written < total {
        let chunk = (90 + wl.gen_range(0, 10) as usize).min(total - written);
        for j in written..written + chunk {
            sim.execute(0, 0, cmd(&["SET", &format!("wk{}", j), &format!("v{}", j)])?);
        }
        // the other side writes too (so that both directions have something to sync)
        let o = 1 + wl.gen_range(0, 2) as usize;
        sim.execute(1, o, cmd(&["SET", &format!("ok{}", round), "x"])?);
        written += chunk;
        sim.advance_time_ms(round_step(&mut wl, true));
        sim.gossip_round();
        multi_snapshot(&mut t, &mut sim, &format!("fill[{}]", round), &sample);
        round += 1;
    }
    hook(Point::Mid);
    sim.heal_partition(0, 1);
    multi_snapshot(&mut t, &mut sim, "healed01", &sample);
    sim.heal_partition(0, 2);
    multi_snapshot(&mut t, &mut sim, "healed02", &sample);
    for r in 0..n.min(40) {
        if r % 5 == 0 {
            sim.execute(2, r % 3, cmd(&["SET", &format!("wk{}", wl.gen_range(0, total as u64)), &format!("late{}", r)])?);
        }
        sim.advance_time_ms(round_step(&mut wl, true));
        sim.gossip_round();
        multi_snapshot(&mut t, &mut sim, &format!("settle[{}]", r), &sample);
    }
    t.dbg("final.anti_entropy_syncs", &sim.anti_entropy_syncs);
    for (ni, node) in sim.nodes.iter().enumerate() {
        let mut ks: Vec<&String> = node.replica_state.replicated_keys.keys().collect();
        ks.sort();
        t.lines.push(format!("node[{}].keys = {}", ni, ks.len()));
        let mut h = 0xcbf29ce484222325u64;
        for k in ks {
            h ^= vcore::fnv64_str(&format!("{}={}", k, vcore::proj::peer_view(&node.replica_state.replicated_keys[k])));
            h = h.wrapping_mul(0x100000001b3);
        }
        t.lines.push(format!("node[{}].state_hash = {:016x}", ni, h));
    }
    let all = (0..total).all(|j| sim.check_key_convergence(&format!("wk{}", j)));
    t.dbg("verdict.all_converged", &all);
    t.ops = (total + round + n.min(40)) as u64;
    t.faults = Some(2);
    Ok(t)
}

fn multi(partitioned: bool, seed: u64, preset: &str, n: usize) -> Result<Transcript, String> {
    if !partitioned && preset == "ae_limit" {
        return multi_ae_limit(seed, n);
    }
    let n = if preset.starts_with("burst") { n.min(60) } else { n };
    use redis_sim::replication::HashRing;
    use redis_sim::simulator::multi_node::{check_single_key_linearizability, MultiNodeSimulation};
    struct P {
        nodes: usize,
        rf: usize,
        loss: f64,
        partitions: bool,
        /// writes go to the key's primary and there is at most one per round (with rf 2:
        /// exactly one sender and one gossip target per round)
        primary_only: bool,
        delay: (u64, u64),
        /// client operations per round: lo..=hi (several writers on different nodes between
        /// two gossip rounds)
        writers: (u64, u64),
        /// only 1..=5 ms steps besides the occasional long one
        fine: bool,
        /// now and then ONE node takes 99..=251 writes between two gossip rounds: the tree's
        /// MAX_PENDING_DELTAS (100) +- 1 and well beyond, distinct and repeated keys
        burst: bool,
    }
    let p = match (partitioned, preset) {
        (false, "plain") => P { nodes: 3, rf: 0, loss: 0.0, partitions: false, primary_only: false, delay: (1, 10), writers: (0, 3), fine: true, burst: false },
        (false, "lossy") => P { nodes: 4, rf: 0, loss: 0.2, partitions: false, primary_only: false, delay: (1, 25), writers: (1, 4), fine: false, burst: false },
        (false, "partitions") => P { nodes: 4, rf: 0, loss: 0.0, partitions: true, primary_only: false, delay: (1, 10), writers: (0, 4), fine: true, burst: false },
        (false, "lossy_partitions") => P { nodes: 5, rf: 0, loss: 0.1, partitions: true, primary_only: false, delay: (0, 30), writers: (1, 5), fine: false, burst: false },
        (false, "busy") => P { nodes: 4, rf: 0, loss: 0.05, partitions: false, primary_only: false, delay: (1, 10), writers: (3, 6), fine: true, burst: false },
        (false, "burst") => P { nodes: 4, rf: 0, loss: 0.05, partitions: false, primary_only: false, delay: (1, 10), writers: (0, 3), fine: true, burst: true },
        (false, "burst_partitions") => P { nodes: 4, rf: 0, loss: 0.0, partitions: true, primary_only: false, delay: (1, 10), writers: (0, 3), fine: true, burst: true },
        (true, "single_target") => P { nodes: 4, rf: 2, loss: 0.2, partitions: false, primary_only: true, delay: (1, 25), writers: (0, 1), fine: false, burst: false },
        (true, "single_target_partitions") => P { nodes: 4, rf: 2, loss: 0.2, partitions: true, primary_only: true, delay: (1, 25), writers: (0, 1), fine: false, burst: false },
        (true, "rf3") => P { nodes: 5, rf: 3, loss: 0.0, partitions: false, primary_only: false, delay: (1, 10), writers: (0, 3), fine: true, burst: false },
        (true, "rf3_lossy") => P { nodes: 5, rf: 3, loss: 0.2, partitions: false, primary_only: false, delay: (1, 25), writers: (1, 4), fine: false, burst: false },
        (true, "rf3_partitions") => P { nodes: 6, rf: 3, loss: 0.1, partitions: true, primary_only: false, delay: (1, 25), writers: (1, 5), fine: true, burst: false },
        (true, "rf2_any_node") => P { nodes: 4, rf: 2, loss: 0.0, partitions: false, primary_only: false, delay: (1, 10), writers: (2, 4), fine: true, burst: false },
        (true, "burst") => P { nodes: 5, rf: 3, loss: 0.05, partitions: false, primary_only: false, delay: (1, 10), writers: (0, 3), fine: true, burst: true },
        (true, "busy") => P { nodes: 5, rf: 3, loss: 0.05, partitions: false, primary_only: false, delay: (1, 10), writers: (3, 6), fine: true, burst: false },
        _ => return bad_preset(if partitioned { "multi_partitioned" } else { "multi_broadcast" }, preset),
    };
    let mut sim = if partitioned {
        MultiNodeSimulation::new_partitioned(p.nodes, p.rf, seed)
    } else {
        MultiNodeSimulation::new(p.nodes, seed)
    }
    .with_packet_loss(p.loss)
    .with_message_delay(p.delay.0, p.delay.1);
    // the same ring the simulation builds (150 virtual nodes), to find a key's primary
    let ring = HashRing::new(
        (0..p.nodes).map(|i| redis_sim::replication::ReplicaId::new(i as u64 + 1)).collect(),
        150,
        p.rf.max(1),
    );
    let mut wl = DeterministicRng::new(seed ^ 0x5EED_C20C_20C2_0C20);
    // shared keys (concurrent writers collide) and keys only one node writes
    let shared: Vec<String> = (0..5).map(|i| format!("mk{}", i)).collect();
    let mut touched = std::collections::BTreeSet::new();
    let mut t = Transcript::new();
    t.lines.push(format!(
        "config = nodes {} rf {} loss {} partitions {} primary_only {} delay {:?} writers {:?} fine {}",
        p.nodes, p.rf, p.loss, p.partitions, p.primary_only, p.delay, p.writers, p.fine
    ));
    let mut faults = 0u64;
    let mut ops = 0u64;
    hook(Point::Constructed);
    for i in 0..n {
        if i == n / 2 {
            hook(Point::Mid);
        }
        let k = wl.gen_range(p.writers.0, p.writers.1 + 1) as usize;
        for j in 0..k {
            let roll = wl.gen_range(0, 100);
            let mut node = wl.gen_range(0, p.nodes as u64) as usize;
            let key = if wl.gen_range(0, 4) == 0 && !p.primary_only {
                format!("own{}k{}", node, wl.gen_range(0, 2))
            } else {
                shared[wl.gen_range(0, shared.len() as u64) as usize].clone()
            };
            if p.primary_only {
                if let Some(r) = ring.get_primary(&key) {
                    node = r.0 as usize - 1;
                }
            }
            let a = wl.gen_range(0, p.nodes as u64) as usize;
            let b = wl.gen_range(0, p.nodes as u64) as usize;
            let client = (i + j) % 4;
            let (op, resp): (String, String) = if roll < 58 {
                touched.insert(key.clone());
                let r = sim.execute(client, node, cmd(&["SET", &key, &format!("v{}_{}", i, j)])?);
                (format!("SET {} v{}_{} @node{}", key, i, j, node), show_reply(&r))
            } else if roll < 66 {
                touched.insert(key.clone());
                let r = sim.execute(client, node, cmd(&["DEL", &key])?);
                (format!("DEL {} @node{}", key, node), show_reply(&r))
            } else if roll < 78 {
                let r = sim.execute(client, node, cmd(&["GET", &key])?);
                (format!("GET {} @node{}", key, node), show_reply(&r))
            } else if roll < 86 && p.partitions && a != b {
                sim.partition(a, b);
                faults += 1;
                (format!("PARTITION {} {}", a, b), String::new())
            } else if roll < 94 && p.partitions && a != b {
                sim.heal_partition(a, b);
                (format!("HEAL {} {}", a, b), String::new())
            } else {
                ("IDLE".to_string(), String::new())
            };
            ops += 1;
            t.lines.push(format!("round[{}].op[{}] = {} -> {}", i, j, op, resp));
        }
        if p.burst && wl.gen_range(0, 5) == 0 {
            let node = wl.gen_range(0, p.nodes as u64) as usize;
            let count = [99usize, 100, 101, 102, 150, 200, 251][wl.gen_range(0, 7) as usize];
            let distinct = 1 + wl.gen_range(0, count as u64) as usize;
            for j in 0..count {
                // distinct keys first, then repeats of them and of the shared keys
                let key = if j < distinct {
                    format!("bk{}_{}", node, j)
                } else if j % 3 == 0 {
                    shared[j % shared.len()].clone()
                } else {
                    format!("bk{}_{}", node, wl.gen_range(0, distinct as u64))
                };
                if touched.len() < 40 || key.starts_with("mk") {
                    touched.insert(key.clone());
                }
                sim.execute(j % 4, node, cmd(&["SET", &key, &format!("b{}_{}", i, j)])?);
            }
            ops += count as u64;
            t.lines.push(format!("round[{}].burst = {} writes on node{} ({} distinct keys)", i, count, node, distinct));
        }
        let pending: Vec<usize> = sim.nodes.iter().map(|nd| nd.replica_state.pending_deltas.len()).collect();
        t.lines.push(format!("round[{}].senders = {:?}", i, pending));
        sim.advance_time_ms(round_step(&mut wl, p.fine));
        sim.gossip_round();
        multi_snapshot(&mut t, &mut sim, &format!("round[{}]", i), &touched);
    }
    // heal everything and let it settle
    let parts: Vec<(usize, usize)> = {
        let mut v: Vec<(usize, usize)> = sim.partitions.iter().copied().collect();
        v.sort();
        v
    };
    t.dbg("final.partitions", &parts);
    for (a, b) in parts {
        sim.heal_partition(a, b);
    }
    multi_snapshot(&mut t, &mut sim, "final", &touched);
    for r in 0..30 {
        sim.advance_time_ms(10);
        sim.gossip_round();
        multi_snapshot(&mut t, &mut sim, &format!("settle[{}]", r), &touched);
    }
    t.dbg("final.anti_entropy_syncs", &sim.anti_entropy_syncs);
    for (ni, node) in sim.nodes.iter().enumerate() {
        let mut ks: Vec<&String> = node.replica_state.replicated_keys.keys().collect();
        ks.sort();
        for k in ks {
            t.lines.push(format!(
                "node[{}].replicated[{}] = {}",
                ni,
                k,
                vcore::proj::peer_view(&node.replica_state.replicated_keys[k])
            ));
        }
    }
    for k in &touched {
        t.dbg(format!("values[{}]", k), &sim.get_all_values(k));
        t.dbg(format!("converged[{}]", k), &sim.check_key_convergence(k));
    }
    t.list("history", &sim.history);
    for k in shared.iter().take(2) {
        let lin = check_single_key_linearizability(&sim.history, k);
        t.dbg(format!("verdict.linearizable[{}]", k), &lin.is_linearizable);
        t.texts(&format!("verdict.lin_violations[{}]", k), &lin.violations);
    }
    let all = touched.iter().all(|k| sim.check_key_convergence(k));
    t.dbg("verdict.all_converged", &all);
    t.ops = ops + n as u64;
    t.faults = if p.loss > 0.0 || p.partitions { Some(faults + if p.loss > 0.0 { 1 } else { 0 }) } else { None };
    Ok(t)
}

fn partition(seed: u64, preset: &str, n: usize) -> Result<Transcript, String> {
    use redis_sim::simulator::multi_node::{check_single_key_linearizability, MultiNodeSimulation};
    use redis_sim::simulator::partition_tests::{run_partition_test, PartitionConfig};
    let mut wl = DeterministicRng::new(seed ^ 0x9A27_1710);
    let nodes = 3 + (wl.gen_range(0, 4) as usize);
    let scenario = preset.trim_end_matches("_mw");
    let cfg = match scenario {
        "isolate" => PartitionConfig::isolate_node(wl.gen_range(0, nodes as u64) as usize, nodes),
        "split_brain" => {
            let cut = 1 + wl.gen_range(0, nodes as u64 - 1) as usize;
            PartitionConfig::split_brain((0..cut).collect(), (cut..nodes).collect())
        }
        "asymmetric" => PartitionConfig::asymmetric(0, nodes - 1),
        "ring" => PartitionConfig::ring(nodes),
        _ => return bad_preset("partition", preset),
    };
    let keys: Vec<String> = (0..6).map(|i| format!("pk{}", i)).collect();
    let mut t = Transcript::new();
    t.dbg("config", &cfg);
    let pairs = cfg.partitioned_pairs.len() as u64;
    if preset.ends_with("_mw") {
        // The built-in scenario runner writes from one node per gossip round and returns only
        // a summary. This driver runs the same phases (partition, writes, 10 quiet rounds,
        // heal, writes, convergence rounds) on the same simulation with SEVERAL writers per
        // 5 ms round on both sides of the partition, and records every round.
        let loss = if wl.gen_range(0, 2) == 0 { 0.0 } else { 0.15 };
        let mut sim = MultiNodeSimulation::new(nodes, seed).with_packet_loss(loss);
        t.lines.push(format!("config.nodes = {} loss {}", nodes, loss));
        for (a, b) in &cfg.partitioned_pairs {
            sim.partition(*a, *b);
        }
        let mut touched = std::collections::BTreeSet::new();
        let mut ops = 0u64;
        let rounds_during = (n / 4).max(1);
        let rounds_after = (n / 8).max(1);
        let phase = |sim: &mut MultiNodeSimulation, t: &mut Transcript, wl: &mut DeterministicRng, name: &str, rounds: usize, writers: (u64, u64), step: u64, ops: &mut u64, touched: &mut std::collections::BTreeSet<String>| -> Result<(), String> {
            for i in 0..rounds {
                let k = wl.gen_range(writers.0, writers.1 + 1) as usize;
                for j in 0..k {
                    let node = wl.gen_range(0, nodes as u64) as usize;
                    let key = keys[wl.gen_range(0, keys.len() as u64) as usize].clone();
                    let (op, r) = if wl.gen_range(0, 5) == 0 {
                        (format!("GET {} @node{}", key, node), sim.execute(j, node, cmd(&["GET", &key])?))
                    } else {
                        touched.insert(key.clone());
                        let v = format!("{}{}_{}", name, i, j);
                        (format!("SET {} {} @node{}", key, v, node), sim.execute(j, node, cmd(&["SET", &key, &v])?))
                    };
                    *ops += 1;
                    t.lines.push(format!("{}[{}].op[{}] = {} -> {}", name, i, j, op, show_reply(&r)));
                }
                sim.advance_time_ms(step);
                sim.gossip_round();
                multi_snapshot(t, sim, &format!("{}[{}]", name, i), touched);
            }
            Ok(())
        };
        hook(Point::Constructed);
        phase(&mut sim, &mut t, &mut wl, "during", rounds_during, (1, 4), 5, &mut ops, &mut touched)?;
        hook(Point::Mid);
        phase(&mut sim, &mut t, &mut wl, "quiet", 10, (0, 0), 10, &mut ops, &mut touched)?;
        for (a, b) in &cfg.partitioned_pairs {
            sim.heal_partition(*a, *b);
        }
        multi_snapshot(&mut t, &mut sim, "healed", &touched);
        phase(&mut sim, &mut t, &mut wl, "after", rounds_after, (1, 3), 5, &mut ops, &mut touched)?;
        let mut rounds_to_converge = None;
        for r in 0..40 {
            sim.advance_time_ms(10);
            sim.gossip_round();
            multi_snapshot(&mut t, &mut sim, &format!("converge[{}]", r), &touched);
            if touched.iter().all(|k| sim.check_key_convergence(k)) {
                rounds_to_converge = Some(r + 1);
                break;
            }
        }
        t.dbg("verdict.converged", &rounds_to_converge.is_some());
        t.dbg("result.convergence_rounds", &rounds_to_converge);
        t.dbg("result.anti_entropy_syncs", &sim.anti_entropy_syncs);
        for k in &touched {
            t.dbg(format!("values[{}]", k), &sim.get_all_values(k));
        }
        t.list("history", &sim.history);
        let lin = check_single_key_linearizability(&sim.history, &keys[0]);
        t.dbg("verdict.linearizable", &lin.is_linearizable);
        t.texts("verdict.lin_violations", &lin.violations);
        t.ops = ops + (rounds_during + rounds_after + 10) as u64;
        t.faults = Some(pairs);
        return Ok(t);
    }
    // n = total number of writes, split between "during" and "after"
    let during_n = n / 2;
    let mut owned: Vec<(usize, String, String)> = Vec::new();
    for i in 0..n {
        owned.push((
            wl.gen_range(0, nodes as u64) as usize,
            keys[wl.gen_range(0, keys.len() as u64) as usize].clone(),
            format!("w{}", i),
        ));
    }
    let during: Vec<(usize, &str, &str)> = owned[..during_n].iter().map(|(a, k, v)| (*a, k.as_str(), v.as_str())).collect();
    let after: Vec<(usize, &str, &str)> = owned[during_n..].iter().map(|(a, k, v)| (*a, k.as_str(), v.as_str())).collect();
    hook(Point::Constructed);
    let r = run_partition_test("c20", nodes, seed, cfg, during, after, 40);
    t.dbg("result.test_name", &r.test_name);
    t.dbg("result.partition_config", &r.partition_config);
    t.dbg("result.writes_during_partition", &r.writes_during_partition);
    t.dbg("result.writes_after_heal", &r.writes_after_heal);
    t.dbg("verdict.converged", &r.converged);
    t.dbg("result.convergence_rounds", &r.convergence_rounds);
    t.dbg("result.final_values", &r.final_values);
    t.dbg("verdict.linearizable", &r.linearizable);
    t.ops = n as u64 + 10 + r.convergence_rounds as u64;
    t.faults = Some(pairs);
    Ok(t)
}

// ---------------------------------------------------------------------------------------
// streaming / compaction / WAL
// ---------------------------------------------------------------------------------------

fn store_faults(s: &redis_sim::streaming::SimulatedStoreStats) -> u64 {
    s.put_failures
        + s.get_failures
        + s.get_corruptions
        + s.delete_failures
        + s.list_incomplete
        + s.rename_failures
        + s.timeouts
        + s.partial_writes
}

fn streaming(seed: u64, preset: &str, n: usize) -> Result<Transcript, String> {
    use redis_sim::streaming::dst::{StreamingDSTConfig, StreamingDSTHarness};
    let cfg = match preset {
        "new" => StreamingDSTConfig::new(seed),
        "calm" => StreamingDSTConfig::calm(seed),
        "moderate" => StreamingDSTConfig::moderate(seed),
        "chaos" => StreamingDSTConfig::chaos(seed),
        _ => return bad_preset("streaming", preset),
    };
    let mut t = Transcript::new();
    t.dbg("config", &cfg);
    let calm = preset == "calm";
    let r = vcore::block_on(async {
        let mut h = StreamingDSTHarness::new(cfg).await;
        hook(Point::Constructed);
        h.run(n / 2).await;
        hook(Point::Mid);
        h.run(n - n / 2).await;
        h.check_invariants().await;
        h.into_result()
    });
    t.list("history", &r.history);
    t.dbg("result.seed", &r.seed);
    t.dbg("result.total_operations", &r.total_operations);
    t.dbg("result.successful_operations", &r.successful_operations);
    t.dbg("result.failed_operations", &r.failed_operations);
    t.dbg("result.flushes", &r.flushes);
    t.dbg("result.crashes", &r.crashes);
    t.dbg("result.store_stats", &r.store_stats);
    t.texts("violations", &r.invariant_violations);
    t.dbg("verdict.is_success", &r.is_success());
    t.txt("summary", &r.summary());
    t.ops = r.total_operations;
    t.faults = if calm { None } else { Some(store_faults(&r.store_stats) + r.crashes) };
    Ok(t)
}

fn compaction(seed: u64, preset: &str, n: usize) -> Result<Transcript, String> {
    use redis_sim::streaming::compaction_dst::{CompactionDSTConfig, CompactionDSTHarness};
    let cfg = match preset {
        "new" => CompactionDSTConfig::new(seed),
        "calm" => CompactionDSTConfig::calm(seed),
        "aggressive" => CompactionDSTConfig::aggressive(seed),
        "chaos" => CompactionDSTConfig::chaos(seed),
        _ => return bad_preset("compaction", preset),
    };
    let mut t = Transcript::new();
    t.dbg("config", &cfg);
    let faulty = preset == "new" || preset == "chaos";
    let r = vcore::block_on(async {
        let mut h = CompactionDSTHarness::new(cfg).await;
        hook(Point::Constructed);
        h.run(n / 2).await;
        hook(Point::Mid);
        h.run(n - n / 2).await;
        h.check_invariants().await;
        h.into_result()
    });
    t.list("history", &r.history);
    t.dbg("result.seed", &r.seed);
    t.dbg("result.total_operations", &r.total_operations);
    t.dbg("result.successful_writes", &r.successful_writes);
    t.dbg("result.successful_flushes", &r.successful_flushes);
    t.dbg("result.successful_compactions", &r.successful_compactions);
    t.dbg("result.failed_operations", &r.failed_operations);
    t.dbg("result.skipped_operations", &r.skipped_operations);
    t.dbg("result.store_stats", &r.store_stats);
    t.texts("violations", &r.invariant_violations);
    t.dbg("verdict.is_success", &r.is_success());
    t.txt("summary", &r.summary());
    t.ops = r.total_operations;
    t.faults = if faulty { Some(store_faults(&r.store_stats)) } else { None };
    Ok(t)
}

fn wal(seed: u64, preset: &str, n: usize) -> Result<Transcript, String> {
    use redis_sim::streaming::wal_dst::{WalDSTConfig, WalDSTHarness};
    let mut cfg = match preset {
        "default" => WalDSTConfig::default(),
        "baseline" => WalDSTConfig::baseline(),
        "crash_only" => WalDSTConfig::crash_only(),
        "chaos" => WalDSTConfig::chaos(),
        "chaos_nofsync" => WalDSTConfig {
            fsync_after_write: false,
            ..WalDSTConfig::chaos()
        },
        _ => return bad_preset("wal", preset),
    };
    cfg.num_writes = n;
    let mut t = Transcript::new();
    t.dbg("config", &cfg);
    let crash = cfg.simulate_crash;
    let faulty = preset != "baseline" && preset != "crash_only";
    let mut h = WalDSTHarness::new(seed, cfg);
    hook(Point::Constructed);
    let r = h.run();
    t.dbg("result.seed", &r.seed);
    t.dbg("result.total_writes", &r.total_writes);
    t.dbg("result.acknowledged_writes", &r.acknowledged_writes);
    t.dbg("result.failed_writes", &r.failed_writes);
    t.dbg("result.recovered_entries", &r.recovered_entries);
    t.dbg("result.missing_after_recovery", &r.missing_after_recovery);
    t.dbg("result.store_stats", &r.store_stats);
    t.dbg("verdict.passed", &r.passed);
    t.txt("result.error_message", r.error_message.as_deref().unwrap_or("<none>"));
    t.ops = r.total_writes as u64;
    let s = &r.store_stats;
    let f = s.write_failures + s.partial_writes + s.sync_failures + s.read_corruptions + s.disk_full_errors;
    t.faults = if faulty || crash { Some(f + crash as u64) } else { None };
    Ok(t)
}

// ---------------------------------------------------------------------------------------
// connection / pipeline / scenario: workloads are a pure function of the seed
// ---------------------------------------------------------------------------------------

/// SET/GET/INCR/DEL/PING — exactly the commands SimulatedReadBuffer can put on the wire.
fn wire_workload(wl: &mut DeterministicRng, n: usize) -> Result<Vec<Command>, String> {
    let mut v = Vec::with_capacity(n);
    for i in 0..n {
        let k = format!("ck{}", wl.gen_range(0, 16));
        let c = match wl.gen_range(0, 10) {
            0..=3 => cmd(&["SET", &k, &format!("v{}", i)])?,
            4..=6 => cmd(&["GET", &k])?,
            7 => cmd(&["INCR", &format!("ctr{}", wl.gen_range(0, 4))])?,
            8 => cmd(&["DEL", &k])?,
            _ => cmd(&["PING"])?,
        };
        v.push(c);
    }
    Ok(v)
}

fn connection(seed: u64, preset: &str, n: usize) -> Result<Transcript, String> {
    use redis_sim::simulator::SimulatedConnection;
    let mut wl = DeterministicRng::new(seed ^ 0xC0_11EC);
    let cmds = wire_workload(&mut wl, n)?;
    let mut t = Transcript::new();
    let mut conn = match preset {
        "batched" | "arrivals" => SimulatedConnection::new(seed),
        "unbatched" => SimulatedConnection::new(seed).with_unbatched_flush(),
        "partial" => SimulatedConnection::new(seed).with_partial_reads(0.5),
        _ => return bad_preset("connection", preset),
    };
    let mut responses: Vec<RespValue> = Vec::new();
    // pipelines of generated sizes
    let mut i = 0;
    let mut round = 0;
    let mut mid_done = false;
    hook(Point::Constructed);
    while i < cmds.len() {
        if !mid_done && i >= cmds.len() / 2 {
            mid_done = true;
            hook(Point::Mid);
        }
        let size = 1 + wl.gen_range(0, 24) as usize;
        let end = (i + size).min(cmds.len());
        conn.send_pipeline(cmds[i..end].to_vec());
        let r = if preset == "arrivals" {
            conn.process_with_partial_arrivals(1 + wl.gen_range(0, 4) as usize)
        } else {
            conn.process()
        };
        t.lines.push(format!(
            "round[{}] = sent {} responses {} flushes {}",
            round,
            end - i,
            r.len(),
            conn.flush_count()
        ));
        responses.extend(r);
        i = end;
        round += 1;
    }
    let shown: Vec<String> = responses.iter().map(show_reply).collect();
    t.list("responses", &shown);
    t.list("history", conn.history());
    t.dbg("flush_count", &conn.flush_count());
    t.dbg("bytes_per_flush", &conn.bytes_per_flush());
    t.dbg("commands_executed", &conn.commands_executed());
    t.ops = cmds.len() as u64;
    t.faults = None;
    Ok(t)
}

fn pipeline(seed: u64, preset: &str, n: usize) -> Result<Transcript, String> {
    use redis_sim::simulator::PipelineSimulator;
    let mut sim = match preset {
        "default" => PipelineSimulator::new(seed),
        "sized" => {
            let mut wl = DeterministicRng::new(seed ^ 0x919E);
            let mut sizes = Vec::new();
            let mut left = n;
            while left > 0 {
                let s = (1 + wl.gen_range(0, 96) as usize).min(left);
                sizes.push(s);
                left -= s;
            }
            PipelineSimulator::new(seed).with_sizes(sizes)
        }
        _ => return bad_preset("pipeline", preset),
    };
    let mut t = Transcript::new();
    hook(Point::Constructed);
    let results = sim.run().to_vec();
    t.list("results", &results);
    t.txt("summary", &sim.summary());
    t.dbg("verdict.all_correct", &results.iter().all(|r| r.all_responses_correct));
    t.ops = results.iter().map(|r| r.commands_executed as u64).sum();
    t.faults = None;
    Ok(t)
}

fn scenario(seed: u64, preset: &str, n: usize) -> Result<Transcript, String> {
    use redis_sim::simulator::ScenarioBuilder;
    let mut wl = DeterministicRng::new(seed ^ 0x5CE2_A210);
    let mut b = ScenarioBuilder::new(seed);
    if preset == "buggify" || preset == "eviction" {
        b = b.with_buggify(0.2);
    }
    let sets = preset == "sets";
    if !matches!(preset, "plain" | "buggify" | "eviction" | "sets") {
        return bad_preset("scenario", preset);
    }
    let mut time = 0u64;
    for i in 0..n {
        // a quarter of the operations share their time stamp with the previous one (different
        // clients at the same virtual instant: the order among them is the builder's business)
        if wl.gen_range(0, 4) != 0 {
            time += wl.gen_range(0, 40);
        }
        let k = format!("sk{}", wl.gen_range(0, 10));
        let c = if sets && wl.gen_range(0, 3) > 0 {
            // replies / effects whose order comes from the server's hash tables
            let s = format!("set{}", wl.gen_range(0, 3));
            let h = format!("hash{}", wl.gen_range(0, 2));
            match wl.gen_range(0, 9) {
                0..=2 => cmd(&["SADD", &s, &format!("m{}", wl.gen_range(0, 12)), &format!("m{}", wl.gen_range(0, 12))])?,
                3 => cmd(&["SMEMBERS", &s])?,
                4 => cmd(&["SPOP", &s])?,
                5 => cmd(&["HSET", &h, &format!("f{}", wl.gen_range(0, 8)), &format!("v{}", i)])?,
                6 => cmd(&["HGETALL", &h])?,
                7 => cmd(&["KEYS", "*"])?,
                _ => cmd(&["HKEYS", &h])?,
            }
        } else {
            match wl.gen_range(0, 16) {
                // the absolute-time API: replies and deadlines that contain the executor's start
                // epoch, so an epoch taken from the wall clock (instead of the simulation's
                // configuration) shows in the history
                12 => cmd(&["PEXPIRETIME", &k])?,
                13 => cmd(&["EXPIRETIME", &k])?,
                14 => cmd(&["PEXPIREAT", &k, &format!("{}", time + 1 + wl.gen_range(0, 300))])?,
                15 => cmd(&["SET", &k, &format!("a{}", i), "PXAT", &format!("{}", time + 1 + wl.gen_range(0, 300))])?,
                0..=2 => cmd(&["SET", &k, &format!("v{}", i)])?,
                3..=4 => cmd(&["GET", &k])?,
                5 => cmd(&["INCR", &format!("n{}", wl.gen_range(0, 3))])?,
                6 => cmd(&["SET", &k, &format!("e{}", i), "PX", &format!("{}", 1 + wl.gen_range(0, 300))])?,
                7 => cmd(&["LPUSH", &format!("l{}", wl.gen_range(0, 2)), &format!("x{}", i)])?,
                8 => cmd(&["LRANGE", &format!("l{}", wl.gen_range(0, 2)), "0", "-1"])?,
                9 => cmd(&["TTL", &k])?,
                10 => cmd(&["DEL", &k])?,
                _ => cmd(&["EXISTS", &k])?,
            }
        };
        b = b.at_time(time).client(wl.gen_range(0, 4) as usize, c);
    }
    hook(Point::Constructed);
    let h = if preset == "eviction" {
        b.run_with_eviction(50)
    } else {
        b.run()
    };
    let mut t = Transcript::new();
    t.lines.push(format!("history.len = {}", h.history().len()));
    for (i, o) in h.history().iter().enumerate() {
        t.lines.push(format!(
            "history[{}] = client {} invoke {} complete {} cmd {} -> {}",
            i,
            o.client_id,
            o.invoke_time.0,
            o.complete_time.0,
            canon(&format!("{:?}", o.command)),
            show_reply(&o.response)
        ));
    }
    t.dbg("final.time", &h.current_time());
    t.ops = h.history().len() as u64;
    t.faults = if preset == "buggify" || preset == "eviction" {
        Some(h.history().iter().filter(|o| o.complete_time != o.invoke_time).count() as u64)
    } else {
        None
    };
    Ok(t)
}

// ---------------------------------------------------------------------------------------
// discrete-event Simulation (event queue ordered by virtual time)
// ---------------------------------------------------------------------------------------

fn event_sim(seed: u64, preset: &str, n: usize) -> Result<Transcript, String> {
    use redis_sim::simulator::{Duration, Simulation, SimulationConfig, VirtualTime};
    if !matches!(preset, "plain" | "lossy" | "partitioned") {
        return bad_preset("event_sim", preset);
    }
    let mut sim = Simulation::new(SimulationConfig {
        seed,
        max_time: VirtualTime::from_millis(10_000_000),
        simulation_start_epoch: 0,
    });
    let hosts: Vec<HostId> = (0..5).map(|i| sim.add_host(format!("h{}", i))).collect();
    if preset != "plain" {
        sim.set_network_drop_rate(0.2);
    }
    if preset == "partitioned" {
        sim.partition_hosts(hosts[0], hosts[3]);
        sim.partition_hosts(hosts[1], hosts[4]);
    }
    hook(Point::Constructed);
    let mut log: Vec<String> = Vec::new();
    let mut sends = 0u64;
    let mut delivered = 0u64;
    let nh = hosts.len() as u64;
    sim.run(|s, ev| {
        use redis_sim::simulator::EventType;
        if log.len() >= n {
            return;
        }
        if log.len() == n / 2 {
            hook(Point::Mid);
        }
        log.push(format!("t={} host={} {:?}", ev.time.0, ev.host_id.0, ev.event_type));
        match &ev.event_type {
            EventType::HostStart => {
                let d = 1 + s.rng().gen_range(0, 50);
                s.schedule_timer(ev.host_id, Duration::from_millis(d));
            }
            EventType::Timer(_) => {
                let to = HostId(s.rng().gen_range(0, nh) as usize);
                let payload = vec![(s.rng().gen_range(0, 256)) as u8; 1 + s.rng().gen_range(0, 4) as usize];
                s.send_message(ev.host_id, to, payload);
                sends += 1;
                let d = 1 + s.rng().gen_range(0, 50);
                s.schedule_timer(ev.host_id, Duration::from_millis(d));
                if s.rng().gen_bool(0.05) {
                    let a = HostId(s.rng().gen_range(0, nh) as usize);
                    let b = HostId(s.rng().gen_range(0, nh) as usize);
                    if s.rng().gen_bool(0.5) {
                        s.partition_hosts(a, b);
                    } else {
                        s.heal_partition(a, b);
                    }
                }
            }
            EventType::NetworkMessage(m) => {
                delivered += 1;
                if s.rng().gen_bool(0.5) {
                    s.send_message(ev.host_id, m.from, m.payload.clone());
                    sends += 1;
                }
            }
        }
    });
    let mut t = Transcript::new();
    t.list("events", &log);
    t.dbg("final.time", &sim.current_time());
    t.dbg("sends", &sends);
    t.dbg("delivered", &delivered);
    t.ops = log.len() as u64;
    t.faults = if preset == "plain" { None } else { Some(sends.saturating_sub(delivered)) };
    Ok(t)
}

// ---------------------------------------------------------------------------------------
// SimulatedObjectStore over InMemoryObjectStore (the store the streaming DSTs run on)
// ---------------------------------------------------------------------------------------

fn sim_store(seed: u64, preset: &str, n: usize) -> Result<Transcript, String> {
    use redis_sim::streaming::{InMemoryObjectStore, ObjectStore, SimulatedObjectStore, SimulatedStoreConfig};
    let cfg = match preset {
        "no_faults" => SimulatedStoreConfig::no_faults(),
        // latency is a real tokio sleep: switched off, the fault draws stay
        "default" => SimulatedStoreConfig {
            latency_range_us: (0, 0),
            ..SimulatedStoreConfig::default()
        },
        "chaos" => SimulatedStoreConfig {
            latency_range_us: (0, 0),
            ..SimulatedStoreConfig::high_chaos()
        },
        _ => return bad_preset("sim_store", preset),
    };
    let mut t = Transcript::new();
    t.dbg("config", &cfg);
    let store = SimulatedObjectStore::new(InMemoryObjectStore::new(), SimulatedRng::new(seed), cfg);
    let mut wl = DeterministicRng::new(seed ^ 0x0B1E_C7);
    let show = |r: Result<String, std::io::Error>| match r {
        Ok(s) => format!("Ok({})", s),
        Err(e) => format!("Err({:?}: {})", e.kind(), e),
    };
    hook(Point::Constructed);
    vcore::block_on(async {
        for i in 0..n {
            if i == n / 2 {
                hook(Point::Mid);
            }
            let k = format!("obj/{:02}", wl.gen_range(0, 16));
            let k2 = format!("obj/{:02}", wl.gen_range(0, 16));
            let line = match wl.gen_range(0, 12) {
                10 | 11 => {
                    // three requests in flight at once (polled in this order by join!)
                    let data = vec![(i % 251) as u8; 1 + wl.gen_range(0, 32) as usize];
                    let (a, b, c) = tokio::join!(store.put(&k, &data), store.get(&k2), store.exists(&k));
                    format!(
                        "join put {} {}B / get {} / exists {} -> {} | {} | {}",
                        k,
                        data.len(),
                        k2,
                        k,
                        show(a.map(|_| String::new())),
                        show(b.map(|d| vcore::hex(&d))),
                        show(c.map(|x| x.to_string()))
                    )
                }
                0..=3 => {
                    let data = vec![(i % 251) as u8; 1 + wl.gen_range(0, 64) as usize];
                    format!("put {} {}B -> {}", k, data.len(), show(store.put(&k, &data).await.map(|_| String::new())))
                }
                4 => format!("get {} -> {}", k, show(store.get(&k).await.map(|d| vcore::hex(&d)))),
                5 => format!("head {} -> {}", k, show(store.head(&k).await.map(|m| format!("{:?}", m)))),
                6 => format!(
                    "list obj/ -> {}",
                    show(store.list("obj/", None).await.map(|l| format!("{:?}", l.objects)))
                ),
                7 => format!("delete {} -> {}", k, show(store.delete(&k).await.map(|_| String::new()))),
                8 => format!("rename {} {} -> {}", k, k2, show(store.rename(&k, &k2).await.map(|_| String::new()))),
                _ => format!("exists {} -> {}", k, show(store.exists(&k).await.map(|b| b.to_string()))),
            };
            t.lines.push(format!("op[{}] = {}", i, line));
        }
    });
    let st = store.stats();
    t.dbg("stats", &st);
    t.ops = n as u64;
    t.faults = if preset == "no_faults" { None } else { Some(store_faults(&st)) };
    Ok(t)
}
