//! Canonical text for `Debug` output that contains hash maps / hash sets.
//!
//! `{ … }` groups in Rust's `Debug` output are structs, maps and sets. Struct fields always come
//! in declaration order, so sorting the comma-separated items of every brace group changes nothing
//! for structs and removes the unspecified iteration order of maps and sets. `[ … ]` and `( … )`
//! groups (vectors, tuples) keep their order: that order is behaviour.

/// Sort the top-level comma-separated items of every balanced `{…}` group, recursively.
pub fn canon(s: &str) -> String {
    let cs: Vec<char> = s.chars().collect();
    let (strings, matches) = prepass(&cs);
    let mut i = 0;
    let items = parse(&cs, &mut i, None, false, &strings, &matches);
    items.concat()
}

/// string spans (start -> end inclusive) and bracket matches (open -> close)
fn prepass(cs: &[char]) -> (Vec<Option<usize>>, Vec<Option<usize>>) {
    let n = cs.len();
    let mut strings = vec![None; n];
    let mut matches = vec![None; n];
    let mut stack: Vec<(char, usize)> = Vec::new();
    let mut i = 0;
    while i < n {
        let c = cs[i];
        match c {
            '"' => {
                // closing unescaped quote?
                let mut j = i + 1;
                let mut end = None;
                while j < n {
                    if cs[j] == '\\' {
                        j += 2;
                        continue;
                    }
                    if cs[j] == '"' {
                        end = Some(j);
                        break;
                    }
                    j += 1;
                }
                if let Some(e) = end {
                    strings[i] = Some(e);
                    i = e + 1;
                    continue;
                }
            }
            '{' | '[' | '(' => stack.push((c, i)),
            '}' | ']' | ')' => {
                let want = match c {
                    '}' => '{',
                    ']' => '[',
                    _ => '(',
                };
                if let Some(&(o, at)) = stack.last() {
                    if o == want {
                        matches[at] = Some(i);
                        stack.pop();
                    }
                }
            }
            _ => {}
        }
        i += 1;
    }
    (strings, matches)
}

fn parse(
    cs: &[char],
    i: &mut usize,
    close_at: Option<usize>,
    split: bool,
    strings: &[Option<usize>],
    matches: &[Option<usize>],
) -> Vec<String> {
    let mut items = Vec::new();
    let mut cur = String::new();
    while *i < cs.len() {
        if Some(*i) == close_at {
            *i += 1;
            items.push(cur);
            return items;
        }
        let c = cs[*i];
        if c == '"' {
            if let Some(e) = strings[*i] {
                cur.extend(cs[*i..=e].iter());
                *i = e + 1;
                continue;
            }
        }
        match c {
            '{' | '[' | '(' if matches[*i].is_some() => {
                let close = matches[*i];
                *i += 1;
                if c == '{' {
                    let mut its: Vec<String> = parse(cs, i, close, true, strings, matches)
                        .into_iter()
                        .map(|s| s.trim().to_string())
                        .filter(|s| !s.is_empty())
                        .collect();
                    its.sort();
                    cur.push('{');
                    cur.push_str(&its.join(", "));
                    cur.push('}');
                } else {
                    let inner = parse(cs, i, close, false, strings, matches).concat();
                    cur.push(c);
                    cur.push_str(&inner);
                    cur.push(if c == '[' { ']' } else { ')' });
                }
            }
            ',' if split => {
                items.push(std::mem::take(&mut cur));
                *i += 1;
            }
            _ => {
                cur.push(c);
                *i += 1;
            }
        }
    }
    items.push(cur);
    items
}

#[cfg(test)]
mod tests {
    use super::canon;
    #[test]
    fn sorts_brace_groups_only() {
        assert_eq!(canon("{b: 1, a: 2}"), "{a: 2, b: 1}");
        assert_eq!(canon("[b, a]"), "[b, a]");
        assert_eq!(canon("S { m: {\"z\", \"a\"}, v: [3, 1] }"), "S {m: {\"a\", \"z\"}, v: [3, 1]}");
        assert_eq!(canon("\"{b, a}\""), "\"{b, a}\"");
        assert_eq!(canon("x } y { z"), "x } y { z");
        assert_eq!(canon("{k: {2: 1, 1: 2}, a: (c, b)}"), "{a: (c, b), k: {1: 2, 2: 1}}");
    }
}
