//! "Dirty context" runs: the run under test executed on a thread that is NOT pristine.
//!
//! The property says a simulation is a function of ITS seed and configuration. The pristine
//! runs (pair / child) test that from a clean ambient state only. Here, on the same thread and
//! before — and, where the driver has hook points, overlapping with — the run under test:
//!
//! * other harnesses with other seeds/presets are run to completion and dropped (`warmups`);
//! * other simulation objects are constructed, run a little and KEPT (`held`), then dropped at a
//!   generated point: before the run under test is constructed, right after it was constructed
//!   (what `sim = Sim::new(..)` does to the previous value of `sim`), in the middle of its run, or
//!   after it finished — in creation order, i.e. not LIFO;
//! * the public ambient setter the tree has (`buggify::set_config`, the only thread-local /
//!   static in the library: `BUGGIFY_CONTEXT`) is called with a generated preset before the run
//!   under test is constructed;
//! * a probe simulation is constructed and dropped while the run under test is alive;
//! * the host thread sleeps for a generated real-time interval (0 / 70 / 130 ms) after the run
//!   under test was constructed and/or in the middle of its run: wall-clock time is ambient
//!   state too, and a simulation must not notice how much of it passes.
//!
//! Contracts respected (see notes/C20.md):
//! * `DSTSimulation` / `RedisDSTSimulation` install their own fault preset when constructed
//!   (`with_config`, `with_faults`), so any ambient preset before construction — also `disabled()` —
//!   must not matter. They *evaluate* faults against the thread-local, so another simulation
//!   constructed later with a DIFFERENT preset on the same thread legitimately replaces it: the
//!   overlapping probe therefore uses the run's own preset, and held objects are constructed
//!   before the run under test.
//! * the streaming / compaction / WAL / object-store harnesses never install a preset; they read
//!   only the thread-local `enabled` switch (documented on FaultConfig). Keeping it enabled is the
//!   caller's contract: dirty contexts only ever leave enabled presets behind for them.

use crate::harnesses::{run_harness, set_hook, Point};
use redis_sim::buggify::FaultConfig;
use serde::{Deserialize, Serialize};
use std::any::Any;

#[derive(Clone, Debug, Default, Serialize, Deserialize, PartialEq, Eq, Hash)]
pub struct Warm {
    pub harness: String,
    pub seed: u64,
    pub preset: String,
    pub n: u32,
}

#[derive(Clone, Debug, Default, Serialize, Deserialize, PartialEq, Eq, Hash)]
pub struct Held {
    /// 0 DSTSimulation, 1 RedisDSTSimulation, 2 MultiNodeSimulation, 3 ExecutorDSTHarness, 4 SimulatedConnection
    pub kind: u8,
    pub seed: u64,
    /// fault preset index (see `fault_config`), kinds 0/1 only
    pub preset: u8,
    /// 0 before the run under test is constructed, 1 right after, 2 mid-run, 3 after it finished
    pub drop_at: u8,
}

#[derive(Clone, Debug, Default, Serialize, Deserialize, PartialEq, Eq, Hash)]
pub struct DirtyCtx {
    pub warmups: Vec<Warm>,
    /// warm-ups with the harness under test ITSELF in a neighbouring configuration: each differs
    /// from the run under test in exactly one field (seed, preset / one preset parameter, n).
    /// They run after the other warm-ups, i.e. closest to the run under test.
    #[serde(default)]
    pub neighbours: Vec<Warm>,
    pub held: Vec<Held>,
    /// `buggify::set_config(fault_config(i))` before the run under test is constructed
    pub ambient: Option<u8>,
    pub probe_after_construct: bool,
    pub probe_mid: bool,
    /// real (wall-clock) time the host thread sleeps right after the run under test was
    /// constructed / in the middle of its run; nothing inside the simulation is touched
    #[serde(default)]
    pub stall_after_construct_ms: u16,
    #[serde(default)]
    pub stall_mid_ms: u16,
}

/// cheap (harness, preset) pairs used as warm-ups
pub const WARM_POOL: &[(&str, &str)] = &[
    ("dst", "chaos"),
    ("dst", "calm"),
    ("dst", "chaos8"),
    ("redis_dst", "chaos"),
    ("redis_dst", "calm"),
    ("executor", "chaos"),
    ("set", "high_churn"),
    ("wal", "chaos"),
    ("streaming", "calm"),
    ("multi_partitioned", "busy"),
    ("multi_broadcast", "lossy"),
    ("sim_store", "chaos"),
    ("scenario", "buggify"),
    ("event_sim", "lossy"),
    ("orset", "chaos"),
    ("connection", "partial"),
];

pub fn fault_config(i: u8) -> FaultConfig {
    match i % 5 {
        0 => FaultConfig::calm(),
        1 => FaultConfig::moderate(),
        2 => FaultConfig::chaos(),
        3 => FaultConfig::new(),
        _ => FaultConfig::disabled(),
    }
}

/// The fault preset the run under test installs itself (None: the harness installs none).
fn own_preset(harness: &str, preset: &str) -> Option<FaultConfig> {
    if harness == "redis_dst" && preset.contains('=') {
        return Some(if preset.contains("faults=calm") {
            FaultConfig::calm()
        } else if preset.contains("faults=chaos") {
            FaultConfig::chaos()
        } else {
            FaultConfig::moderate()
        });
    }
    match (harness, preset) {
        ("dst", "calm") | ("redis_dst", "calm") => Some(FaultConfig::calm()),
        ("dst", "chaos") | ("dst", "chaos8") | ("redis_dst", "chaos") => Some(FaultConfig::chaos()),
        ("dst", _) | ("redis_dst", _) => Some(FaultConfig::moderate()),
        _ => None,
    }
}

fn make_held(h: &Held) -> Box<dyn Any> {
    use redis_sim::simulator::dst_integration::RedisDSTSimulation;
    use redis_sim::simulator::{DSTConfig, DSTSimulation, MultiNodeSimulation, SimulatedConnection};
    // presets for held simulations are always enabled ones (index 4 = disabled is mapped away)
    let fc = fault_config(h.preset % 4);
    match h.kind % 5 {
        0 => {
            let mut s = DSTSimulation::with_config(DSTConfig::new(h.seed).with_faults(fc));
            for _ in 0..40 {
                s.step();
            }
            Box::new(s)
        }
        1 => {
            let mut s = RedisDSTSimulation::new(h.seed, 4).with_faults(fc);
            s.run(20);
            Box::new(s)
        }
        2 => {
            let mut s = MultiNodeSimulation::new(3, h.seed).with_packet_loss(0.1);
            if let Ok(c) = vcore::resp::parse_zc(&vcore::resp::argv_s(&["SET", "held", "x"])) {
                s.execute(0, 0, c);
            }
            s.advance_time_ms(5);
            s.gossip_round();
            Box::new(s)
        }
        3 => {
            let mut s = redis_sim::redis::executor_dst::ExecutorDSTHarness::with_seed(h.seed);
            s.run(30);
            Box::new(s)
        }
        _ => {
            let mut s = SimulatedConnection::new(h.seed).with_partial_reads(0.5);
            if let Ok(c) = vcore::resp::parse_zc(&vcore::resp::argv_s(&["SET", "held", "x"])) {
                s.send_pipeline(vec![c.clone(), c]);
            }
            let _ = s.process();
            Box::new(s)
        }
    }
}

fn probe(harness: &str, preset: &str, seed: u64, enabled_fallback: u8) {
    use redis_sim::simulator::{DSTConfig, DSTSimulation};
    // same preset as the run under test where it installs one (see module doc), else any enabled one
    let fc = own_preset(harness, preset).unwrap_or_else(|| fault_config(enabled_fallback % 4));
    let p = DSTSimulation::with_config(DSTConfig::new(seed ^ 0x9e37).with_faults(fc));
    drop(p);
}

/// Run `body` (the run under test) inside the dirty context. `body` is exactly what a pristine
/// run executes.
pub fn with_dirty_context<R>(ctx: &DirtyCtx, harness: &str, preset: &str, seed: u64, body: impl FnOnce() -> R) -> R {
    // 1. transient warm-ups, run to completion and dropped
    for w in ctx.warmups.iter().chain(ctx.neighbours.iter()) {
        let _ = vcore::runner::catch(|| run_harness(&w.harness, w.seed, &w.preset, w.n));
    }
    // 2. held objects, constructed before the run under test
    let mut held: Vec<(u8, Option<Box<dyn Any>>)> = ctx.held.iter().map(|h| (h.drop_at % 4, Some(make_held(h)))).collect();
    for (at, obj) in held.iter_mut() {
        if *at == 0 {
            *obj = None;
        }
    }
    // 3. ambient preset before construction
    if let Some(i) = ctx.ambient {
        let installs_own = own_preset(harness, preset).is_some();
        // harnesses that only read the `enabled` switch: keep it enabled (caller's contract)
        let idx = if installs_own { i % 5 } else { i % 4 };
        redis_sim::buggify::set_config(fault_config(idx));
    }
    // 4. hooks: drops and probes while the run under test is alive
    let (pa, pm) = (ctx.probe_after_construct, ctx.probe_mid);
    let (hname, pname) = (harness.to_string(), preset.to_string());
    let fallback = ctx.ambient.unwrap_or(1);
    let (sa, sm) = (ctx.stall_after_construct_ms, ctx.stall_mid_ms);
    let hook = move |p: Point| {
        let stall = if p == Point::Constructed { sa } else { sm };
        if stall > 0 {
            std::thread::sleep(std::time::Duration::from_millis(stall as u64));
        }
        let want = if p == Point::Constructed { 1 } else { 2 };
        for (at, obj) in held.iter_mut() {
            if *at == want {
                *obj = None; // dropped now, in creation order
            }
        }
        if (p == Point::Constructed && pa) || (p == Point::Mid && pm) {
            probe(&hname, &pname, seed, fallback);
        }
    };
    let prev = set_hook(Some(Box::new(hook)));
    let r = body();
    // 5. whatever is still held is dropped after the run under test (with the hook)
    drop(set_hook(prev));
    r
}
