//! C20 — placeholder while the check is being written (keeps the workspace loadable).
fn main() {
    eprintln!("c20: not built yet");
    std::process::exit(2);
}
