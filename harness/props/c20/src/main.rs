//! C20 — Simulation is reproducible: same seed, same trace, same verdict.
//!
//! For every built-in simulation / DST harness (see harnesses.rs) generated
//! (seed, preset, operation count) triples are run FOUR times: twice back to back in one fresh
//! process (`c20 pair …`) and once in each of two more fresh child processes
//! (`c20 child <harness> <seed> <preset> <n>`: fresh ASLR, fresh RandomState / ahash seeds, fresh
//! wall clock). Each run yields a canonical transcript (operation log, results, violations,
//! final state with maps sorted by the harness, verdict). All four must be identical; the first
//! differing transcript line is reported.

mod canon;
mod dirty;
mod harnesses;

use harnesses::{def, run_harness, HARNESSES};
use proptest::prelude::*;
use serde::{Deserialize, Serialize};
use serde_json::json;
use vcore::runner::catch;
use vcore::{CaseCtx, Level, Session};

#[derive(Clone, Debug, Serialize, Deserialize)]
struct Triple {
    harness: String,
    seed: u64,
    preset: String,
    n: u32,
    /// what else happens on the thread before / around the extra "dirty context" run
    #[serde(default)]
    ctx: dirty::DirtyCtx,
}

/// One run in the current thread: transcript lines (+ a final `#meta` line).
fn run_once(t: &Triple) -> Result<Vec<String>, String> {
    run_once_opt(t, true)
}

/// Lines that report the thread's accumulated BUGGIFY statistics: not compared for the dirty
/// run, which deliberately does not reset them (so that code keyed on "has anything run here
/// before" sees a thread with history).
fn mask_ambient_stats(lines: &[String]) -> Vec<String> {
    lines
        .iter()
        .map(|l| {
            if key_of(l).starts_with("result.buggify_stats") {
                format!("{} = <thread-wide statistics>", key_of(l))
            } else {
                l.clone()
            }
        })
        .collect()
}

fn run_once_opt(t: &Triple, reset_stats: bool) -> Result<Vec<String>, String> {
    // BUGGIFY statistics are thread-local and only ever reset by the caller (as the tree's own
    // run_redis_dst_batch does before every simulation)
    if reset_stats {
        redis_sim::buggify::reset_stats();
    }
    match catch(|| run_harness(&t.harness, t.seed, &t.preset, t.n)) {
        Ok(Ok(tr)) => {
            let mut lines = tr.lines;
            lines.push(format!("#meta = ops {} faults {:?}", tr.ops, tr.faults));
            Ok(lines)
        }
        Ok(Err(e)) => Err(e),
        Err(p) => Ok(vec![format!("PANIC = {}", p)]),
    }
}

const RUN2_MARK: &str = "#####-second-run-in-the-same-process-#####";

fn child_main(rest: &[String]) -> ! {
    vcore::runner::install_quiet_panic_hook();
    let pair = rest.first().map(|s| s.as_str()) == Some("pair");
    let dirty_ctx: Option<dirty::DirtyCtx> = if rest.first().map(|s| s.as_str()) == Some("dirty") {
        match rest.get(5).map(|j| serde_json::from_str::<dirty::DirtyCtx>(j)) {
            Some(Ok(c)) => Some(c),
            _ => {
                eprintln!("c20 dirty: missing or malformed context argument");
                std::process::exit(4)
            }
        }
    } else {
        None
    };
    let t = Triple {
        harness: rest.get(1).cloned().unwrap_or_default(),
        seed: rest.get(2).and_then(|s| s.parse().ok()).unwrap_or(0),
        preset: rest.get(3).cloned().unwrap_or_default(),
        n: rest.get(4).and_then(|s| s.parse().ok()).unwrap_or(0),
        ctx: Default::default(),
    };
    let h = std::thread::Builder::new()
        .stack_size(64 << 20)
        .spawn(move || {
            if let Some(c) = dirty_ctx {
                // the same run, on a thread where other simulations lived and live
                return dirty::with_dirty_context(&c, &t.harness, &t.preset, t.seed, || run_once_opt(&t, false))
                    .map(|l| mask_ambient_stats(&l));
            }
            let mut lines = run_once(&t)?;
            if pair {
                // same process, same thread, back to back
                lines.push(RUN2_MARK.to_string());
                lines.extend(run_once(&t)?);
            }
            Ok::<Vec<String>, String>(lines)
        })
        .expect("spawn");
    match h.join() {
        Ok(Ok(lines)) => {
            use std::io::Write;
            let out = std::io::stdout();
            let mut w = std::io::BufWriter::new(out.lock());
            for l in lines {
                let _ = writeln!(w, "{}", l);
            }
            let _ = w.flush();
            std::process::exit(0)
        }
        Ok(Err(e)) => {
            eprintln!("c20 child: {}", e);
            std::process::exit(4)
        }
        Err(_) => std::process::exit(3),
    }
}

fn run_child(mode: &str, t: &Triple) -> Result<Vec<String>, String> {
    run_child_ctx(mode, t, &t.ctx)
}

fn run_child_ctx(mode: &str, t: &Triple, dctx: &dirty::DirtyCtx) -> Result<Vec<String>, String> {
    let exe = std::env::current_exe().map_err(|e| e.to_string())?;
    let ctx_json = serde_json::to_string(dctx).map_err(|e| e.to_string())?;
    let out = std::process::Command::new(exe)
        .args([mode, &t.harness, &t.seed.to_string(), &t.preset, &t.n.to_string(), &ctx_json])
        .env_remove("VERIF_SEED")
        .output()
        .map_err(|e| format!("spawn child: {}", e))?;
    if out.status.code() != Some(0) {
        return Err(format!(
            "child process for {:?} ended with {:?}: {}",
            t,
            out.status,
            String::from_utf8_lossy(&out.stderr).lines().last().unwrap_or("")
        ));
    }
    Ok(String::from_utf8_lossy(&out.stdout).lines().map(|s| s.to_string()).collect())
}

fn first_diff(a: &[String], b: &[String]) -> Option<usize> {
    if a == b {
        return None;
    }
    let n = a.len().min(b.len());
    for i in 0..n {
        if a[i] != b[i] {
            return Some(i);
        }
    }
    Some(n)
}

fn key_of(line: &str) -> &str {
    line.split(" = ").next().unwrap_or(line)
}

fn value_of(line: &str) -> &str {
    line.splitn(2, " = ").nth(1).unwrap_or("")
}

fn transcript_hash(lines: &[String]) -> u64 {
    let mut h = 0xcbf29ce484222325u64;
    for l in lines {
        h ^= vcore::fnv64_str(l);
        h = h.wrapping_mul(0x100000001b3);
    }
    h
}

fn mask_created_at(line: &str) -> String {
    const TAG: &str = "created_at_ms: ";
    let mut out = String::with_capacity(line.len());
    let mut rest = line;
    while let Some(p) = rest.find(TAG) {
        out.push_str(&rest[..p + TAG.len()]);
        out.push('#');
        rest = &rest[p + TAG.len()..];
        let digits = rest.chars().take_while(|c| c.is_ascii_digit()).count();
        rest = &rest[digits..];
    }
    out.push_str(rest);
    out
}

fn sorted_tokens(s: &str, sep: &str) -> Vec<String> {
    let mut v: Vec<String> = s
        .trim()
        .trim_start_matches('[')
        .trim_end_matches(']')
        .split(sep)
        .map(|x| x.trim().to_string())
        .filter(|x| !x.is_empty())
        .collect();
    v.sort();
    v
}

/// top-level elements of a `[a, b {x, y}, c]` list
fn top_level_elems(s: &str) -> Vec<String> {
    let inner = s.trim().trim_start_matches('[').trim_end_matches(']');
    let mut out = Vec::new();
    let mut depth = 0i32;
    let mut cur = String::new();
    for c in inner.chars() {
        match c {
            '{' | '(' | '[' => {
                depth += 1;
                cur.push(c)
            }
            '}' | ')' | ']' => {
                depth -= 1;
                cur.push(c)
            }
            ',' if depth == 0 => {
                out.push(cur.trim().to_string());
                cur.clear();
            }
            _ => cur.push(c),
        }
    }
    if !cur.trim().is_empty() {
        out.push(cur.trim().to_string());
    }
    out
}

const KF01: &str = "KF-C20-01";
const KF02: &str = "KF-C20-02";
const KF03: &str = "KF-C20-03";
const KF04: &str = "KF-C20-04";
const KF05: &str = "KF-C20-05";

/// Exact matchers of the listed findings: harness + first diverging transcript field + the
/// shape of the difference. Everything else is a violation.
fn classify(t: &Triple, at: usize, a: &[String], b: &[String]) -> Option<&'static str> {
    let (la, lb) = match (a.get(at), b.get(at)) {
        (Some(x), Some(y)) => (x.as_str(), y.as_str()),
        _ => return None,
    };
    let (ka, kb) = (key_of(la), key_of(lb));
    if ka != kb {
        return None;
    }
    // KF-C20-05: the nodes' Lamport clocks differ right after a partition heal (anti-entropy
    // sync): AntiEntropyManager::get_keys_in_buckets hands the deltas over in the iteration
    // order of the replicated_keys HashMap and every applied delta advances the receiver's
    // clock to max(local, remote) + 1, so the clock — and with it the stamp of every later
    // write — depends on that order.
    if (t.harness == "multi_broadcast" || t.harness == "multi_partitioned") && ka.ends_with(".clocks") {
        let healed = if ka == "final.clocks" {
            true
        } else {
            // one of this round's operations was a HEAL
            let opkey = ka.replace(".clocks", ".op[");
            ka == "healed.clocks"
                || a[..at]
                    .iter()
                    .rev()
                    .take(40)
                    .any(|l| key_of(l).starts_with(&opkey) && value_of(l).starts_with("HEAL"))
        };
        return if healed { Some(KF05) } else { None };
    }
    match t.harness.as_str() {
        // KF-C20-01: the in-flight queue after a gossip round holds the same number of messages
        // with the same multiset of delivery times (the seeded loss/delay stream is consumed in
        // the same order) but attached to different targets / in a different order: the targets
        // were visited in the iteration order of route_deltas' std HashMap.
        "multi_partitioned" if ka.ends_with(".queue") => {
            let times = |l: &str| -> Vec<String> {
                let mut v: Vec<String> = value_of(l)
                    .split_whitespace()
                    .map(|tok| {
                        let after = tok.split('@').nth(1).unwrap_or("");
                        after.split('#').next().unwrap_or("").to_string()
                    })
                    .collect();
                v.sort();
                v
            };
            let (ta, tb) = (times(la), times(lb));
            if !ta.is_empty() && ta == tb {
                Some(KF01)
            } else {
                None
            }
        }
        // KF-C20-02: node states after a DSTSimulation step differ by a permutation of the
        // nodes that were down: same multiset of state kinds, same multiset of
        // Recovering{start, completion} values, at least two nodes not running — the recovery
        // draws were handed out in CrashSimulator::crashed_nodes()' HashMap order.
        "dst" if ka.ends_with(".nodes") => {
            let kinds = |l: &str| -> (Vec<String>, Vec<String>, usize) {
                let el = top_level_elems(value_of(l));
                let mut kinds: Vec<String> = el
                    .iter()
                    .map(|e| {
                        if e.contains("Crashed") {
                            "C"
                        } else if e.contains("Recovering") {
                            "R"
                        } else {
                            "U"
                        }
                        .to_string()
                    })
                    .collect();
                kinds.sort();
                let mut rec: Vec<String> = el.iter().filter(|e| e.contains("Recovering")).cloned().collect();
                rec.sort();
                let down = el.iter().filter(|e| !e.contains("Running")).count();
                (kinds, rec, down)
            };
            let (ka_, ra, da) = kinds(la);
            let (kb_, rb, db) = kinds(lb);
            if ka_ == kb_ && ra == rb && da >= 2 && db >= 2 {
                Some(KF02)
            } else {
                None
            }
        }
        // RedisDSTSimulation wraps DSTSimulation and exposes no node states: the matcher is the
        // step/operation log diverging after at least two nodes were down at the same time
        // (crashes - recoveries >= 2 in a step summary of the common prefix).
        "redis_dst" if ka.starts_with("step[") => {
            let down = |l: &str| -> Option<i64> {
                // "time T ops O crashes C recoveries R"
                let w: Vec<&str> = value_of(l).split_whitespace().collect();
                let c = w.iter().position(|x| *x == "crashes").and_then(|i| w.get(i + 1)).and_then(|x| x.parse::<i64>().ok())?;
                let r = w.iter().position(|x| *x == "recoveries").and_then(|i| w.get(i + 1)).and_then(|x| x.parse::<i64>().ok())?;
                Some(c - r)
            };
            // the permutation happens while two nodes are down; it becomes visible (another
            // node answers) only when one of them is back, possibly many steps later
            let worst_common = a[..at]
                .iter()
                .filter(|l| {
                    let k = key_of(l);
                    k.starts_with("step[") && !k.contains(".op[")
                })
                .filter_map(|l| down(l))
                .max();
            let here = [down(la), down(lb)].into_iter().flatten().max();
            if worst_common.unwrap_or(0) >= 2 || here.unwrap_or(0) >= 2 {
                Some(KF02)
            } else {
                None
            }
        }
        // KF-C20-03: only the wall-clock creation stamp of an object differs, anywhere.
        "sim_store" => {
            let ma: Vec<String> = a.iter().map(|l| mask_created_at(l)).collect();
            let mb: Vec<String> = b.iter().map(|l| mask_created_at(l)).collect();
            if ma == mb {
                Some(KF03)
            } else {
                None
            }
        }
        // KF-C20-04: a recorded reply whose element order (SMEMBERS, KEYS, HGETALL, HKEYS) or
        // choice (SPOP) comes from an ahash table with per-process / per-instance seeds.
        "scenario" if t.preset == "sets" && ka.starts_with("history[") => {
            let split = |l: &str| -> Option<(String, String)> {
                let v = value_of(l);
                let p = v.rfind(" -> ")?;
                Some((v[..p].to_string(), v[p + 4..].to_string()))
            };
            let (ca, ra) = split(la)?;
            let (cb, rb) = split(lb)?;
            if ca != cb {
                return None;
            }
            let cmd = ca.split(" cmd ").nth(1).unwrap_or("");
            let unordered = ["SMembers(", "HGetAll(", "Keys(", "HKeys("].iter().any(|p| cmd.starts_with(p));
            if unordered && sorted_tokens(&ra, ", ") == sorted_tokens(&rb, ", ") {
                return Some(KF04);
            }
            if cmd.starts_with("SPop(") && ra.starts_with('"') && rb.starts_with('"') {
                return Some(KF04);
            }
            None
        }
        _ => None,
    }
}

fn check_triple(t: &Triple, ctx: &mut CaseCtx<'_>) -> Result<(), String> {
    if def(&t.harness).is_none() {
        return Err(format!("unknown harness {}", t.harness));
    }
    // three fresh processes, concurrently: one runs the triple twice back to back on one
    // thread (the "same process" pair: nothing of this checker shares its address space, and
    // the simulators' stderr chatter stays out of the checker's output), two run it once each
    let (pair, c1, c2, d) = std::thread::scope(|s| {
        let hp = s.spawn(|| run_child("pair", t));
        let h1 = s.spawn(|| run_child("child", t));
        let h2 = s.spawn(|| run_child("child", t));
        let variants = dirty_variants(t);
        let hd = s.spawn(move || {
            // every variant must reproduce the pristine transcript; the first that does not is kept
            let mut first: Option<(Vec<String>, dirty::DirtyCtx)> = None;
            let mut differing: Option<(Vec<String>, dirty::DirtyCtx)> = None;
            for v in variants {
                let lines = run_child_ctx("dirty", t, &v)?;
                if first.is_none() {
                    first = Some((lines.clone(), v.clone()));
                } else if differing.is_none() && Some(&lines) != first.as_ref().map(|f| &f.0) {
                    differing = Some((lines, v));
                }
            }
            Ok::<_, String>((first, differing))
        });
        (hp.join(), h1.join(), h2.join(), hd.join())
    });
    let (dfirst, ddiff) = d.map_err(|_| "child runner thread died".to_string())??;
    let (d_first_lines, d_first_ctx) = dfirst.ok_or_else(|| "no dirty run".to_string())?;
    let pair = pair.map_err(|_| "child runner thread died".to_string())??;
    let cut = pair
        .iter()
        .position(|l| l == RUN2_MARK)
        .ok_or_else(|| "pair process printed no second run".to_string())?;
    let p1: Vec<String> = pair[..cut].to_vec();
    let p2: Vec<String> = pair[cut + 1..].to_vec();
    let c1 = c1.map_err(|_| "child runner thread died".to_string())??;
    let c2 = c2.map_err(|_| "child runner thread died".to_string())??;
    ctx.add_evaluations(4);
    if !t.ctx.held.is_empty() {
        ctx.label("dirty:held_objects");
    }
    if t.ctx.held.iter().any(|h| h.drop_at % 4 == 1 || h.drop_at % 4 == 2) {
        ctx.label("dirty:drop_while_alive");
    }
    if t.ctx.probe_after_construct || t.ctx.probe_mid {
        ctx.label("dirty:overlapping_probe");
    }
    if t.ctx.ambient.is_some() {
        ctx.label("dirty:ambient_preset");
    }
    if !t.ctx.warmups.is_empty() {
        ctx.label("dirty:warmups");
    }
    if t.ctx.stall_after_construct_ms > 0 || t.ctx.stall_mid_ms > 0 {
        ctx.label("dirty:wall_clock_stall");
    }
    if !t.ctx.neighbours.is_empty() {
        ctx.label("dirty:neighbour_config");
    }
    if t.ctx.neighbours.len() >= 3 {
        ctx.label("dirty:neighbours_enumerated");
    }
    if boundary_seeds().contains(&t.seed) {
        ctx.label("seed:boundary");
    }
    ctx.label(&format!("preset:{}:{}", t.harness, t.preset));
    if p1.first().map(|l| l.starts_with("PANIC")).unwrap_or(false) {
        ctx.label("panicked");
    }
    // non-trivial: >= 100 operations and (where the harness has faults) >= 1 injected fault
    if let Some(meta) = p1.last().filter(|l| l.starts_with("#meta")) {
        let w: Vec<&str> = meta.split_whitespace().collect();
        let ops: u64 = w.get(3).and_then(|x| x.parse().ok()).unwrap_or(0);
        let faults = w.get(5).copied().unwrap_or("None");
        let fault_ok = faults == "None" || faults != "Some(0)";
        if ops >= 100 && fault_ok {
            ctx.nontrivial(&(t.harness.clone(), t.seed, t.preset.clone(), t.n));
        }
        ctx.label(if faults == "None" { "faults:n/a" } else if faults == "Some(0)" { "faults:0" } else { "faults:>=1" });
    }
    let hashes = [transcript_hash(&p1), transcript_hash(&p2), transcript_hash(&c1), transcript_hash(&c2)];
    let p1m = mask_ambient_stats(&p1);
    // the dirty transcript that is compared: the first variant, unless that one equals the
    // pristine transcript and a later variant does not
    let (d, dctx_used) = match ddiff {
        Some((lines, c)) if d_first_lines == p1m => (lines, c),
        _ => (d_first_lines, d_first_ctx),
    };
    ctx.add_evaluations(dirty_variants(t).len().saturating_sub(1) as u64);
    if hashes.iter().all(|h| *h == hashes[0]) && p1 == p2 && p1 == c1 && p1 == c2 && p1m == d {
        ctx.label("identical");
        return Ok(());
    }
    // earliest divergence from the first in-process run
    // (name, run, the reference it is compared with)
    let runs: [(&str, &Vec<String>, &Vec<String>); 4] = [
        ("second in-process run", &p2, &p1),
        ("child process 1", &c1, &p1),
        ("child process 2", &c2, &p1),
        ("the run in a dirty context (other simulations before/around it on the same thread)", &d, &p1m),
    ];
    let mut best: Option<(usize, &str, &Vec<String>, &Vec<String>)> = None;
    for (name, r, reference) in runs.iter() {
        if let Some(at) = first_diff(reference, r) {
            if best.map(|(b, _, _, _)| at < b).unwrap_or(true) {
                best = Some((at, name, r, reference));
            }
        }
    }
    let (at, who, other, p1) = match best {
        Some(b) => b,
        None => {
            // all equal to p1 (hash collision impossible here) — children differ among themselves only
            return Ok(());
        }
    };
    let in_process = p2 != *runs[0].2;
    let only_dirty = !in_process && c1 == *runs[1].2 && c2 == *runs[2].2;
    ctx.label(if only_dirty {
        "diverged:dirty-context-only"
    } else if in_process {
        "diverged:in-process"
    } else {
        "diverged:cross-process-only"
    });
    if let Some(id) = classify(t, at, p1, other) {
        // every differing run must show the same listed discrepancy
        let all_match = runs.iter().all(|(_, r, reference)| match first_diff(reference, r) {
            None => true,
            Some(a) => classify(t, a, reference, r) == Some(id),
        });
        if all_match && ctx.tolerate(id) {
            ctx.label(&format!("tolerated:{}", id));
            return Ok(());
        }
    }
    let show = |v: &Vec<String>, i: usize| v.get(i).cloned().unwrap_or_else(|| "<transcript ends>".to_string());
    let clip = |s: String| if s.len() > 1500 { format!("{}…", &s[..s.char_indices().take(1500).last().map(|(i, _)| i).unwrap_or(0)]) } else { s };
    Err(format!(
        "harness {} preset {} seed {} n {}: transcripts differ ({}): first in-process run vs {} at line {} field `{}`\n    run A: {}\n    run B: {}\n    previous (common) line: {}\n    transcript hashes [in-process 1, in-process 2, child 1, child 2] = {:016x?}",
        t.harness,
        t.preset,
        t.seed,
        t.n,
        if only_dirty {
            "the four pristine runs agree; only the run in the dirty context differs"
        } else if in_process {
            "already inside one process"
        } else {
            "between processes only"
        },
        who,
        at,
        key_of(&show(&p1, at)),
        clip(show(&p1, at)),
        clip(show(other, at)),
        if at > 0 { clip(show(&p1, at - 1)) } else { "<none>".into() },
        hashes
    ) + &if only_dirty { format!("\n    dirty context: {:?}", dctx_used) } else { String::new() })
}

fn dirty_strategy() -> impl Strategy<Value = dirty::DirtyCtx> {
    let warm = (any::<u16>(), 0u64..50, 20u32..80).prop_map(|(i, seed, n)| {
        let (h, p) = dirty::WARM_POOL[(i as usize * dirty::WARM_POOL.len()) >> 16];
        dirty::Warm {
            harness: h.to_string(),
            seed,
            preset: p.to_string(),
            n,
        }
    });
    let held = (0u8..5, 0u64..50, 0u8..4, 0u8..4).prop_map(|(kind, seed, preset, drop_at)| dirty::Held {
        // simulations that own a fault preset twice as often as the others
        kind: if kind >= 3 && seed % 2 == 0 { kind - 3 } else { kind },
        seed,
        preset,
        drop_at,
    });
    (
        proptest::collection::vec(warm, 0..=3),
        proptest::collection::vec(held, 0..=3),
        proptest::option::of(0u8..5),
        any::<bool>(),
        any::<bool>(),
        prop_oneof![3 => Just(0u16), 1 => Just(70u16)],
        prop_oneof![2 => Just(0u16), 1 => Just(70u16), 1 => Just(130u16)],
    )
        .prop_map(|(warmups, held, ambient, probe_after_construct, probe_mid, stall_after_construct_ms, stall_mid_ms)| dirty::DirtyCtx {
            warmups,
            neighbours: Vec::new(),
            held,
            ambient,
            probe_after_construct,
            probe_mid,
            stall_after_construct_ms,
            stall_mid_ms,
        })
}

/// Boundary seeds: the values a "0 means unset" / overflow / truncation bug keys on, values whose
/// sub-seeds (the harnesses derive `seed.wrapping_add(1)`, `seed + pipeline_size`, this check's
/// drivers `seed ^ constant`) hit 0, and the 32-bit / sign boundaries.
fn boundary_seeds() -> Vec<u64> {
    let mut v: Vec<u64> = vec![
        0,
        1,
        2,
        u64::MAX,
        u64::MAX - 1,
        i64::MAX as u64,
        i64::MAX as u64 + 1,
        (1 << 32) - 1,
        1 << 32,
        (1 << 32) + 1,
        (1 << 31) - 1,
        1 << 31,
    ];
    // seed + size == 0 for the pipeline sizes PipelineSimulator adds to the seed
    for size in [1u64, 2, 4, 8, 16, 32, 64] {
        v.push(0u64.wrapping_sub(size));
    }
    // the drivers' own xor constants (seed ^ c == 0) and their neighbours
    for c in [0x5EED_C20C_20C2_0C20u64, 0x9A27_1710, 0xC0_11EC, 0x919E, 0x5CE2_A210, 0x0B1E_C7, 0x9e37] {
        v.push(c);
        v.push(c ^ 1);
    }
    v
}

fn seed_strategy() -> impl Strategy<Value = u64> {
    let b = boundary_seeds();
    prop_oneof![
        3 => 0u64..1000,
        2 => any::<u64>(),
        3 => any::<u16>().prop_map(move |i| b[(i as usize * b.len()) >> 16]),
        1 => Just(42u64),
        1 => Just(12345u64),
    ]
}

fn redis_dst_preset(kd: u8, keys: u8, skew: u8, nodes: u8, faults: u8) -> String {
    const KEYS: [u64; 4] = [10, 50, 100, 1000];
    const SKEW: [&str; 6] = ["0.5", "0.8", "1", "1.2", "1.5", "2"];
    const FAULTS: [&str; 3] = ["moderate", "calm", "chaos"];
    format!(
        "kd={},keys={},skew={},nodes={},faults={}",
        if kd % 2 == 0 { "zipf" } else { "uniform" },
        KEYS[keys as usize % 4],
        SKEW[skew as usize % 6],
        3 + nodes % 4,
        FAULTS[faults as usize % 3]
    )
}

/// A configuration of the same harness that differs from (seed, preset, n) in exactly one field.
fn neighbour(hname: &'static str, seed: u64, preset: &str, n: u32, field: u8, pick: u16) -> dirty::Warm {
    let d = def(hname).expect("harness");
    let slow = matches!(hname, "streaming" | "compaction");
    let cap = if slow { 60 } else { 400 };
    let mut w = dirty::Warm {
        harness: hname.to_string(),
        seed,
        preset: preset.to_string(),
        n: n.min(cap),
    };
    match field % 3 {
        0 => {
            let b = boundary_seeds();
            w.seed = match pick % 4 {
                0 => seed ^ 1,
                1 => seed.wrapping_add(1),
                2 => seed.wrapping_sub(1),
                _ => b[(pick as usize / 4) % b.len()],
            };
            if w.seed == seed {
                w.seed = seed ^ 2;
            }
        }
        1 => {
            if preset.contains('=') {
                // exactly one parameter changes
                let mut parts: Vec<String> = preset.split(',').map(|x| x.to_string()).collect();
                let which = (pick as usize) % parts.len();
                let (k, v) = parts[which].split_once('=').map(|(a, b)| (a.to_string(), b.to_string())).unwrap_or_default();
                let alt = |options: &[&str]| -> String {
                    let cur = options.iter().position(|o| *o == v).unwrap_or(0);
                    options[(cur + 1 + (pick as usize / 8) % (options.len() - 1)) % options.len()].to_string()
                };
                let nv = match k.as_str() {
                    "kd" => alt(&["zipf", "uniform"]),
                    "keys" => alt(&["10", "50", "100", "1000"]),
                    "skew" => alt(&["0.5", "0.8", "1", "1.2", "1.5", "2"]),
                    "nodes" => alt(&["3", "4", "5", "6"]),
                    _ => alt(&["moderate", "calm", "chaos"]),
                };
                parts[which] = format!("{}={}", k, nv);
                w.preset = parts.join(",");
            } else if d.presets.len() > 1 {
                let cur = d.presets.iter().position(|p| *p == preset).unwrap_or(0);
                w.preset = d.presets[(cur + 1 + pick as usize % (d.presets.len() - 1)) % d.presets.len()].to_string();
            } else {
                w.seed = seed ^ 1;
            }
        }
        _ => {
            w.n = if pick % 2 == 0 { n / 2 + 1 } else { n + 13 }.min(cap);
            if w.n == n {
                w.n = n.saturating_sub(7).max(1);
            }
        }
    }
    w
}

/// The parameterised form of a configuration, where the driver has one (the preset constructors of
/// redis_dst are points in the same parameter space).
fn param_form(hname: &str, preset: &str) -> Option<String> {
    if hname != "redis_dst" {
        return None;
    }
    Some(match preset {
        p if p.contains('=') => p.to_string(),
        "zipf" => "kd=zipf,keys=1000,skew=1,nodes=5,faults=moderate".to_string(),
        "uniform" => "kd=uniform,keys=50,skew=1,nodes=4,faults=moderate".to_string(),
        "calm" => "kd=zipf,keys=1000,skew=1,nodes=3,faults=calm".to_string(),
        "chaos" => "kd=zipf,keys=1000,skew=1,nodes=6,faults=chaos".to_string(),
        _ => return None,
    })
}

/// ENUMERATED neighbours: one warm-up per configuration field of the run under test — the seed,
/// n, and the preset (for a parameterised configuration: one per parameter, each keeping all
/// the other parameters, so "same num_keys, other skew" and "same skew, other num_keys" are
/// both always present). `pick` only selects WHICH other value a field takes.
fn neighbours_all(hname: &'static str, seed: u64, preset: &str, n: u32, pick: u16) -> Vec<dirty::Warm> {
    let mut v = Vec::new();
    match param_form(hname, preset) {
        Some(pf) => {
            let nparams = pf.split(',').count() as u16;
            for which in 0..nparams {
                // `neighbour` changes parameter number (pick % nparams); keep the rest of pick
                let p = (pick / nparams.max(1)) * nparams + which;
                v.push(neighbour(hname, seed, &pf, n, 1, p));
            }
        }
        None => v.push(neighbour(hname, seed, preset, n, 1, pick)),
    }
    v.push(neighbour(hname, seed, preset, n, 0, pick));
    v.push(neighbour(hname, seed, preset, n, 2, pick));
    v
}

/// The dirty contexts actually run for a triple. A memo / cache keyed on PART of a configuration
/// may keep the first or the last entry it sees, and a neighbour that shares the key AND the
/// remaining parameters with the run under test re-populates it correctly. For a parameterised
/// configuration every one-parameter neighbour therefore gets its own dirty run in which it comes
/// first (and another one last): rotation r runs [P_r, seed-neighbour, n-neighbour, P_r+1, …, P_r-1].
fn dirty_variants(t: &Triple) -> Vec<dirty::DirtyCtx> {
    let k = match param_form(&t.harness, &t.preset) {
        Some(pf) => pf.split(',').count(),
        None => 0,
    };
    if k == 0 || t.ctx.neighbours.len() < k + 2 {
        return vec![t.ctx.clone()];
    }
    let (params, rest) = t.ctx.neighbours.split_at(k);
    (0..k)
        .map(|r| {
            let mut c = t.ctx.clone();
            let mut nb = vec![params[r].clone()];
            nb.extend(rest.iter().cloned());
            for j in 1..k {
                nb.push(params[(r + j) % k].clone());
            }
            c.neighbours = nb;
            c
        })
        .collect()
}

fn triple_strategy(hname: &'static str, thorough: bool) -> impl Strategy<Value = Triple> {
    let d = def(hname).expect("harness");
    let presets = d.presets;
    let (lo, hi) = (d.n.0, if thorough { d.n_thorough } else { d.n.1 });
    (
        seed_strategy(),
        any::<u16>(),
        // below the non-trivial threshold only rarely
        prop_oneof![1 => 1u32..lo, 9 => lo..=hi],
        dirty_strategy(),
        // generated configuration (harnesses whose API takes more than a preset constructor)
        proptest::option::weighted(0.6, (any::<u8>(), any::<u8>(), any::<u8>(), any::<u8>(), any::<u8>())),
        // neighbouring configurations of the same harness run before the dirty run: sampled ...
        proptest::collection::vec((0u8..3, any::<u16>()), 0..=3),
        // ... or (half of the triples; always for parameterised configurations) enumerated
        (any::<bool>(), any::<u16>()),
    )
        .prop_map(move |(seed, pi, n, mut ctx, params, nb, (enumerate, epick))| {
            let preset = match (hname, params) {
                ("redis_dst", Some((a, b, c, d, e))) => redis_dst_preset(a, b, c, d, e),
                _ => presets[(pi as usize * presets.len()) >> 16].to_string(),
            };
            ctx.neighbours = if enumerate || param_form(hname, &preset).is_some() {
                neighbours_all(hname, seed, &preset, n, epick)
            } else {
                nb.iter().map(|(f, p)| neighbour(hname, seed, &preset, n, *f, *p)).collect()
            };
            Triple {
                harness: hname.to_string(),
                seed,
                preset,
                n,
                ctx,
            }
        })
}

fn main() {
    let args = vcore::parse_args();
    if matches!(args.rest.first().map(|s| s.as_str()), Some("child") | Some("pair") | Some("dirty")) {
        child_main(&args.rest);
    }
    let s = Session::new(
        "C20",
        Level::Exploration,
        "per harness (executor, list, set, hash, zset, txn, gcounter, pncounter, orset, vclock, dst, redis_dst, multi_broadcast, multi_partitioned, partition, \
         streaming, compaction, wal, connection, pipeline, scenario, event_sim, sim_store) generated triples (seed: small / arbitrary u64, preset: every preset \
         constructor of the harness plus a few generated configurations, n: operation count); each triple = 2 runs back to back in one fresh process + 1 run in each of two more fresh processes + 1 run in a generated dirty context \
         (other simulations run/held/dropped before and around it on the same thread, ambient BUGGIFY preset set before construction); five canonical transcripts compared line by line. non-trivial = the run performed >= 100 operations and, where the harness/preset can inject faults, \
         at least one fault was injected; distinct by (harness, seed, preset, n)",
        &args,
    );
    s.assume("transcript = what the public API exposes; HashMap/HashSet renderings inside Debug output are canonicalised by sorting {…} groups, state dumps are sorted by key");
    s.assume("thread-local BUGGIFY statistics are reset by the caller before every run (as run_redis_dst_batch does); the same-process pair runs back to back on one thread of a fresh process, so the thread-local BUGGIFY configuration starts from its default and only the harness itself changes it");
    s.assume("harnesses that are libraries (MultiNodeSimulation, SimulatedConnection, ScenarioBuilder, Simulation, SimulatedObjectStore) are driven by a workload that is a pure function of the seed (a separate DeterministicRng stream)");
    s.assume("child stderr (eprintln! warnings of the streaming harnesses) is not part of the transcript");
    s.note("not_covered", json!("security::acl_dst is compiled only with the `acl` cargo feature, which the harness build does not enable"));

    // ---- probes: minimal reproducers of the listed findings (nothing tolerated)
    let probe = |id: &str, triples: Vec<Triple>| {
        let reproducer = json!(triples);
        s.probe(id, reproducer, || {
            for t in &triples {
                if let Err(e) = s.strict_eval(|ctx| check_triple(t, ctx)) {
                    return Some(e);
                }
            }
            None
        });
    };
    let tr = |h: &str, seed: u64, p: &str, n: u32| Triple {
        harness: h.into(),
        seed,
        preset: p.into(),
        n,
        ctx: Default::default(),
    };
    probe(KF01, vec![tr("multi_partitioned", 1, "rf3", 120), tr("multi_partitioned", 2, "rf3", 120), tr("multi_partitioned", 3, "rf3_lossy", 120)]);
    probe(KF02, vec![tr("dst", 1, "chaos8", 1200), tr("dst", 2, "chaos8", 1200), tr("dst", 3, "chaos8", 1200), tr("dst", 4, "chaos8", 1200)]);
    probe(KF03, vec![tr("sim_store", 1, "no_faults", 100)]);
    probe(KF04, vec![tr("scenario", 1, "sets", 200), tr("scenario", 2, "sets", 200)]);
    probe(KF05, vec![tr("multi_broadcast", 7, "partitions", 200), tr("multi_broadcast", 8, "partitions", 200), tr("multi_broadcast", 9, "lossy_partitions", 200)]);

    // ---- generated triples, one check per harness, all harnesses concurrently
    let thorough = s.thorough();
    std::thread::scope(|scope| {
        for h in HARNESSES {
            let s = &s;
            scope.spawn(move || {
                let name = format!("h_{}", h.name);
                s.describe_check(
                    &name,
                    &format!("presets {:?}, n {}..={}", h.presets, h.n.0, if thorough { h.n_thorough } else { h.n.1 }),
                );
                let cases = s.scale(h.cases.0, h.cases.1);
                s.run_cases(&name, cases, || triple_strategy(h.name, thorough), check_triple);
            });
        }
    });
    s.finish();
}
