//! C14 — stored and gossiped updates round-trip; damaged storage is detected, not decoded.
//!
//! Checks (DESIGN.md §3 C14):
//!   roundtrip       generated batches (1–50 updates of every replicated kind, produced through
//!                   the real API) through WalEntry encode/decode and a WalRotator file set,
//!                   SegmentWriter/Reader, CheckpointWriter/Reader and all five GossipMessage
//!                   variants; the peer-view projection must be identical
//!   mut_segment     for a generated segment image: EVERY truncation length and every byte
//!   mut_checkpoint  position x {8 bit flips, 0x00, 0xFF} (images > 3000 bytes, thorough
//!   mut_wal         > 16 KiB: all structural bytes + sampled body), each through the pipeline in
//!                   the order recovery uses it (direct API: open -> validate -> read, and
//!                   through RecoveryManager::recover / WalRotator::recover_all_entries):
//!                   error (or, WAL, a shorter entry list) or identical projection; no panic.
//!                   Plus multi-byte damage, one run at a time: runs of >= 2 bytes overwritten
//!                   with zeros / ones / noise - every pair of field boundaries, every aligned
//!                   block of 8..4096 bytes, and free runs drawn from the case (same oracle; a
//!                   genuine CRC-32 collision, recognised with the harness' own CRC, is not judged)
//!   roundtrip_sizes serialized updates of exactly 64 KiB, 1 MiB-64..1 MiB+64, 2 MiB, 8 MiB (one
//!                   string / a 64-field hash) between two small ones, through every encoding
//!   mut_segment_compact  a damaged segment among 2-3, then the real Compactor::compact (a second
//!                   consumer of segments), then RecoveryManager::recover: error or the merge of
//!                   what was written - never data laundered under a fresh checksum
//! Other public readers driven with the mutated images: recover_with_progress,
//! CheckpointManager::load_checkpoint, WalRotator::recover_entries_after.

mod worldgen;

use futures::FutureExt;
use proptest::prelude::*;
use redis_sim::replication::{GossipMessage, ReplicaId, ReplicatedValue, ReplicationDelta};
use redis_sim::streaming::{
    CheckpointConfig, CheckpointManager, CompactionConfig, Compactor,
    CheckpointInfo, CheckpointReader, CheckpointWriter, Compression, InMemoryObjectStore,
    InMemoryWalStore, Manifest, ManifestManager, ObjectStore, RecoveryManager, SegmentInfo,
    SegmentReader, SegmentWriter, WalEntry, WalRotator,
};
use serde::{Deserialize, Serialize};
use serde_json::{json, Value as J};
use std::collections::{BTreeMap, HashMap};
use std::sync::{Arc, Mutex};
use vcore::time::VerifTime;
use vcore::proj::peer_view;
use vcore::runner::catch;
use vcore::{CaseCtx, Level, Session};
use worldgen::{Features, GenCfg, WorldSpec};

/// images up to this size are enumerated completely (quick / thorough tier); larger ones get
/// all structural bytes + sampled body bytes
const FULL_LIMIT_QUICK: usize = 3000;
const FULL_LIMIT_THOROUGH: usize = 16384;

fn full_limit(ctx: &CaseCtx<'_>) -> usize {
    if ctx.tier() == vcore::Tier::Thorough {
        FULL_LIMIT_THOROUGH
    } else {
        FULL_LIMIT_QUICK
    }
}

fn ready<F: std::future::Future>(f: F) -> F::Output {
    f.now_or_never()
        .expect("in-memory store future was not immediately ready")
}

/// projection of a replicated value: the serde-based peer view AND the accessor-based view
fn vproj(v: &ReplicatedValue) -> J {
    json!({"peer": peer_view(v), "fields": worldgen::access_view(v)})
}

fn dproj(d: &ReplicationDelta) -> J {
    json!({"key": d.key, "src": d.source_replica.0, "value": vproj(&d.value)})
}

fn projs(ds: &[ReplicationDelta]) -> Vec<J> {
    ds.iter().map(dproj).collect()
}

fn first_diff(a: &[J], b: &[J]) -> String {
    if a.len() != b.len() {
        return format!("{} updates decoded, {} encoded", b.len(), a.len());
    }
    for (i, (x, y)) in a.iter().zip(b.iter()).enumerate() {
        if x != y {
            let (xs, ys) = (x.to_string(), y.to_string());
            let cut = |s: &str| s.chars().take(600).collect::<String>();
            return format!("update #{}: encoded {} but decoded {}", i, cut(&xs), cut(&ys));
        }
    }
    "no difference".into()
}

// ---------------------------------------------------------------------------------------
// cases
// ---------------------------------------------------------------------------------------

#[derive(Clone, Debug, Serialize, Deserialize)]
struct RtCase {
    world: WorldSpec,
    epoch: u64,
    ts_ms: u64,
    last_seg: u64,
    wal_file_size: u16,
}

#[derive(Clone, Debug, Serialize, Deserialize)]
struct MutCase {
    world: WorldSpec,
    ts_ms: u64,
    last_seg: u64,
    wal_file_size: u16,
    /// body positions (fraction of the image, bit) sampled when the image is not enumerated
    /// completely
    samples: Vec<(u16, u8)>,
}

fn classify(world: &WorldSpec, deltas: &[ReplicationDelta], ctx: &mut CaseCtx<'_>) -> Features {
    let f = Features::of(deltas);
    for l in f.labels() {
        ctx.label(l);
    }
    ctx.label(match deltas.len() {
        0 => "batch_0",
        1 => "batch_1",
        2..=9 => "batch_2_9",
        10..=29 => "batch_10_29",
        _ => "batch_30_plus",
    });
    for op in &world.ops {
        match op {
            worldgen::Op::Write { val, .. } => ctx.label(val.class()),
            worldgen::Op::HSet { fields, .. } => {
                for (_, p) in fields {
                    ctx.label(p.class());
                }
            }
            _ => {}
        }
    }
    if world
        .keys
        .iter()
        .any(|k| k.is_empty() || k.chars().any(|c| (c as u32) < 0x20 || (c as u32) >= 0x7f))
    {
        ctx.label("adversarial_key");
    }
    f
}

// ---------------------------------------------------------------------------------------
// encoders (the real writers)
// ---------------------------------------------------------------------------------------

fn write_segment(deltas: &[ReplicationDelta]) -> Result<Vec<u8>, String> {
    let mut w = SegmentWriter::new(Compression::None);
    for d in deltas {
        w.write_delta(d).map_err(|e| format!("write_delta: {}", e))?;
    }
    w.finish().map_err(|e| format!("finish: {}", e))
}

/// checkpoint state: the last update per key
fn last_per_key(deltas: &[ReplicationDelta]) -> BTreeMap<String, ReplicatedValue> {
    let mut m = BTreeMap::new();
    for d in deltas {
        m.insert(d.key.clone(), d.value.clone());
    }
    m
}

fn state_proj(m: &HashMap<String, ReplicatedValue>) -> BTreeMap<String, J> {
    m.iter().map(|(k, v)| (k.clone(), vproj(v))).collect()
}

fn write_checkpoint(
    state: &BTreeMap<String, ReplicatedValue>,
    ts_ms: u64,
    last_seg: u64,
) -> Result<Vec<u8>, String> {
    let hm: HashMap<String, ReplicatedValue> =
        state.iter().map(|(k, v)| (k.clone(), v.clone())).collect();
    CheckpointWriter::new(Compression::None)
        .write(hm, ts_ms, last_seg)
        .map_err(|e| format!("CheckpointWriter::write: {}", e))
}

fn wal_name(seq: u64) -> String {
    format!("wal-{:08x}.wal", seq)
}

#[derive(Clone, Debug)]
struct WEntry {
    ts: u64,
    data: Vec<u8>,
    proj: J,
}

/// Write all deltas through a WalRotator (stamp = the delta's own Lamport time, as the node
/// does); returns the store and, per file in sequence order, (name, entries written).
fn write_wal(
    deltas: &[ReplicationDelta],
    max_file_size: usize,
) -> Result<(InMemoryWalStore, Vec<(String, Vec<WEntry>)>), String> {
    let store = InMemoryWalStore::new();
    let mut rot =
        WalRotator::new(store.clone(), max_file_size).map_err(|e| format!("WalRotator::new: {}", e))?;
    let mut files: BTreeMap<u64, Vec<WEntry>> = BTreeMap::new();
    for d in deltas {
        let ts = d.value.timestamp.time;
        let e = WalEntry::from_delta(d, ts).map_err(|e| format!("from_delta: {}", e))?;
        let seq = rot.append(&e).map_err(|e| format!("append: {}", e))?;
        files.entry(seq).or_default().push(WEntry {
            ts,
            data: e.data.clone(),
            proj: dproj(d),
        });
    }
    rot.sync().map_err(|e| format!("sync: {}", e))?;
    Ok((
        store,
        files.into_iter().map(|(s, v)| (wal_name(s), v)).collect(),
    ))
}

// ---------------------------------------------------------------------------------------
// decoders, in the order recovery uses them
// ---------------------------------------------------------------------------------------

fn seg_direct(img: &[u8]) -> Result<Vec<ReplicationDelta>, String> {
    let r = SegmentReader::open(img).map_err(|e| format!("open: {}", e))?;
    r.validate().map_err(|e| format!("validate: {}", e))?;
    r.deltas()
        .map_err(|e| format!("deltas: {}", e))?
        .collect::<Result<Vec<_>, _>>()
        .map_err(|e| format!("read: {}", e))
}

struct SegRecovery {
    store: InMemoryObjectStore,
    mgr: RecoveryManager<InMemoryObjectStore>,
    key: String,
}

impl SegRecovery {
    fn new(deltas: &[ReplicationDelta], size: usize) -> Result<Self, String> {
        let store = InMemoryObjectStore::new();
        let key = "p/segments/segment-00000000.seg".to_string();
        let mut m = Manifest::new(1);
        m.add_segment(SegmentInfo {
            id: 0,
            key: key.clone(),
            record_count: deltas.len() as u32,
            size_bytes: size as u64,
            min_timestamp: deltas.iter().map(|d| d.value.timestamp.time).min().unwrap_or(0),
            max_timestamp: deltas.iter().map(|d| d.value.timestamp.time).max().unwrap_or(0),
        });
        ready(ManifestManager::new(store.clone(), "p").save(&m)).map_err(|e| e.to_string())?;
        let mgr = RecoveryManager::new(store.clone(), "p", 1);
        Ok(SegRecovery { store, mgr, key })
    }
    fn run(&self, img: &[u8]) -> Result<Vec<ReplicationDelta>, String> {
        ready(self.store.put(&self.key, img)).map_err(|e| e.to_string())?;
        let r = ready(self.mgr.recover()).map_err(|e| format!("recover: {}", e))?;
        if r.checkpoint_state.is_some() {
            return Err("harness: unexpected checkpoint".into());
        }
        Ok(r.deltas)
    }
    /// the object is already in the store (call after `run`): what StreamingIntegration::recover uses
    fn run_progress(&self) -> Result<Vec<ReplicationDelta>, String> {
        let r = ready(self.mgr.recover_with_progress(|_| {}))
            .map_err(|e| format!("recover_with_progress: {}", e))?;
        Ok(r.deltas)
    }
}

/// (state, key_count, timestamp_ms, last_segment_id)
type CkOut = (BTreeMap<String, J>, u64, u64, u64);

fn ck_direct(img: &[u8]) -> Result<CkOut, String> {
    let r = CheckpointReader::open(img).map_err(|e| format!("open: {}", e))?;
    r.validate().map_err(|e| format!("validate: {}", e))?;
    let d = r.load().map_err(|e| format!("load: {}", e))?;
    Ok((
        state_proj(&d.state),
        r.key_count(),
        r.timestamp_ms(),
        r.last_segment_id(),
    ))
}

struct CkRecovery {
    store: InMemoryObjectStore,
    mgr: RecoveryManager<InMemoryObjectStore>,
    key: String,
}

impl CkRecovery {
    fn new(key_count: u64, ts_ms: u64, last_seg: u64) -> Result<Self, String> {
        let store = InMemoryObjectStore::new();
        let key = "p/checkpoints/chk-0000000000000001.chk".to_string();
        let mut m = Manifest::new(1);
        m.checkpoint = Some(CheckpointInfo {
            key: key.clone(),
            timestamp_ms: ts_ms,
            key_count,
            last_segment_id: last_seg,
        });
        ready(ManifestManager::new(store.clone(), "p").save(&m)).map_err(|e| e.to_string())?;
        let mgr = RecoveryManager::new(store.clone(), "p", 1);
        Ok(CkRecovery { store, mgr, key })
    }
    fn run(&self, img: &[u8]) -> Result<BTreeMap<String, J>, String> {
        ready(self.store.put(&self.key, img)).map_err(|e| e.to_string())?;
        let r = ready(self.mgr.recover()).map_err(|e| format!("recover: {}", e))?;
        match r.checkpoint_state {
            Some(s) => Ok(state_proj(&s)),
            None => Err("harness: no checkpoint state returned".into()),
        }
    }
    /// the object is already in the store (call after `run`)
    fn run_progress(&self) -> Result<BTreeMap<String, J>, String> {
        let r = ready(self.mgr.recover_with_progress(|_| {}))
            .map_err(|e| format!("recover_with_progress: {}", e))?;
        match r.checkpoint_state {
            Some(s) => Ok(state_proj(&s)),
            None => Err("harness: no checkpoint state returned".into()),
        }
    }
    /// the third public reader of checkpoints: CheckpointManager::load_checkpoint
    fn run_manager(&self) -> Result<BTreeMap<String, J>, String> {
        let cm = CheckpointManager::with_time_source(
            Arc::new(self.store.clone()),
            "p".to_string(),
            ManifestManager::new(self.store.clone(), "p"),
            CheckpointConfig::test(),
            VerifTime::new(0),
        );
        let d = ready(cm.load_checkpoint(&self.key)).map_err(|e| format!("load_checkpoint: {}", e))?;
        Ok(state_proj(&d.state))
    }
}

fn wal_read(store: &InMemoryWalStore) -> Result<Vec<WalEntry>, String> {
    let rot = WalRotator::new(store.clone(), 1 << 30).map_err(|e| format!("WalRotator::new: {}", e))?;
    rot.recover_all_entries()
        .map_err(|e| format!("recover_all_entries: {}", e))
}

/// Does the recovered entry carry the written data? Byte-identical data decodes identically;
/// anything else is decoded and compared by projection.
fn same_data(got: &WalEntry, want: &WEntry) -> Result<(), String> {
    if got.data == want.data {
        return Ok(());
    }
    match got.to_delta() {
        Ok(d) if dproj(&d) == want.proj => Ok(()),
        Ok(d) => Err(format!("{}", dproj(&d))),
        Err(e) => Err(format!("passes the entry CRC but does not decode: {}", e)),
    }
}

// ---------------------------------------------------------------------------------------
// round trip
// ---------------------------------------------------------------------------------------

fn msg_proj(m: &GossipMessage) -> J {
    match m {
        GossipMessage::DeltaBatch {
            source_replica,
            deltas,
            epoch,
        } => json!({"v": "DeltaBatch", "src": source_replica.0, "epoch": epoch, "deltas": projs(deltas)}),
        GossipMessage::TargetedDelta {
            source_replica,
            target_replica,
            deltas,
            epoch,
        } => json!({"v": "TargetedDelta", "src": source_replica.0, "dst": target_replica.0, "epoch": epoch, "deltas": projs(deltas)}),
        GossipMessage::SyncRequest {
            source_replica,
            known_versions,
        } => {
            let kv: BTreeMap<&String, &u64> = known_versions.iter().collect();
            json!({"v": "SyncRequest", "src": source_replica.0, "known": kv})
        }
        GossipMessage::SyncResponse {
            source_replica,
            deltas,
        } => json!({"v": "SyncResponse", "src": source_replica.0, "deltas": projs(deltas)}),
        GossipMessage::Heartbeat {
            source_replica,
            epoch,
        } => json!({"v": "Heartbeat", "src": source_replica.0, "epoch": epoch}),
    }
}

fn check_roundtrip(case: &RtCase, ctx: &mut CaseCtx<'_>) -> Result<(), String> {
    let (deltas, _) = worldgen::run(&case.world);
    let feats = classify(&case.world, &deltas, ctx);
    if deltas.is_empty() {
        return Ok(());
    }
    let want = projs(&deltas);

    // ---- WAL entry
    for (i, d) in deltas.iter().enumerate() {
        let ts = d.value.timestamp.time;
        let e = WalEntry::from_delta(d, ts).map_err(|e| format!("WalEntry::from_delta: {}", e))?;
        let enc = e.encode();
        if enc.len() != e.disk_size() {
            return Err(format!("wal: encode() gives {} bytes, disk_size() says {}", enc.len(), e.disk_size()));
        }
        // decode alone and followed by other bytes (the next entry)
        for tail in [&b""[..], &b"\x01\x02\x03"[..]] {
            let mut buf = enc.clone();
            buf.extend_from_slice(tail);
            let (back, used) = WalEntry::decode(&buf)
                .ok_or_else(|| format!("wal: intact entry #{} does not decode", i))?;
            if used != enc.len() || back.timestamp != ts || !back.validate() {
                return Err(format!(
                    "wal: entry #{} decoded with consumed={} (encoded {}), stamp {} (written {}), crc ok = {}",
                    i, used, enc.len(), back.timestamp, ts, back.validate()
                ));
            }
            let bd = back.to_delta().map_err(|e| format!("wal: to_delta #{}: {}", i, e))?;
            if dproj(&bd) != want[i] {
                return Err(format!("wal entry: {}", first_diff(&want[i..=i], &[dproj(&bd)])));
            }
        }
    }
    // ---- WAL files through the rotator
    {
        let (store, files) = write_wal(&deltas, 64 + case.wal_file_size as usize)?;
        let got = wal_read(&store)?;
        let flat: Vec<&WEntry> = files.iter().flat_map(|(_, v)| v.iter()).collect();
        if got.len() != flat.len() {
            return Err(format!("wal files: wrote {} entries in {} files, recovered {}", flat.len(), files.len(), got.len()));
        }
        for (i, (w, g)) in flat.iter().zip(got.iter()).enumerate() {
            let back = g.to_delta().map(|d| dproj(&d)).map_err(|e| e.to_string());
            if g.timestamp != w.ts || back.as_ref() != Ok(&w.proj) {
                return Err(format!(
                    "wal files: entry #{} written as (stamp {}, {}) recovered as (stamp {}, {:?})",
                    i, w.ts, w.proj, g.timestamp, back
                ));
            }
        }
        if files.len() >= 2 {
            ctx.label("wal_multi_file");
        }
    }

    // ---- segment
    {
        let img = write_segment(&deltas)?;
        let r = SegmentReader::open(&img).map_err(|e| format!("segment: open of an intact image: {}", e))?;
        r.validate().map_err(|e| format!("segment: validate of an intact image: {}", e))?;
        let h = r.header();
        let (mn, mx) = (
            deltas.iter().map(|d| d.value.timestamp.time).min().unwrap(),
            deltas.iter().map(|d| d.value.timestamp.time).max().unwrap(),
        );
        if h.record_count as usize != deltas.len() || h.min_timestamp != mn || h.max_timestamp != mx {
            return Err(format!(
                "segment header says count={} min={} max={}, written count={} min={} max={}",
                h.record_count, h.min_timestamp, h.max_timestamp, deltas.len(), mn, mx
            ));
        }
        let back = r.read_all().map_err(|e| format!("segment: read_all of an intact image: {}", e))?;
        let got = projs(&back);
        if got != want {
            return Err(format!("segment: {}", first_diff(&want, &got)));
        }
        let via = SegRecovery::new(&deltas, img.len())?.run(&img)?;
        if projs(&via) != want {
            return Err(format!("segment via RecoveryManager: {}", first_diff(&want, &projs(&via))));
        }
    }

    // ---- checkpoint
    {
        let state = last_per_key(&deltas);
        let want_state: BTreeMap<String, J> = state.iter().map(|(k, v)| (k.clone(), vproj(v))).collect();
        let img = write_checkpoint(&state, case.ts_ms, case.last_seg)?;
        let (got, kc, ts, ls) = ck_direct(&img).map_err(|e| format!("checkpoint: intact image rejected: {}", e))?;
        if kc != state.len() as u64 || ts != case.ts_ms || ls != case.last_seg {
            return Err(format!(
                "checkpoint header says keys={} ts={} last_segment={}, written keys={} ts={} last_segment={}",
                kc, ts, ls, state.len(), case.ts_ms, case.last_seg
            ));
        }
        if got != want_state {
            let a: Vec<J> = want_state.iter().map(|(k, v)| json!([k, v])).collect();
            let b: Vec<J> = got.iter().map(|(k, v)| json!([k, v])).collect();
            return Err(format!("checkpoint: {}", first_diff(&a, &b)));
        }
        let via = CkRecovery::new(kc, ts, ls)?.run(&img)?;
        if via != want_state {
            return Err("checkpoint via RecoveryManager: state differs from what was written".into());
        }
    }

    // ---- gossip, all five variants
    {
        let src = ReplicaId::new(case.epoch % 7);
        let known: HashMap<String, u64> = deltas
            .iter()
            .enumerate()
            .map(|(i, d)| (d.key.clone(), case.epoch.rotate_left(i as u32)))
            .collect();
        let msgs = vec![
            GossipMessage::new_delta_batch(src, deltas.clone(), case.epoch),
            GossipMessage::new_targeted_delta(src, ReplicaId::new(case.ts_ms), deltas[..deltas.len().min(3)].to_vec(), case.epoch),
            GossipMessage::SyncRequest {
                source_replica: src,
                known_versions: known,
            },
            GossipMessage::SyncResponse {
                source_replica: src,
                deltas: deltas[deltas.len().saturating_sub(3)..].to_vec(),
            },
            GossipMessage::new_heartbeat(src, case.epoch),
        ];
        for m in &msgs {
            let bytes = m.serialize().map_err(|e| format!("gossip serialize: {}", e))?;
            let back = GossipMessage::deserialize(&bytes)
                .map_err(|e| format!("gossip: own serialisation does not deserialize: {}", e))?;
            let (a, b) = (msg_proj(m), msg_proj(&back));
            if a != b {
                let (ja, jb) = (a["deltas"].as_array().cloned().unwrap_or_default(), b["deltas"].as_array().cloned().unwrap_or_default());
                return Err(format!(
                    "gossip {}: decoded message differs: {}",
                    a["v"],
                    if ja != jb { first_diff(&ja, &jb) } else { format!("{} vs {}", a, b) }
                ));
            }
        }
    }

    if feats.beyond_plain() >= 2 {
        ctx.nontrivial(&case.world);
    }
    Ok(())
}

// ---------------------------------------------------------------------------------------
// mutation enumeration
// ---------------------------------------------------------------------------------------

/// what a damaged run of bytes reads as: an unwritten / lost block (zeros), erased flash (ones),
/// garbage (deterministic pseudo-random bytes, a pure function of the seed byte and the offset)
#[derive(Clone, Copy, Debug, PartialEq, Eq, PartialOrd, Ord)]
enum Fill {
    Zero,
    Ones,
    Noise(u8),
}

impl Fill {
    fn byte(&self, i: usize) -> u8 {
        match self {
            Fill::Zero => 0x00,
            Fill::Ones => 0xff,
            Fill::Noise(s) => {
                let mut x = ((*s as u64) << 40) ^ (i as u64) ^ 0x9E37_79B9_7F4A_7C15;
                x = (x ^ (x >> 30)).wrapping_mul(0xBF58_476D_1CE4_E5B9);
                x = (x ^ (x >> 27)).wrapping_mul(0x94D0_49BB_1331_11EB);
                (x >> 33) as u8
            }
        }
    }
    fn name(&self) -> String {
        match self {
            Fill::Zero => "0x00".into(),
            Fill::Ones => "0xFF".into(),
            Fill::Noise(s) => format!("noise(seed {})", s),
        }
    }
}

#[derive(Clone, Copy, Debug)]
enum Mutation {
    Trunc(usize),
    Byte { pos: usize, old: u8, new: u8 },
    /// multi-byte damage: `len` (>= 2) consecutive bytes from `start` overwritten with `fill`;
    /// `eff` = (first, last) byte that actually changed (bytes that already held the fill value
    /// are not damage)
    Run { start: usize, len: usize, fill: Fill, eff: (usize, usize) },
}

impl Mutation {
    fn describe(&self, len: usize, field: &str) -> String {
        match self {
            Mutation::Trunc(l) => format!("truncation to {} of {} bytes (cut inside {})", l, len, field),
            Mutation::Byte { pos, old, new } => {
                format!("byte {} of {} ({}): {:#04x} -> {:#04x}", pos, len, field, old, new)
            }
            Mutation::Run { start, len: l, fill, eff } => format!(
                "bytes {}..{} of {} overwritten with {} (bytes changed: {}..={}, {})",
                start,
                start + l,
                len,
                fill.name(),
                eff.0,
                eff.1,
                field
            ),
        }
    }
    fn pos(&self) -> usize {
        match self {
            Mutation::Trunc(l) => *l,
            Mutation::Byte { pos, .. } => *pos,
            Mutation::Run { eff, .. } => eff.0,
        }
    }
    fn is_run(&self) -> bool {
        matches!(self, Mutation::Run { .. })
    }
    /// name of the damaged field(s): one field for a truncation / byte, `first..last` for a run
    fn field(&self, n: usize, of: &dyn Fn(usize) -> &'static str) -> String {
        match self {
            Mutation::Run { eff, .. } => {
                let (a, b) = (of(eff.0), of(eff.1.min(n.saturating_sub(1))));
                if a == b {
                    a.to_string()
                } else {
                    format!("{}..{}", a, b)
                }
            }
            m => of(m.pos().min(n.saturating_sub(1))).to_string(),
        }
    }
}

// ---- multi-byte damage -------------------------------------------------------------------

/// How much run damage a check enumerates per image.
#[derive(Clone, Copy)]
struct RunPlan {
    /// fills applied to every field-boundary pair
    pair_fills: &'static [u8],
    /// at most this many field boundaries take part in the pairs (the image's first 10 and last 6
    /// always do, the rest is thinned evenly)
    max_bounds: usize,
    /// smallest aligned block size
    min_block: usize,
    /// how many free runs are drawn from the case's samples
    sampled: usize,
}

/// 0 = zeros, 1 = ones, 2 = noise
const RUNS_FULL: RunPlan = RunPlan { pair_fills: &[0, 1, 2], max_bounds: 32, min_block: 8, sampled: 64 };
const RUNS_LIGHT: RunPlan = RunPlan { pair_fills: &[0], max_bounds: 14, min_block: 32, sampled: 16 };

#[derive(Default, Clone, Copy)]
struct RunStats {
    pairs: u64,
    blocks: u64,
    sampled: u64,
    /// sampled (free) runs that start before `trailer` and end inside it
    sampled_into_trailer: u64,
    thinned: bool,
}

/// per-run-family counters for the evidence file
static RUN_TOTALS: Mutex<BTreeMap<String, u64>> = Mutex::new(BTreeMap::new());

fn add_run_total(key: &str, n: u64) {
    if n > 0 {
        *RUN_TOTALS.lock().unwrap().entry(key.to_string()).or_default() += n;
    }
}

/// Runs of >= 2 bytes overwritten with zeros / ones / noise, one run at a time:
///  * every pair of field boundaries (a run that covers whole fields: a checksum together with the
///    length or count next to it, a record with the footer, the header tail with the first record …);
///  * every aligned block of 8, 16, … 4096 bytes (a lost or unwritten sector);
///  * free runs drawn from the case: short (2-8), medium (9-64), long, and runs that end in the
///    last 32 bytes.
/// `bounds` = the image's field boundaries; `trailer` = offset where the trailing structure starts.
fn enumerate_runs(
    img: &[u8],
    bounds: &[usize],
    trailer: usize,
    samples: &[(u16, u8)],
    plan: RunPlan,
    f: &mut dyn FnMut(Mutation, &[u8]) -> Result<(), String>,
) -> Result<(u64, RunStats), String> {
    let n = img.len();
    let mut stats = RunStats::default();
    if n < 2 {
        return Ok((0, stats));
    }
    let noise = Fill::Noise(samples.first().map(|s| s.1).unwrap_or(1));
    let fill_of = |c: u8| match c % 3 {
        0 => Fill::Zero,
        1 => Fill::Ones,
        _ => noise,
    };
    // (start, end, fill, family)
    let mut runs: Vec<(usize, usize, Fill, u8)> = Vec::new();
    // free runs first: a defect that needs multi-byte damage then tends to show early
    for pair in samples.chunks(2).take(plan.sampled) {
        if pair.len() < 2 {
            break;
        }
        let ((f0, b0), (f1, b1)) = (pair[0], pair[1]);
        let start = ((f0 as usize * n) >> 16).min(n - 2);
        let room = n - start;
        let end = match b0 % 4 {
            0 => start + (2 + (b1 % 7) as usize).min(room),
            1 => start + (9 + (b1 % 56) as usize).min(room),
            2 => start + (2 + ((f1 as usize * (room - 1)) >> 16)).min(room),
            _ => n.saturating_sub((b1 % 32) as usize).max(start + 2),
        };
        runs.push((start, end, fill_of(b0 >> 2), 2));
        runs.push((start, end, Fill::Zero, 2));
    }
    // field-boundary pairs
    let mut b: Vec<usize> = bounds.iter().copied().filter(|x| *x <= n).collect();
    b.push(0);
    b.push(n);
    b.sort();
    b.dedup();
    if b.len() > plan.max_bounds {
        stats.thinned = true;
        let (head, tail) = (10.min(plan.max_bounds / 2), 6.min(plan.max_bounds / 3));
        let mid = &b[head..b.len() - tail];
        let want = plan.max_bounds - head - tail;
        let mut keep: Vec<usize> = b[..head].to_vec();
        for i in 0..want {
            keep.push(mid[i * mid.len() / want]);
        }
        keep.extend_from_slice(&b[b.len() - tail..]);
        keep.sort();
        keep.dedup();
        b = keep;
    }
    for i in 0..b.len() {
        for j in i + 1..b.len() {
            if b[j] - b[i] >= 2 {
                for c in plan.pair_fills {
                    runs.push((b[i], b[j], fill_of(*c), 0));
                }
            }
        }
    }
    // aligned blocks
    let mut bs = plan.min_block;
    while bs <= 4096 {
        if n / bs <= 64 {
            let mut s = 0usize;
            while s + 2 <= n {
                let e = (s + bs).min(n);
                runs.push((s, e, Fill::Zero, 1));
                if plan.pair_fills.len() > 1 {
                    runs.push((s, e, Fill::Ones, 1));
                }
                s += bs;
            }
        }
        bs *= 2;
    }
    let mut seen: std::collections::BTreeSet<(usize, usize, Fill)> = Default::default();
    let mut buf = img.to_vec();
    let mut count = 0u64;
    for (s, e, fill, family) in runs {
        if e > n || e < s + 2 || !seen.insert((s, e, fill)) {
            continue;
        }
        for i in s..e {
            buf[i] = fill.byte(i - s);
        }
        if buf[s..e] != img[s..e] {
            let first = (s..e).find(|i| buf[*i] != img[*i]).unwrap_or(s);
            let last = (s..e).rev().find(|i| buf[*i] != img[*i]).unwrap_or(e - 1);
            f(Mutation::Run { start: s, len: e - s, fill, eff: (first, last) }, &buf)?;
            count += 1;
            match family {
                0 => stats.pairs += 1,
                1 => stats.blocks += 1,
                _ => {
                    stats.sampled += 1;
                    if s < trailer && e > trailer {
                        stats.sampled_into_trailer += 1;
                    }
                }
            }
        }
        buf[s..e].copy_from_slice(&img[s..e]);
    }
    Ok((count, stats))
}

fn label_runs(ctx: &mut CaseCtx<'_>, enc: &str, st: &RunStats) {
    ctx.label(if st.thinned { "run_pairs_thinned" } else { "run_pairs_all_field_boundaries" });
    if st.sampled_into_trailer > 0 {
        ctx.label("run_sampled_reaches_into_trailer");
    }
    add_run_total(&format!("{}/field_boundary_pairs", enc), st.pairs);
    add_run_total(&format!("{}/aligned_blocks", enc), st.blocks);
    add_run_total(&format!("{}/sampled", enc), st.sampled);
    add_run_total(&format!("{}/sampled_reaching_into_trailer", enc), st.sampled_into_trailer);
}

fn finish_runs(ctx: &mut CaseCtx<'_>, enc: &str, accepted_identical: u64, collisions: u64) {
    if accepted_identical > 0 {
        ctx.label("run_accepted_with_identical_data");
    }
    if collisions > 0 {
        ctx.label("run_not_judged_crc32_collision");
    }
    add_run_total(&format!("{}/accepted_with_identical_data", enc), accepted_identical);
    add_run_total(&format!("{}/not_judged_crc32_collision", enc), collisions);
}

/// field boundaries of a segment image
fn seg_bounds(n: usize, rec_starts: &[usize]) -> Vec<usize> {
    let mut b = vec![0, 4, 5, 6, 10, 18, 26, 30, 40];
    for s in rec_starts {
        b.extend_from_slice(&[*s, s + 4, s + 12]);
    }
    let foot = n.saturating_sub(24);
    b.extend_from_slice(&[foot, foot + 4, foot + 12, foot + 20, n]);
    b
}

fn ck_bounds(n: usize) -> Vec<usize> {
    let foot = n.saturating_sub(16);
    vec![0, 4, 5, 6, 8, 16, 24, 32, 44, 48, 52, 60, foot, foot + 4, foot + 12, n]
}

fn wal_bounds(n: usize, entry_starts: &[usize]) -> Vec<usize> {
    let mut b = vec![0, 4, 5, 6, 8, 16];
    for s in entry_starts {
        b.extend_from_slice(&[*s, s + 4, s + 12, s + 16]);
    }
    b.push(n);
    b
}

// ---- own CRC-32 (IEEE 802.3, reflected, as the formats specify): used only to recognise a
// genuine checksum collision under multi-byte damage, never to decide what is correct data
fn crc32(data: &[u8]) -> u32 {
    let mut crc = 0xFFFF_FFFFu32;
    for b in data {
        crc ^= *b as u32;
        for _ in 0..8 {
            crc = if crc & 1 != 0 { (crc >> 1) ^ 0xEDB8_8320 } else { crc >> 1 };
        }
    }
    !crc
}

fn le32(b: &[u8]) -> u32 {
    u32::from_le_bytes([b[0], b[1], b[2], b[3]])
}

/// A damaged segment image (same length as the original) whose every *changed* checksummed
/// region still matches its stored CRC-32 under the format's own definition (header: bytes 0..26
/// -> 26..30; records: 40..len-24 -> len-24..len-20): a genuine CRC-32 collision, which no reader
/// can detect. Only consulted for multi-byte damage that was accepted with different data.
fn seg_crc_collision(orig: &[u8], m: &[u8]) -> bool {
    let n = m.len();
    if n != orig.len() || n < 64 {
        return false;
    }
    let hdr_changed = orig[..30] != m[..30];
    let data_changed = orig[40..n - 20] != m[40..n - 20];
    let hdr_ok = crc32(&m[..26]) == le32(&m[26..30]);
    let data_ok = crc32(&m[40..n - 24]) == le32(&m[n - 24..n - 20]);
    (hdr_changed || data_changed) && (!hdr_changed || hdr_ok) && (!data_changed || data_ok)
}

/// Same for a checkpoint: header bytes 0..6 + 8..32 -> 44..48; data 52..52+data_len -> footer
/// (data crc, data size, footer crc over both).
fn ck_crc_collision(orig: &[u8], m: &[u8]) -> bool {
    let n = m.len();
    if n != orig.len() || n < 68 {
        return false;
    }
    let hdr_changed = orig[..6] != m[..6] || orig[8..32] != m[8..32] || orig[44..48] != m[44..48];
    let data_changed = orig[48..] != m[48..];
    let mut h = m[..6].to_vec();
    h.extend_from_slice(&m[8..32]);
    let hdr_ok = crc32(&h) == le32(&m[44..48]);
    let dl = le32(&m[48..52]) as usize;
    let data_ok = match 52usize.checked_add(dl) {
        Some(fs) if fs + 16 <= n => {
            crc32(&m[52..fs]) == le32(&m[fs..fs + 4])
                && u64::from_le_bytes([m[fs + 4], m[fs + 5], m[fs + 6], m[fs + 7], m[fs + 8], m[fs + 9], m[fs + 10], m[fs + 11]]) == dl as u64
                && crc32(&m[fs..fs + 12]) == le32(&m[fs + 12..fs + 16])
        }
        _ => false,
    };
    (hdr_changed || data_changed) && (!hdr_changed || hdr_ok) && (!data_changed || data_ok)
}

/// Calls `f(mutation, mutated image)` for every mutation in scope; returns how many.
fn enumerate(
    img: &[u8],
    structural: &dyn Fn(usize) -> bool,
    full: bool,
    samples: &[(u16, u8)],
    runs: (&[usize], usize, RunPlan),
    f: &mut dyn FnMut(Mutation, &[u8]) -> Result<(), String>,
) -> Result<(u64, RunStats), String> {
    let n = img.len();
    let mut count = 0u64;
    let sampled: Vec<(usize, u8)> = samples
        .iter()
        .map(|(fr, b)| ((*fr as usize * n) >> 16, b % 8))
        .collect();
    let mut buf = img.to_vec();
    // sampled body bytes first (only when the image is not enumerated completely): a defect
    // that needs a body mutation then shows after a few evaluations, which keeps shrinking cheap
    if !full {
        let mut seen: Vec<usize> = Vec::new();
        for (pos, b) in &sampled {
            if *pos >= n || structural(*pos) || seen.contains(pos) {
                continue;
            }
            seen.push(*pos);
            let old = img[*pos];
            let mut variants = vec![old ^ (1 << b), 0x00, 0xff];
            variants.retain(|v| *v != old);
            variants.sort();
            variants.dedup();
            for new in variants {
                buf[*pos] = new;
                f(Mutation::Byte { pos: *pos, old, new }, &buf)?;
                count += 1;
            }
            buf[*pos] = old;
        }
    }
    // multi-byte damage (before the long single-byte enumeration: a defect that needs a run then
    // shows after at most ~1000 evaluations, which keeps shrinking cheap)
    let (bounds, trailer, plan) = runs;
    let (c, stats) = enumerate_runs(img, bounds, trailer, samples, plan, f)?;
    count += c;
    // truncations
    for l in 0..n {
        let take = full
            || l < 72
            || l + 72 >= n
            || structural(l)
            || (l > 0 && structural(l - 1))
            || sampled.iter().any(|(p, _)| *p == l);
        if take {
            f(Mutation::Trunc(l), &img[..l])?;
            count += 1;
        }
    }
    // byte mutations
    for pos in 0..n {
        let old = img[pos];
        let mut variants: Vec<u8> = Vec::with_capacity(10);
        if full || structural(pos) {
            for b in 0..8 {
                variants.push(old ^ (1 << b));
            }
            variants.push(0x00);
            variants.push(0xff);
        }
        variants.retain(|v| *v != old);
        variants.sort();
        variants.dedup();
        for new in variants {
            buf[pos] = new;
            f(Mutation::Byte { pos, old, new }, &buf)?;
            count += 1;
        }
        buf[pos] = old;
    }
    Ok((count, stats))
}

/// per-field outcome counters for the evidence file: field -> (detected, invisible)
static OUTCOMES: Mutex<BTreeMap<String, (u64, u64)>> = Mutex::new(BTreeMap::new());

fn tally(local: &mut BTreeMap<String, (u64, u64)>, enc: &str, field: &str, m: &Mutation, invisible: bool) {
    let kind = match m {
        Mutation::Trunc(_) => "trunc",
        Mutation::Byte { .. } => "byte",
        Mutation::Run { fill: Fill::Zero, .. } => "run_zeros",
        Mutation::Run { fill: Fill::Ones, .. } => "run_ones",
        Mutation::Run { fill: Fill::Noise(_), .. } => "run_noise",
    };
    // runs: one "detected" row per fill, and a row per field span only where damage was accepted
    let field = if m.is_run() && !invisible { "(any span)" } else { field };
    let e = local.entry(format!("{}/{}/{}", enc, field, kind)).or_default();
    if invisible {
        e.1 += 1;
    } else {
        e.0 += 1;
    }
}

fn flush_tally(local: BTreeMap<String, (u64, u64)>) {
    let mut g = OUTCOMES.lock().unwrap();
    for (k, v) in local {
        let e = g.entry(k).or_default();
        e.0 += v.0;
        e.1 += v.1;
    }
}

fn seg_field(pos: usize, len: usize, rec_starts: &[usize]) -> &'static str {
    let foot = len.saturating_sub(24);
    match pos {
        0..=3 => "header.magic",
        4 => "header.version",
        5 => "header.flags",
        6..=9 => "header.record_count",
        10..=17 => "header.min_timestamp",
        18..=25 => "header.max_timestamp",
        26..=29 => "header.checksum",
        30..=39 => "header.padding",
        p if p >= foot => match p - foot {
            0..=3 => "footer.data_checksum",
            4..=11 => "footer.uncompressed_size",
            12..=19 => "footer.compressed_size",
            _ => "footer.magic",
        },
        p => {
            if rec_starts.iter().any(|s| p >= *s && p < s + 4) {
                "record.length"
            } else if rec_starts.iter().any(|s| p >= s + 4 && p < s + 12) {
                "record.key_length"
            } else {
                "record.body"
            }
        }
    }
}

fn ck_field(pos: usize, len: usize) -> &'static str {
    let foot = len.saturating_sub(16);
    match pos {
        0..=3 => "header.magic",
        4 => "header.version",
        5 => "header.flags",
        6..=7 => "header.padding",
        8..=15 => "header.key_count",
        16..=23 => "header.timestamp_ms",
        24..=31 => "header.last_segment_id",
        32..=43 => "header.reserved",
        44..=47 => "header.checksum",
        48..=51 => "data_len",
        p if p >= foot => match p - foot {
            0..=3 => "footer.data_checksum",
            4..=11 => "footer.data_size",
            _ => "footer.checksum",
        },
        52..=59 => "data.map_len",
        _ => "data.body",
    }
}

fn wal_field(pos: usize, entry_starts: &[usize]) -> (&'static str, Option<usize>) {
    match pos {
        0..=3 => ("header.magic", None),
        4 => ("header.version", None),
        5 => ("header.flags", None),
        6..=7 => ("header.reserved", None),
        8..=15 => ("header.sequence", None),
        p => {
            let idx = entry_starts.iter().rposition(|s| *s <= p);
            match idx {
                Some(i) => {
                    let off = p - entry_starts[i];
                    (
                        match off {
                            0..=3 => "entry.data_length",
                            4..=11 => "entry.stamp",
                            12..=15 => "entry.checksum",
                            _ => "entry.data",
                        },
                        Some(i),
                    )
                }
                None => ("?", None),
            }
        }
    }
}

fn small_world(case: &MutCase, ctx: &mut CaseCtx<'_>) -> Vec<ReplicationDelta> {
    let (deltas, _) = worldgen::run(&case.world);
    classify(&case.world, &deltas, ctx);
    deltas
}

fn check_mut_segment(case: &MutCase, ctx: &mut CaseCtx<'_>) -> Result<(), String> {
    let deltas = small_world(case, ctx);
    if deltas.is_empty() {
        return Ok(());
    }
    let want = projs(&deltas);
    let img = write_segment(&deltas)?;
    let n = img.len();
    // record starts
    let mut rec_starts = Vec::new();
    let mut off = 40usize;
    while off + 4 <= n - 24 {
        rec_starts.push(off);
        let l = u32::from_le_bytes([img[off], img[off + 1], img[off + 2], img[off + 3]]) as usize;
        off += 4 + l;
    }
    if rec_starts.len() != deltas.len() {
        return Err(format!("harness: walked {} records, wrote {}", rec_starts.len(), deltas.len()));
    }
    let via = SegRecovery::new(&deltas, n)?;
    if projs(&seg_direct(&img)?) != want || projs(&via.run(&img)?) != want {
        return Err("the intact segment image does not read back (see roundtrip)".into());
    }
    let full = n <= full_limit(ctx);
    ctx.label(if full { "enumerated_completely" } else { "structural_plus_sampled" });
    let structural = |p: usize| seg_field(p, n, &rec_starts) != "record.body";
    let bounds = seg_bounds(n, &rec_starts);
    let mut local = BTreeMap::new();
    let mut collisions = 0u64;
    let mut run_accepted = 0u64;
    let (count, rstats) = enumerate(&img, &structural, full, &case.samples, (&bounds, n - 24, RUNS_FULL), &mut |m, bytes| {
        let field = m.field(n, &|p| seg_field(p, n, &rec_starts));
        let field = field.as_str();
        let mut invisible = false;
        for (name, out) in [
            ("SegmentReader open/validate/deltas", catch(|| seg_direct(bytes))),
            ("RecoveryManager::recover", catch(|| via.run(bytes))),
            ("RecoveryManager::recover_with_progress", catch(|| via.run_progress())),
        ] {
            match out {
                Err(p) => return Err(format!("segment, {}: {} -> {}", m.describe(n, field), name, p)),
                Ok(Err(_)) => {}
                Ok(Ok(ds)) => {
                    let got = projs(&ds);
                    if got != want {
                        if m.is_run() && seg_crc_collision(&img, bytes) {
                            collisions += 1;
                            return Ok(());
                        }
                        return Err(format!(
                            "segment, {}: {} accepted the damaged image and returned different data: {}",
                            m.describe(n, field),
                            name,
                            first_diff(&want, &got)
                        ));
                    }
                    invisible = true;
                }
            }
        }
        if m.is_run() && invisible {
            run_accepted += 1;
        }
        tally(&mut local, "segment", field, &m, invisible);
        Ok(())
    })?;
    flush_tally(local);
    label_runs(ctx, "segment", &rstats);
    finish_runs(ctx, "segment", run_accepted, collisions);
    ctx.add_evaluations(count);
    ctx.nontrivial(&(0u8, &case.world));
    Ok(())
}

fn check_mut_checkpoint(case: &MutCase, ctx: &mut CaseCtx<'_>) -> Result<(), String> {
    let deltas = small_world(case, ctx);
    if deltas.is_empty() {
        return Ok(());
    }
    let state = last_per_key(&deltas);
    let want_state: BTreeMap<String, J> = state.iter().map(|(k, v)| (k.clone(), vproj(v))).collect();
    let want: CkOut = (want_state.clone(), state.len() as u64, case.ts_ms, case.last_seg);
    let img = write_checkpoint(&state, case.ts_ms, case.last_seg)?;
    let n = img.len();
    let via = CkRecovery::new(want.1, want.2, want.3)?;
    if ck_direct(&img)? != want || via.run(&img)? != want_state {
        return Err("the intact checkpoint image does not read back (see roundtrip)".into());
    }
    let full = n <= full_limit(ctx);
    ctx.label(if full { "enumerated_completely" } else { "structural_plus_sampled" });
    let structural = |p: usize| ck_field(p, n) != "data.body";
    let bounds = ck_bounds(n);
    let mut local = BTreeMap::new();
    let mut collisions = 0u64;
    let mut run_accepted = 0u64;
    let (count, rstats) = enumerate(&img, &structural, full, &case.samples, (&bounds, n - 16, RUNS_FULL), &mut |m, bytes| {
        let field = m.field(n, &|p| ck_field(p, n));
        let field = field.as_str();
        let mut invisible = false;
        // multi-byte damage that leaves every changed checksummed region consistent with its
        // stored CRC-32 is a genuine collision: not judged
        let mut collided = |m: &Mutation| -> bool {
            if m.is_run() && ck_crc_collision(&img, bytes) {
                collisions += 1;
                true
            } else {
                false
            }
        };
        match catch(|| ck_direct(bytes)) {
            Err(p) => return Err(format!("checkpoint, {}: CheckpointReader open/validate/load -> {}", m.describe(n, field), p)),
            Ok(Err(_)) => {}
            Ok(Ok(got)) => {
                if got != want {
                    if collided(&m) {
                        return Ok(());
                    }
                    return Err(format!(
                        "checkpoint, {}: open/validate/load accepted the damaged image and returned different data (keys={} ts={} last_segment={}; written keys={} ts={} last_segment={}; state equal: {})",
                        m.describe(n, field), got.1, got.2, got.3, want.1, want.2, want.3, got.0 == want.0
                    ));
                }
                invisible = true;
            }
        }
        match catch(|| via.run(bytes)) {
            Err(p) => return Err(format!("checkpoint, {}: RecoveryManager::recover -> {}", m.describe(n, field), p)),
            Ok(Err(_)) => {}
            Ok(Ok(got)) => {
                if got != want_state {
                    if collided(&m) {
                        return Ok(());
                    }
                    return Err(format!(
                        "checkpoint, {}: RecoveryManager::recover accepted the damaged image and returned a different state ({} keys, written {})",
                        m.describe(n, field), got.len(), want_state.len()
                    ));
                }
                invisible = true;
            }
        }
        for (name, out) in [
            ("RecoveryManager::recover_with_progress", catch(|| via.run_progress())),
            ("CheckpointManager::load_checkpoint", catch(|| via.run_manager())),
        ] {
            match out {
                Err(p) => return Err(format!("checkpoint, {}: {} -> {}", m.describe(n, field), name, p)),
                Ok(Err(_)) => {}
                Ok(Ok(got)) => {
                    if got != want_state {
                        if collided(&m) {
                            return Ok(());
                        }
                        return Err(format!(
                            "checkpoint, {}: {} accepted the damaged image and returned a different state ({} keys, written {})",
                            m.describe(n, field), name, got.len(), want_state.len()
                        ));
                    }
                    invisible = true;
                }
            }
        }
        if m.is_run() && invisible {
            run_accepted += 1;
        }
        tally(&mut local, "checkpoint", field, &m, invisible);
        Ok(())
    })?;
    flush_tally(local);
    label_runs(ctx, "checkpoint", &rstats);
    finish_runs(ctx, "checkpoint", run_accepted, collisions);
    ctx.add_evaluations(count);
    ctx.nontrivial(&(1u8, &case.world));
    Ok(())
}

fn check_mut_wal(case: &MutCase, ctx: &mut CaseCtx<'_>) -> Result<(), String> {
    let deltas = small_world(case, ctx);
    if deltas.is_empty() {
        return Ok(());
    }
    let (store, files) = write_wal(&deltas, 64 + case.wal_file_size as usize)?;
    if files.len() >= 2 {
        ctx.label("wal_multi_file");
    }
    let mut local = BTreeMap::new();
    let mut total = 0u64;
    for (fi, (name, entries)) in files.iter().enumerate() {
        let img = store
            .get_file_data(name)
            .ok_or_else(|| format!("harness: WAL file {} missing", name))?;
        let n = img.len();
        // entry starts
        let mut starts = Vec::new();
        let mut off = 16usize;
        while off + 16 <= n {
            starts.push(off);
            let l = u32::from_le_bytes([img[off], img[off + 1], img[off + 2], img[off + 3]]) as usize;
            off += 16 + l;
        }
        if starts.len() != entries.len() || off != n {
            return Err(format!("harness: walked {} entries to offset {} of {}, wrote {}", starts.len(), off, n, entries.len()));
        }
        let before: Vec<&WEntry> = files[..fi].iter().flat_map(|(_, v)| v.iter()).collect();
        let after: Vec<&WEntry> = files[fi + 1..].iter().flat_map(|(_, v)| v.iter()).collect();
        let full = n <= full_limit(ctx);
        ctx.label(if full { "enumerated_completely" } else { "structural_plus_sampled" });
        let structural = |p: usize| wal_field(p, &starts).0 != "entry.data";
        let bounds = wal_bounds(n, &starts);
        let trailer = starts.last().copied().unwrap_or(16);
        let mut tolerated = 0u64;
        let mut tolerated_runs = 0u64;
        let mut collisions = 0u64;
        let mut run_accepted = 0u64;
        let strict_kf = !ctx.finding_open("KF-C10-01");
        let counted = enumerate(&img, &structural, full, &case.samples, (&bounds, trailer, RUNS_FULL), &mut |m, bytes| {
            let (first_field, entry_idx) = wal_field(m.pos().min(n - 1), &starts);
            // a run confined to the stamp field of one entry is the same damage class as a byte there
            let run_in_one_stamp = match m {
                Mutation::Run { eff, .. } => {
                    first_field == "entry.stamp" && wal_field(eff.1, &starts) == (first_field, entry_idx)
                }
                _ => false,
            };
            let field = m.field(n, &|p| wal_field(p, &starts).0);
            let field = field.as_str();
            store.set_file_data(name, bytes.to_vec());
            let got = match catch(|| wal_read(&store)) {
                Err(p) => return Err(format!("wal file {}, {}: recover_all_entries -> {}", name, m.describe(n, field), p)),
                Ok(Err(e)) => return Err(format!("wal file {}, {}: recover_all_entries failed as a whole: {}", name, m.describe(n, field), e)),
                Ok(Ok(g)) => g,
            };
            // expected shape: before ++ prefix(entries) ++ after
            let fixed = before.len() + after.len();
            if got.len() < fixed || got.len() - fixed > entries.len() {
                return Err(format!(
                    "wal file {}, {}: {} entries recovered; the other files hold {}, this file held {}",
                    name, m.describe(n, field), got.len(), fixed, entries.len()
                ));
            }
            let k = got.len() - fixed;
            let expect = before.iter().copied().chain(entries[..k].iter()).chain(after.iter().copied());
            for (j, (w, g)) in expect.zip(got.iter()).enumerate() {
                let (ts, ts2) = (w.ts, g.timestamp);
                if let Err(what) = same_data(g, w) {
                    // Multi-byte damage only: bytes that were never written as an entry and that
                    // match their own stored CRC-32 (own computation) are a genuine collision -
                    // not judged. An intact entry returned at the wrong place is NOT excused.
                    let novel = !files.iter().any(|(_, v)| v.iter().any(|e| e.data == g.data));
                    if m.is_run() && novel && crc32(&g.data) == g.checksum {
                        collisions += 1;
                        return Ok(());
                    }
                    return Err(format!(
                        "wal file {}, {}: recovered entry #{} is different data: written (stamp {}, {}), recovered (stamp {}, {})",
                        name, m.describe(n, field), j, ts, w.proj, ts2, what
                    ));
                }
                if ts != ts2 {
                    // KF-C10-01: the 8-byte stamp of a WAL entry is outside the entry CRC.
                    // Matcher: a byte mutation inside the stamp of exactly this entry, data identical.
                    let this_entry = j >= before.len() && j < before.len() + k && entry_idx == Some(j - before.len());
                    let is_kf = (matches!(m, Mutation::Byte { .. }) || run_in_one_stamp) && first_field == "entry.stamp" && this_entry;
                    if is_kf && !strict_kf {
                        tolerated += 1;
                        if m.is_run() {
                            tolerated_runs += 1;
                        }
                    } else {
                        return Err(format!(
                            "wal file {}, {}: entry #{} recovered with stamp {} but was written with stamp {} (data identical)",
                            name, m.describe(n, field), j, ts2, ts
                        ));
                    }
                }
            }
            // the reader recover_with_wal uses: every entry recover_all_entries returned decodes
            match catch(|| {
                WalRotator::new(store.clone(), 1 << 30)
                    .and_then(|r| r.recover_entries_after(0))
                    .map(|d| d.len())
                    .map_err(|e| e.to_string())
            }) {
                Ok(Ok(c)) if c == got.len() => {}
                other => {
                    return Err(format!(
                        "wal file {}, {}: recover_entries_after(0) = {:?} but recover_all_entries returned {} entries",
                        name, m.describe(n, field), other, got.len()
                    ))
                }
            }
            if m.is_run() && k == entries.len() {
                run_accepted += 1;
            }
            tally(&mut local, "wal", field, &m, k == entries.len());
            Ok(())
        });
        store.set_file_data(name, img.clone());
        if tolerated > 0 {
            ctx.tolerate("KF-C10-01");
            ctx.label("kf_c10_01_stamp_mutations_tolerated");
        }
        if tolerated_runs > 0 {
            ctx.label("kf_c10_01_stamp_runs_tolerated");
        }
        let (count, rstats) = counted?;
        label_runs(ctx, "wal", &rstats);
        finish_runs(ctx, "wal", run_accepted, collisions);
        total += count;
    }
    flush_tally(local);
    ctx.add_evaluations(total);
    ctx.nontrivial(&(2u8, &case.world));
    Ok(())
}

// ---------------------------------------------------------------------------------------

fn rt_cfg() -> GenCfg {
    GenCfg {
        max_ops: 50,
        max_keys: 6,
        max_fields: 40,
        small: 40,
        big: true,
        big_max: 65537,
        crdt: true,
        bump: true,
        typed: false,
        sharded: false,
        max_hfields: 40,
        adversarial_names: true,
        whole_second_expiry: false,
    }
}

fn mut_cfg() -> GenCfg {
    GenCfg {
        max_ops: 5,
        max_keys: 3,
        max_fields: 4,
        small: 12,
        big: false,
        big_max: 0,
        crdt: true,
        bump: true,
        typed: false,
        sharded: false,
        max_hfields: 3,
        adversarial_names: true,
        whole_second_expiry: false,
    }
}

/// mostly small images (enumerated completely); one in eight has many ops / big payloads
fn mut_case() -> impl Strategy<Value = MutCase> {
    let big = GenCfg {
        max_ops: 14,
        small: 40,
        big: true,
        big_max: 4096,
        max_hfields: 12,
        max_fields: 12,
        ..mut_cfg()
    };
    (
        prop_oneof![7 => worldgen::world(mut_cfg()).boxed(), 1 => worldgen::world(big).boxed()],
        any::<u64>(),
        prop_oneof![Just(0u64), 0u64..5, any::<u64>()],
        prop_oneof![Just(0u16), 0u16..600, any::<u16>()],
        proptest::collection::vec((any::<u16>(), any::<u8>()), 192),
    )
        .prop_map(|(world, ts_ms, last_seg, wal_file_size, samples)| MutCase {
            world,
            ts_ms,
            last_seg,
            wal_file_size,
            samples,
        })
}


// ---------------------------------------------------------------------------------------
// size classes: serialized updates at powers of two +- a few bytes (64 KiB … 8 MiB)
// ---------------------------------------------------------------------------------------

#[derive(Clone, Debug, Serialize, Deserialize, Hash)]
struct SizeCase {
    /// serialized (bincode) size of the big update, exactly
    target: u32,
    /// 0 = one large string, 1 = a hash of 64 fields whose total reaches the target
    shape: u8,
}

fn serialized_len(d: &ReplicationDelta) -> Result<usize, String> {
    Ok(WalEntry::from_delta(d, d.value.timestamp.time)
        .map_err(|e| format!("from_delta: {}", e))?
        .data
        .len())
}

/// An update built through the real API whose serialized size is exactly `target` bytes.
fn sized_delta(target: usize, shape: u8) -> Result<ReplicationDelta, String> {
    use redis_sim::redis::SDS;
    use redis_sim::replication::{ConsistencyLevel, ShardReplicaState};
    let build = |payload: usize| -> ReplicationDelta {
        let mut st = ShardReplicaState::new(ReplicaId::new(2), ConsistencyLevel::Causal);
        let bytes = |len: usize, seed: u8| worldgen::Payload::Big { len: len as u32, seed }.bytes();
        if shape == 0 {
            st.record_write("big:string".into(), SDS::new(bytes(payload, 7)), Some(60_000))
        } else {
            let f = 64usize;
            let fields: Vec<(String, SDS)> = (0..f)
                .map(|i| {
                    let len = payload / f + if i == f - 1 { payload % f } else { 0 };
                    (format!("field-{:02}", i), SDS::new(bytes(len, i as u8)))
                })
                .collect();
            st.record_hash_write("big:hash".into(), fields)
        }
    };
    let s0 = serialized_len(&build(0))?;
    if target < s0 {
        return Err(format!("harness: target {} below the empty size {}", target, s0));
    }
    let d = build(target - s0);
    let got = serialized_len(&d)?;
    if got != target {
        return Err(format!("harness: aimed at {} serialized bytes, got {}", target, got));
    }
    Ok(d)
}

/// serde-free projection only: the serde-based view of an 8 MiB value is a JSON array of 8 M numbers
fn lite(d: &ReplicationDelta) -> J {
    json!({"key": d.key, "src": d.source_replica.0, "fields": worldgen::access_view(&d.value)})
}

fn lite_diff(what: &str, want: &[J], got: &[ReplicationDelta]) -> Result<(), String> {
    if got.len() != want.len() {
        return Err(format!("{}: {} updates written, {} read back", what, want.len(), got.len()));
    }
    for (i, (w, g)) in want.iter().zip(got.iter()).enumerate() {
        if *w != lite(g) {
            return Err(format!("{}: update #{} (key {}) reads back different", what, i, w["key"]));
        }
    }
    Ok(())
}

fn check_sizes(case: &SizeCase, ctx: &mut CaseCtx<'_>) -> Result<(), String> {
    use redis_sim::redis::SDS;
    use redis_sim::replication::LamportClock;
    let t = case.target as usize;
    ctx.label(match t {
        0..=131_072 => "size_64k",
        131_073..=1_048_575 => "size_below_1m",
        1_048_576 => "size_exactly_1m",
        1_048_577..=1_100_000 => "size_just_above_1m",
        1_100_001..=4_000_000 => "size_2m",
        _ => "size_8m",
    });
    ctx.label(if case.shape == 0 { "shape_one_string" } else { "shape_hash_64_fields" });
    let small = |k: &str, time: u64| {
        ReplicationDelta::new(
            k.to_string(),
            ReplicatedValue::with_value(
                SDS::from_str("small"),
                LamportClock { time, replica_id: ReplicaId::new(1) },
            ),
            ReplicaId::new(1),
        )
    };
    let huge = sized_delta(t, case.shape)?;
    let batch = vec![small("before", 1), huge.clone(), small("after", 3)];
    let want: Vec<J> = batch.iter().map(lite).collect();

    // WAL entry
    let e = WalEntry::from_delta(&huge, huge.value.timestamp.time).map_err(|e| e.to_string())?;
    let enc = e.encode();
    match WalEntry::decode(&enc) {
        Some((back, used)) if used == enc.len() => {
            lite_diff("WalEntry", &want[1..2], &[back.to_delta().map_err(|e| e.to_string())?])?
        }
        Some((_, used)) => return Err(format!("WalEntry::decode consumed {} of {} bytes", used, enc.len())),
        None => {
            return Err(format!(
                "WalEntry::decode rejects an intact entry whose serialized update is {} bytes",
                t
            ))
        }
    }
    // WAL file sets: one file holding small, huge, small; and one file per entry
    for max_file in [1usize << 30, 64] {
        let (store, files) = write_wal(&batch, max_file)?;
        let got = wal_read(&store)?;
        if got.len() != 3 {
            return Err(format!(
                "WAL ({} file(s)) holding a small, a {}-byte and a small entry: {} of 3 entries recovered",
                files.len(), t, got.len()
            ));
        }
        let back: Vec<ReplicationDelta> =
            got.iter().map(|e| e.to_delta()).collect::<Result<_, _>>().map_err(|e| e.to_string())?;
        lite_diff("WAL files", &want, &back)?;
        let after = WalRotator::new(store.clone(), 1 << 30)
            .and_then(|r| r.recover_entries_after(0))
            .map_err(|e| e.to_string())?;
        lite_diff("recover_entries_after(0)", &want, &after)?;
    }
    // segment
    {
        let img = write_segment(&batch)?;
        lite_diff("segment", &want, &seg_direct(&img).map_err(|e| format!("segment: intact image rejected: {}", e))?)?;
        lite_diff("segment via RecoveryManager", &want, &SegRecovery::new(&batch, img.len())?.run(&img)?)?;
    }
    // checkpoint
    {
        let state = last_per_key(&batch);
        let img = write_checkpoint(&state, 1, 0)?;
        let r = CheckpointReader::open(&img).map_err(|e| format!("checkpoint open: {}", e))?;
        r.validate().map_err(|e| format!("checkpoint: intact image rejected: {}", e))?;
        let d = r.load().map_err(|e| format!("checkpoint load: {}", e))?;
        for (k, v) in &state {
            match d.state.get(k) {
                Some(b) if worldgen::access_view(b) == worldgen::access_view(v) => {}
                _ => return Err(format!("checkpoint: key {:?} reads back different or missing", k)),
            }
        }
        if d.state.len() != state.len() {
            return Err(format!("checkpoint: {} keys written, {} loaded", state.len(), d.state.len()));
        }
    }
    // gossip
    {
        let m = GossipMessage::new_delta_batch(ReplicaId::new(2), batch.clone(), 1);
        let bytes = m.serialize().map_err(|e| format!("gossip serialize: {}", e))?;
        let back = GossipMessage::deserialize(&bytes).map_err(|e| format!("gossip deserialize: {}", e))?;
        lite_diff("gossip DeltaBatch", &want, &back.into_deltas().unwrap_or_default())?;
    }
    ctx.nontrivial(case);
    Ok(())
}

fn size_cases() -> Vec<SizeCase> {
    const M: i64 = 1 << 20;
    let mut targets: Vec<i64> = vec![1 << 16, 2 * M, 8 * M];
    for off in [-64i64, -17, -16, -1, 0, 1, 16, 17, 64] {
        targets.push(M + off);
    }
    let mut v = Vec::new();
    for t in targets {
        for shape in [0u8, 1] {
            v.push(SizeCase { target: t as u32, shape });
        }
    }
    v
}

// ---------------------------------------------------------------------------------------
// a second consumer of segments: compaction reads, merges, rewrites and deletes them
// ---------------------------------------------------------------------------------------

#[derive(Clone, Debug, Serialize, Deserialize)]
struct CompactCase {
    world: WorldSpec,
    /// 2..=3 segments: the damaged one + 1-2 healthy ones
    parts: u8,
    which: u8,
    min_segments: u8,
    samples: Vec<(u16, u8)>,
}

fn fold_proj<'a>(ds: impl IntoIterator<Item = &'a ReplicationDelta>) -> BTreeMap<String, J> {
    let mut st: BTreeMap<String, ReplicatedValue> = BTreeMap::new();
    for d in ds {
        match st.remove(&d.key) {
            Some(old) => {
                st.insert(d.key.clone(), old.merge(&d.value));
            }
            None => {
                st.insert(d.key.clone(), d.value.clone());
            }
        }
    }
    st.iter().map(|(k, v)| (k.clone(), vproj(v))).collect()
}

fn check_mut_segment_compact(case: &CompactCase, ctx: &mut CaseCtx<'_>) -> Result<(), String> {
    let (deltas, _) = worldgen::run(&case.world);
    classify(&case.world, &deltas, ctx);
    if deltas.len() < 2 {
        return Ok(());
    }
    let k = (case.parts as usize).clamp(2, 3).min(deltas.len());
    let mut parts: Vec<Vec<ReplicationDelta>> = vec![Vec::new(); k];
    for (i, d) in deltas.iter().enumerate() {
        parts[i % k].push(d.clone());
    }
    let which = (case.which as usize * k) >> 8;
    let min_segments = 1 + (case.min_segments as usize % 2);
    let imgs: Vec<Vec<u8>> = parts.iter().map(|p| write_segment(p)).collect::<Result<_, _>>()?;
    let mut manifest = Manifest::new(1);
    let keys: Vec<String> = (0..k).map(|i| format!("p/segments/segment-{:08}.seg", i)).collect();
    for (i, p) in parts.iter().enumerate() {
        manifest.add_segment(SegmentInfo {
            id: i as u64,
            key: keys[i].clone(),
            record_count: p.len() as u32,
            size_bytes: imgs[i].len() as u64,
            min_timestamp: p.iter().map(|d| d.value.timestamp.time).min().unwrap_or(0),
            max_timestamp: p.iter().map(|d| d.value.timestamp.time).max().unwrap_or(0),
        });
    }
    let truth = fold_proj(deltas.iter());
    // (what recovery returns after compaction ran over the store, did compaction report Ok)
    let run_once = |mutated: &[u8]| -> Result<(BTreeMap<String, J>, bool), String> {
        let store = InMemoryObjectStore::new();
        for i in 0..k {
            let bytes: &[u8] = if i == which { mutated } else { &imgs[i] };
            ready(store.put(&keys[i], bytes)).map_err(|e| e.to_string())?;
        }
        ready(ManifestManager::new(store.clone(), "p").save(&manifest)).map_err(|e| e.to_string())?;
        let mut c = Compactor::with_time_source(
            Arc::new(store.clone()),
            "p".to_string(),
            ManifestManager::new(store.clone(), "p"),
            CompactionConfig {
                target_segment_size: 1 << 30,
                max_segments: 2,
                min_segments_to_compact: min_segments,
                max_segments_per_compaction: 8,
                tombstone_ttl: std::time::Duration::from_secs(3600),
                compression_enabled: false,
            },
            // clock 0: the tombstone cutoff is 0, no tombstone is collected (KF-C13-02/03 are C13's)
            VerifTime::new(0),
        );
        let compacted = ready(c.compact()).is_ok();
        let r = ready(RecoveryManager::new(store.clone(), "p", 1).recover())
            .map_err(|e| format!("recover: {}", e))?;
        Ok((fold_proj(r.deltas.iter()), compacted))
    };
    match run_once(&imgs[which]) {
        Ok((got, true)) if got == truth => {}
        Ok((got, ran)) => {
            return Err(format!(
                "baseline (nothing damaged): compaction {} and recovery afterwards {} the merge of what was written",
                if ran { "ran" } else { "refused to run" },
                if got == truth { "returns" } else { "does NOT return" }
            ))
        }
        Err(e) => return Err(format!("baseline (nothing damaged): {}", e)),
    }
    let img = &imgs[which];
    let n = img.len();
    let mut rec_starts = Vec::new();
    let mut off = 40usize;
    while off + 4 <= n - 24 {
        rec_starts.push(off);
        let l = u32::from_le_bytes([img[off], img[off + 1], img[off + 2], img[off + 3]]) as usize;
        off += 4 + l;
    }
    let structural = |p: usize| seg_field(p, n, &rec_starts) != "record.body";
    let bounds = seg_bounds(n, &rec_starts);
    let mut local = BTreeMap::new();
    let mut laundered_ok = 0u64;
    let mut collisions = 0u64;
    let mut run_accepted = 0u64;
    let (count, rstats) = enumerate(img, &structural, false, &case.samples, (&bounds, n - 24, RUNS_LIGHT), &mut |m, bytes| {
        let field = m.field(n, &|p| seg_field(p, n, &rec_starts));
        let field = field.as_str();
        match catch(|| run_once(bytes)) {
            Err(p) => Err(format!("segment {} of {}, {}: Compactor::compact + recover -> {}", which, k, m.describe(n, field), p)),
            Ok(Err(_)) => {
                tally(&mut local, "segment+compaction", field, &m, false);
                Ok(())
            }
            Ok(Ok((got, ran))) => {
                if got != truth {
                    if m.is_run() && seg_crc_collision(img, bytes) {
                        collisions += 1;
                        return Ok(());
                    }
                    let mut what = Vec::new();
                    for key in truth.keys().chain(got.keys()) {
                        match (truth.get(key), got.get(key)) {
                            (Some(a), Some(b)) if a == b => {}
                            (Some(_), Some(b)) => what.push(format!("key {:?} now merges to {}", key, b["fields"])),
                            (Some(_), None) => what.push(format!("key {:?} is gone", key)),
                            (None, Some(_)) => what.push(format!("key {:?} was never written", key)),
                            (None, None) => {}
                        }
                    }
                    what.dedup();
                    what.truncate(3);
                    return Err(format!(
                        "segment {} of {}, {}: Compactor::compact (reported {}) consumed the damaged segment; recovery afterwards succeeds with data that was never written: {}",
                        which, k, m.describe(n, field), if ran { "Ok" } else { "Err" }, what.join("; ")
                    ));
                }
                laundered_ok += 1;
                if m.is_run() {
                    run_accepted += 1;
                }
                tally(&mut local, "segment+compaction", field, &m, true);
                Ok(())
            }
        }
    })?;
    flush_tally(local);
    let _ = laundered_ok;
    label_runs(ctx, "segment+compaction", &rstats);
    finish_runs(ctx, "segment+compaction", run_accepted, collisions);
    ctx.add_evaluations(count);
    ctx.label(if k == 2 { "segments_2" } else { "segments_3" });
    ctx.nontrivial(&(3u8, &case.world));
    Ok(())
}

fn compact_case() -> impl Strategy<Value = CompactCase> {
    let cfg = GenCfg {
        max_ops: 8,
        crdt: false,
        typed: true,
        ..mut_cfg()
    };
    (
        worldgen::world(cfg),
        2u8..=3,
        any::<u8>(),
        any::<u8>(),
        proptest::collection::vec((any::<u16>(), any::<u8>()), 48),
    )
        .prop_map(|(world, parts, which, min_segments, samples)| CompactCase {
            world,
            parts,
            which,
            min_segments,
            samples,
        })
}

/// The code under test reports unreadable segments with `eprintln!` (compaction.rs); under
/// mutation enumeration that is millions of lines. The check therefore runs itself as a child
/// process and forwards the child's stderr minus exactly those diagnostics; stdout (verdict
/// lines) and the exit status pass through untouched. (Same device as C12/C13.)
fn run_with_filtered_stderr(tag: &str) {
    use std::io::{BufRead, BufReader};
    use std::os::unix::process::CommandExt;
    use std::process::{Command, Stdio};
    if std::env::var_os("VERIF_FILTER_CHILD").is_some() {
        return;
    }
    const NOISE: &[&str] = &[
        "Segment ",
        "Failed to open segment ",
        "Invalid segment ",
        "Failed to read delta",
    ];
    let Ok(exe) = std::env::current_exe() else { return };
    let mut cmd = Command::new(exe);
    cmd.args(std::env::args_os().skip(1))
        .env("VERIF_FILTER_CHILD", "1")
        .stderr(Stdio::piped());
    unsafe {
        cmd.pre_exec(|| {
            libc::prctl(libc::PR_SET_PDEATHSIG, libc::SIGKILL);
            Ok(())
        });
    }
    let Ok(mut child) = cmd.spawn() else { return };
    let mut suppressed = 0u64;
    if let Some(err) = child.stderr.take() {
        for line in BufReader::new(err).split(b'\n').flatten() {
            let text = String::from_utf8_lossy(&line);
            if NOISE.iter().any(|p| text.starts_with(p)) {
                suppressed += 1;
            } else {
                eprintln!("{}", text);
            }
        }
    }
    let status = child.wait();
    if suppressed > 0 {
        eprintln!(
            "[{}] {} diagnostic lines printed by the code under test (unreadable segments during compaction) not shown",
            tag, suppressed
        );
    }
    std::process::exit(match status {
        Ok(s) => s.code().unwrap_or(2),
        Err(_) => 2,
    });
}

fn main() {
    run_with_filtered_stderr("C14");
    let args = vcore::parse_args();
    let s = Session::new(
        "C14",
        Level::FaultEnumeration,
        "values: batches of 1-50 updates emitted by ShardReplicaState::{record_write,record_delete,record_hash_write,record_hash_delete} on 1-3 replicas \
         (optionally causal = vector clocks; gossip between them; remote far-ahead stamps) plus GCounter/PNCounter/GSet/ORSet values built with the public mutators; \
         payloads empty/1 byte/binary/control/23-24 bytes/4 KiB/64 KiB; keys and hash fields include empty, control characters, astral, 300-char; expiry incl. 0 and u64::MAX; rf. \
         roundtrip: each batch through WalEntry, WalRotator files, segment, checkpoint and the five gossip variants. \
         mut_*: per generated image EVERY truncation length and every byte x {8 single-bit flips, 0x00, 0xFF} (images > 3000 bytes, thorough tier > 16 KiB: all header/footer/length bytes + 192 sampled body bytes), \
         each through the direct reader pipeline and through RecoveryManager::recover / WalRotator::recover_all_entries; \
         plus multi-byte damage, one run at a time: >= 2 consecutive bytes overwritten with 0x00 / 0xFF / pseudo-random bytes - every pair of field boundaries (<= 32 boundaries) x 3 fills, every aligned block of 8..4096 bytes x 2 fills, 64 free runs per image (short / medium / long / ending in the last 32 bytes). \
         roundtrip_sizes: serialized size of one update aimed exactly at 64 KiB, 1 MiB +- {0,1,16,17,64}, 2 MiB, 8 MiB. mut_segment_compact: structural + sampled mutations (and zero-filled runs: boundary pairs, aligned blocks >= 32 bytes, 16 free runs) of one of 2-3 segments, then Compactor::compact, then recover. \
         non-trivial = (roundtrip) the batch shows >= 2 components beyond a plain live string (hash, tombstone, field tombstone, expiry, vector clock, rf, counter, set, non-UTF-8 payload); \
         (mut_*) always, because every length/checksum/count byte of the image is among the mutations; distinct by generated world (+ encoding)",
        &args,
    );
    s.assume("InMemoryObjectStore / InMemoryWalStore return exactly the bytes stored (the damage is what the check injects)");
    s.assume("the manifest is intact: only the segment / checkpoint / WAL image is damaged");
    s.assume("one fault per evaluation: one truncation, one altered byte (bit flips, 0x00, 0xFF), or one run of consecutive bytes overwritten with zeros / ones / noise; several separate faults in one image, inserted or appended bytes and crafted payloads are out of scope");
    s.assume("a genuine CRC-32 collision under multi-byte damage (every changed checksummed region still matches its stored CRC-32 under the harness' own CRC; for the WAL: never-written bytes that match their own stored CRC) cannot be detected by any reader and is not judged; it is counted in note run_damage_totals (expected and so far always 0)");
    s.assume("body byte order inside an image follows std HashMap iteration (hash fields, checkpoint keys) and may differ between processes; every enumeration is complete for the image at hand");

    // ---- known finding shared with C10: the 8-byte stamp of a WAL entry is not covered by the entry CRC
    s.probe(
        "KF-C10-01",
        json!({"entry": "WalEntry::from_delta(SET k v, stamp 100)", "mutation": "byte 4 of the encoded entry (lowest stamp byte) ^= 0x01"}),
        || {
            let d = ReplicationDelta::new(
                "k".into(),
                ReplicatedValue::with_value(
                    redis_sim::redis::SDS::from_str("v"),
                    redis_sim::replication::LamportClock { time: 100, replica_id: ReplicaId::new(1) },
                ),
                ReplicaId::new(1),
            );
            let e = WalEntry::from_delta(&d, 100).ok()?;
            let mut enc = e.encode();
            enc[4] ^= 1;
            match WalEntry::decode(&enc) {
                Some((back, _)) if back.timestamp != 100 => Some(format!(
                    "entry written with stamp 100 decodes as intact with stamp {} after one bit of the stamp is flipped",
                    back.timestamp
                )),
                _ => None,
            }
        },
    );

    // ---- API hazard (not reachable through recovery, which validates first): recorded as a note only
    if !s.is_replay() {
        let d = ReplicationDelta::new(
            "k".into(),
            ReplicatedValue::new(ReplicaId::new(1)),
            ReplicaId::new(1),
        );
        if let Ok(mut img) = write_checkpoint(&last_per_key(&[d]), 1, 0) {
            img[48..52].copy_from_slice(&u32::MAX.to_le_bytes());
            let r = catch(|| CheckpointReader::open(&img).ok().map(|r| r.load().is_ok()));
            s.note(
                "api_hazard_checkpoint_load_without_validate",
                json!({
                    "what": "CheckpointReader::load() called without validate() on an image whose data_len field is 0xFFFFFFFF",
                    "observed": match r { Err(p) => p, Ok(x) => format!("no panic: {:?}", x) },
                    "reachable_through_recovery": false,
                }),
            );
        }
    }

    s.describe_check("roundtrip", "batch of 1-50 updates through every encoding; projection identical");
    s.run_cases(
        "roundtrip",
        s.scale(2_000, 150_000),
        || {
            (
                worldgen::world(rt_cfg()),
                prop_oneof![0u64..10, any::<u64>()],
                any::<u64>(),
                prop_oneof![0u64..5, any::<u64>()],
                prop_oneof![Just(0u16), 0u16..2000, any::<u16>()],
            )
                .prop_map(|(world, epoch, ts_ms, last_seg, wal_file_size)| RtCase {
                    world,
                    epoch,
                    ts_ms,
                    last_seg,
                    wal_file_size,
                })
        },
        check_roundtrip,
    );

    s.describe_check("roundtrip_sizes", "serialized update of exactly 64 KiB, 1 MiB-64..1 MiB+64, 2 MiB, 8 MiB (one string / a 64-field hash) between two small updates, through every encoding and a WAL file set");
    s.run_enumerated("roundtrip_sizes", size_cases().into_iter(), check_sizes);

    s.describe_check("mut_segment", "all truncations + all byte mutations + run damage (field-boundary pairs, aligned blocks, free runs x zeros/ones/noise) of one segment image; error or identical");
    s.run_cases("mut_segment", s.scale(800, 24_000), mut_case, check_mut_segment);
    s.describe_check("mut_checkpoint", "all truncations + all byte mutations + run damage of one checkpoint image; error or identical");
    s.run_cases("mut_checkpoint", s.scale(800, 24_000), mut_case, check_mut_checkpoint);
    s.describe_check("mut_wal", "all truncations + all byte mutations + run damage of every file of a WAL file set; prefix of the written entries, identical data");
    s.run_cases("mut_wal", s.scale(800, 24_000), mut_case, check_mut_wal);
    s.describe_check("mut_segment_compact", "structural + sampled mutations + zero-filled runs of one of 2-3 segments, then Compactor::compact, then RecoveryManager::recover: error, or the merge of what was written");
    s.run_cases("mut_segment_compact", s.scale(300, 12_000), compact_case, check_mut_segment_compact);

    let g = OUTCOMES.lock().unwrap();
    let table: BTreeMap<&String, J> = g
        .iter()
        .map(|(k, (d, i))| (k, json!([d, i])))
        .collect();
    s.note("mutation_outcomes_by_field", json!({"columns": "encoding/field/kind -> [detected (error or shorter WAL list), accepted with identical data (for wal/entry.stamp: identical data, stamp altered = KF-C10-01)]", "table": table}));
    drop(g);
    let rt = RUN_TOTALS.lock().unwrap();
    s.note("run_damage_totals", json!({"what": "multi-byte damage (runs of >= 2 bytes overwritten with zeros / ones / noise), evaluations per encoding and family; not_judged_crc32_collision = accepted with different data while every changed checksummed region matches its stored CRC-32 under the harness' own CRC (expected 0)", "table": &*rt}));
    drop(rt);
    s.finish();
}
