//! Generators shared by C14 and C11 (C11 includes this file by path): replicated updates
//! produced through the real API.
//!
//! A `WorldSpec` is a fully explicit, serialisable description: 1–3 replicas, each with one
//! or sixteen `ShardReplicaState`s (the per-shard Lamport clocks of a node), a key pool, a
//! field pool and a list of operations. Interpreting it (`run`) drives
//! `ShardReplicaState::{record_write, record_delete, record_hash_write, record_hash_delete,
//! apply_remote_delta}` and the public CRDT constructors/mutators and returns the deltas the
//! replicas emitted, in emission order. No randomness at interpretation time.

#![allow(dead_code)]

use proptest::prelude::*;
use redis_sim::redis::SDS;
use redis_sim::replication::{
    ConsistencyLevel, CrdtValue, GCounter, GSet, LamportClock, ORSet, PNCounter, ReplicaId,
    ReplicatedValue, ReplicationDelta, ShardReplicaState,
};
use serde::{Deserialize, Serialize};
use std::collections::BTreeMap;
use std::hash::{Hash, Hasher};

/// replica id of the synthetic remote writer used for far-ahead stamps
pub const PHANTOM: u64 = 9;

#[derive(Clone, Debug, Serialize, Deserialize, Hash, PartialEq)]
pub enum Payload {
    Bytes(Vec<u8>),
    /// `len` pseudo-random bytes derived from `seed` (keeps replay files small)
    Big { len: u32, seed: u8 },
}

impl Payload {
    pub fn bytes(&self) -> Vec<u8> {
        match self {
            Payload::Bytes(b) => b.clone(),
            Payload::Big { len, seed } => {
                let mut x: u32 = (*seed as u32).wrapping_mul(2654435761).wrapping_add(12345);
                (0..*len)
                    .map(|_| {
                        x = x.wrapping_mul(1664525).wrapping_add(1013904223);
                        (x >> 24) as u8
                    })
                    .collect()
            }
        }
    }
    pub fn class(&self) -> &'static str {
        match self {
            Payload::Big { len, .. } if *len >= 65536 => "payload_64k",
            Payload::Big { .. } => "payload_big",
            Payload::Bytes(b) if b.is_empty() => "payload_empty",
            Payload::Bytes(b) if std::str::from_utf8(b).is_err() => "payload_non_utf8",
            Payload::Bytes(b) if b.iter().any(|&c| c < 0x20 || c == 0x7f) => "payload_control",
            Payload::Bytes(_) => "payload_text",
        }
    }
}

#[derive(Clone, Debug, Serialize, Deserialize, Hash)]
pub enum Op {
    Write {
        rep: u8,
        key: u8,
        val: Payload,
        expiry: Option<u64>,
        rf: Option<u8>,
    },
    Del {
        rep: u8,
        key: u8,
    },
    HSet {
        rep: u8,
        key: u8,
        fields: Vec<(u8, Payload)>,
    },
    HDel {
        rep: u8,
        key: u8,
        fields: Vec<u8>,
    },
    /// replica `to` receives replica `from`'s current value of the key (gossip); emits nothing
    Sync {
        from: u8,
        to: u8,
        key: u8,
    },
    /// a remote replica (id 9) writes a fresh key stamped `ahead` beyond the shard clock of
    /// `key` on replica `rep`; `rep` applies it (its clock jumps); the remote delta is emitted
    Bump {
        rep: u8,
        key: u8,
        ahead: u64,
    },
    /// a counter / set value built with the public CRDT mutators
    Crdt {
        rep: u8,
        key: u8,
        kind: u8,
        muts: Vec<(u8, u8, u8)>,
        expiry: Option<u64>,
        rf: Option<u8>,
        time: u64,
    },
}

#[derive(Clone, Debug, Serialize, Deserialize, Hash)]
pub struct WorldSpec {
    pub causal: bool,
    /// 1..=3
    pub n_reps: u8,
    pub keys: Vec<String>,
    pub fields: Vec<String>,
    /// Some(n): keys[..n] only ever hold strings, keys[n..] only hashes (no type flips)
    pub typed_split: Option<u8>,
    /// sixteen shard clocks per replica (key -> shard as the node hashes it) instead of one
    pub sharded: bool,
    pub ops: Vec<Op>,
}

/// The node's own key -> shard function (`production::replicated_state::hash_key`, private):
/// DefaultHasher::new() (fixed keys) over the `str`, modulo 16.
pub fn node_shard(key: &str) -> u8 {
    let mut h = std::collections::hash_map::DefaultHasher::new();
    key.hash(&mut h);
    ((h.finish() as usize) % 16) as u8
}

#[derive(Clone, Copy, PartialEq)]
enum KeyClass {
    Str,
    Hash,
    Any,
}

pub struct World<'a> {
    spec: &'a WorldSpec,
    states: BTreeMap<(u8, u8), ShardReplicaState>,
    bumps: u32,
    /// keys created by Bump ops
    pub extra_keys: Vec<String>,
}

fn scale(raw: u8, n: usize) -> usize {
    (raw as usize * n) >> 8
}

impl<'a> World<'a> {
    pub fn new(spec: &'a WorldSpec) -> Self {
        World {
            spec,
            states: BTreeMap::new(),
            bumps: 0,
            extra_keys: Vec::new(),
        }
    }

    fn rep(&self, raw: u8) -> u8 {
        1 + scale(raw, self.spec.n_reps.clamp(1, 3) as usize) as u8
    }

    fn key(&self, raw: u8, class: KeyClass) -> Option<String> {
        let n = self.spec.keys.len();
        if n == 0 {
            return None;
        }
        let (lo, hi) = match (self.spec.typed_split, class) {
            (Some(s), KeyClass::Str) => (0, (s as usize).min(n)),
            (Some(s), KeyClass::Hash) => ((s as usize).min(n), n),
            _ => (0, n),
        };
        if hi <= lo {
            return None;
        }
        Some(self.spec.keys[lo + scale(raw, hi - lo)].clone())
    }

    fn field(&self, raw: u8) -> Option<String> {
        let n = self.spec.fields.len();
        if n == 0 {
            None
        } else {
            Some(self.spec.fields[scale(raw, n)].clone())
        }
    }

    fn shard(&self, key: &str) -> u8 {
        if self.spec.sharded {
            node_shard(key)
        } else {
            0
        }
    }

    fn state(&mut self, rep: u8, shard: u8) -> &mut ShardReplicaState {
        let level = if self.spec.causal {
            ConsistencyLevel::Causal
        } else {
            ConsistencyLevel::Eventual
        };
        self.states
            .entry((rep, shard))
            .or_insert_with(|| ShardReplicaState::new(ReplicaId::new(rep as u64), level))
    }

    /// Interpret one op; returns the deltas it emitted.
    pub fn apply(&mut self, op: &Op) -> Vec<ReplicationDelta> {
        match op {
            Op::Write {
                rep,
                key,
                val,
                expiry,
                rf,
            } => {
                let Some(k) = self.key(*key, KeyClass::Str) else {
                    return vec![];
                };
                let (r, sh) = (self.rep(*rep), self.shard(&k));
                let mut d = self
                    .state(r, sh)
                    .record_write(k, SDS::new(val.bytes()), *expiry);
                if let Some(rf) = rf {
                    d.value = d.value.with_replication_factor(*rf);
                }
                vec![d]
            }
            Op::Del { rep, key } => {
                let Some(k) = self.key(*key, KeyClass::Str) else {
                    return vec![];
                };
                let (r, sh) = (self.rep(*rep), self.shard(&k));
                self.state(r, sh).record_delete(k).into_iter().collect()
            }
            Op::HSet { rep, key, fields } => {
                let Some(k) = self.key(*key, KeyClass::Hash) else {
                    return vec![];
                };
                let fv: Vec<(String, SDS)> = fields
                    .iter()
                    .filter_map(|(f, p)| self.field(*f).map(|f| (f, SDS::new(p.bytes()))))
                    .collect();
                if fv.is_empty() {
                    return vec![];
                }
                let (r, sh) = (self.rep(*rep), self.shard(&k));
                vec![self.state(r, sh).record_hash_write(k, fv)]
            }
            Op::HDel { rep, key, fields } => {
                let Some(k) = self.key(*key, KeyClass::Hash) else {
                    return vec![];
                };
                let fs: Vec<String> = fields.iter().filter_map(|f| self.field(*f)).collect();
                if fs.is_empty() {
                    return vec![];
                }
                let (r, sh) = (self.rep(*rep), self.shard(&k));
                self.state(r, sh)
                    .record_hash_delete(k, fs)
                    .into_iter()
                    .collect()
            }
            Op::Sync { from, to, key } => {
                let Some(k) = self.key(*key, KeyClass::Any) else {
                    return vec![];
                };
                let (f, t, sh) = (self.rep(*from), self.rep(*to), self.shard(&k));
                if f == t {
                    return vec![];
                }
                if let Some(v) = self.state(f, sh).get_replicated(&k).cloned() {
                    self.state(t, sh).apply_remote_delta(ReplicationDelta::new(
                        k,
                        v,
                        ReplicaId::new(f as u64),
                    ));
                }
                vec![]
            }
            Op::Bump { rep, key, ahead } => {
                let Some(k) = self.key(*key, KeyClass::Any) else {
                    return vec![];
                };
                let (r, sh) = (self.rep(*rep), self.shard(&k));
                let now = self.state(r, sh).lamport_clock.time;
                let t = now.saturating_add(*ahead).min(u64::MAX - (1 << 20));
                self.bumps += 1;
                let bk = format!("bump:{}:{}", sh, self.bumps);
                self.extra_keys.push(bk.clone());
                let v = ReplicatedValue::with_value(
                    SDS::from_str("far-ahead"),
                    LamportClock {
                        time: t,
                        replica_id: ReplicaId::new(PHANTOM),
                    },
                );
                let d = ReplicationDelta::new(bk, v, ReplicaId::new(PHANTOM));
                self.state(r, sh).apply_remote_delta(d.clone());
                vec![d]
            }
            Op::Crdt {
                rep,
                key,
                kind,
                muts,
                expiry,
                rf,
                time,
            } => {
                let Some(k) = self.key(*key, KeyClass::Any) else {
                    return vec![];
                };
                let r = self.rep(*rep);
                let crdt = match kind % 4 {
                    0 => {
                        let mut c = GCounter::new();
                        for (a, _, n) in muts {
                            c.increment_by(ReplicaId::new(1 + (*a % 3) as u64), *n as u64);
                        }
                        CrdtValue::GCounter(c)
                    }
                    1 => {
                        let mut c = PNCounter::new();
                        for (a, b, n) in muts {
                            let id = ReplicaId::new(1 + (*a % 3) as u64);
                            if b % 2 == 0 {
                                c.increment_by(id, *n as u64 * 1_000_003);
                            } else {
                                c.decrement_by(id, *n as u64);
                            }
                        }
                        CrdtValue::PNCounter(c)
                    }
                    2 => {
                        let mut s = GSet::new();
                        for (a, _, _) in muts {
                            if let Some(m) = self.field(*a) {
                                s.add(m);
                            }
                        }
                        CrdtValue::GSet(s)
                    }
                    _ => {
                        let mut s = ORSet::new();
                        for (a, b, c) in muts {
                            if let Some(m) = self.field(*a) {
                                if b % 4 == 3 {
                                    s.remove(&m);
                                } else {
                                    s.add(m, ReplicaId::new(1 + (*c % 3) as u64));
                                }
                            }
                        }
                        CrdtValue::ORSet(s)
                    }
                };
                let id = ReplicaId::new(r as u64);
                let mut v = ReplicatedValue::with_crdt(crdt, id);
                v.timestamp = LamportClock {
                    time: *time,
                    replica_id: id,
                };
                v.expiry_ms = *expiry;
                if let Some(rf) = rf {
                    v = v.with_replication_factor(*rf);
                }
                vec![ReplicationDelta::new(k, v, id)]
            }
        }
    }
}

/// Interpret the whole spec. Returns (emitted deltas in order, keys created by Bump ops).
pub fn run(spec: &WorldSpec) -> (Vec<ReplicationDelta>, Vec<String>) {
    let mut w = World::new(spec);
    let mut out = Vec::new();
    for op in &spec.ops {
        out.extend(w.apply(op));
    }
    let extra = w.extra_keys.clone();
    (out, extra)
}

// ---------------------------------------------------------------------------------------
// strategies
// ---------------------------------------------------------------------------------------

#[derive(Clone, Debug)]
pub struct GenCfg {
    pub max_ops: usize,
    pub max_keys: usize,
    pub max_fields: usize,
    /// longest "small" payload
    pub small: usize,
    /// allow big payloads (a few hundred bytes up to `big_max`; 64 KiB when big_max >= 65537)
    pub big: bool,
    pub big_max: u32,
    pub crdt: bool,
    pub bump: bool,
    /// string keys and hash keys are disjoint (no type flips on one key)
    pub typed: bool,
    pub sharded: bool,
    /// widest HSET
    pub max_hfields: usize,
    /// adversarial key/field names (empty, control characters, long, astral …)
    pub adversarial_names: bool,
    /// expiry restricted to >= 1 s and < 10^8 ms (what SETEX can carry on re-application)
    pub whole_second_expiry: bool,
}

pub fn payload(small: usize, big: bool, big_max: u32) -> BoxedStrategy<Payload> {
    let b = |v: Vec<u8>| Payload::Bytes(v);
    let mut alts: Vec<(u32, BoxedStrategy<Payload>)> = vec![
        (8, Just(Payload::Bytes(vec![])).boxed()),
        (8, any::<u8>().prop_map(move |c| Payload::Bytes(vec![c])).boxed()),
        (
            24,
            proptest::collection::vec(any::<u8>(), 0..=small)
                .prop_map(b)
                .boxed(),
        ),
        (
            16,
            proptest::collection::vec(0x20u8..0x7f, 0..=small)
                .prop_map(b)
                .boxed(),
        ),
        (
            8,
            prop_oneof![
                Just(b"0".to_vec()),
                Just(b"-0".to_vec()),
                Just(b"9223372036854775807".to_vec()),
                Just(b"\r\n".to_vec()),
                Just(b"\0".to_vec()),
                Just(vec![0xff; 8]),
                Just(vec![0u8; 16]),
                Just(b"GESR".to_vec()),
                Just(b"RSEGRCHKRWAL".to_vec()),
                // 23 / 24 bytes: the small-string boundary in sds.rs
                Just(vec![b'x'; 23]),
                Just(vec![b'x'; 24]),
            ]
            .prop_map(b)
            .boxed(),
        ),
    ];
    if big {
        alts.push((
            1,
            (any::<u8>(), prop_oneof![Just(4096u32), Just(65536u32), Just(65537u32), 300u32..3000])
                .prop_map(move |(seed, len)| Payload::Big { len: len.min(big_max), seed })
                .boxed(),
        ));
    }
    proptest::strategy::Union::new_weighted(alts).boxed()
}

const ADVERSARIAL_NAMES: &[&str] = &[
    "",
    "k",
    "key:1",
    "{tag}x",
    "a b",
    "line\r\nbreak",
    "\0nul\0",
    "\u{7f}\u{80}\u{ff}",
    "\u{fffd}\u{fffd}",
    "ключ-鍵-🔑",
    "\u{feff}bom",
    "\"quote\\back",
    "\u{2028}sep",
    "{\"json\":1}",
    "LONG",
];

fn name(adversarial: bool, prefix: &'static str) -> BoxedStrategy<String> {
    if adversarial {
        prop_oneof![
            4 => (0..ADVERSARIAL_NAMES.len()).prop_map(|i| {
                if ADVERSARIAL_NAMES[i] == "LONG" { "L".repeat(300) } else { ADVERSARIAL_NAMES[i].to_string() }
            }),
            3 => proptest::collection::vec(any::<char>(), 0..10).prop_map(|v| v.into_iter().collect::<String>()),
            2 => (0u8..8).prop_map(move |i| format!("{}{}", prefix, i)),
        ]
        .boxed()
    } else {
        (0u8..16).prop_map(move |i| format!("{}{}", prefix, i)).boxed()
    }
}

/// `n` distinct names (collisions are disambiguated with a suffix; `nonempty` forbids "")
fn pool(
    adversarial: bool,
    prefix: &'static str,
    lo: usize,
    hi: usize,
    nonempty: bool,
) -> impl Strategy<Value = Vec<String>> {
    proptest::collection::vec(name(adversarial, prefix), lo..=hi).prop_map(move |v| {
        let mut out: Vec<String> = Vec::new();
        for (i, mut s) in v.into_iter().enumerate() {
            if nonempty && s.is_empty() {
                s = format!("{}e{}", prefix, i);
            }
            if out.contains(&s) {
                s = format!("{}#{}", s, i);
            }
            out.push(s);
        }
        out
    })
}

fn expiry(whole: bool) -> BoxedStrategy<Option<u64>> {
    if whole {
        prop_oneof![
            3 => Just(None),
            1 => (1u64..100_000).prop_map(|s| Some(s * 1000)),
            1 => (1000u64..100_000_000).prop_map(Some),
        ]
        .boxed()
    } else {
        prop_oneof![
            4 => Just(None),
            2 => (1u64..100_000).prop_map(|s| Some(s * 1000)),
            1 => any::<u64>().prop_map(Some),
            1 => prop_oneof![Just(0u64), Just(1), Just(999), Just(u64::MAX), Just(1u64 << 63)].prop_map(Some),
        ]
        .boxed()
    }
}

fn rf() -> impl Strategy<Value = Option<u8>> {
    prop_oneof![6 => Just(None), 1 => any::<u8>().prop_map(Some)]
}

pub fn op(cfg: &GenCfg) -> BoxedStrategy<Op> {
    let pl = payload(cfg.small, cfg.big, cfg.big_max);
    let max_hf = cfg.max_hfields.max(1);
    let mut alts: Vec<(u32, BoxedStrategy<Op>)> = vec![
        (
            6,
            (any::<u8>(), any::<u8>(), pl.clone(), expiry(cfg.whole_second_expiry), rf())
                .prop_map(|(rep, key, val, expiry, rf)| Op::Write {
                    rep,
                    key,
                    val,
                    expiry,
                    rf,
                })
                .boxed(),
        ),
        (
            2,
            (any::<u8>(), any::<u8>())
                .prop_map(|(rep, key)| Op::Del { rep, key })
                .boxed(),
        ),
        (
            5,
            (
                any::<u8>(),
                any::<u8>(),
                prop_oneof![
                    8 => proptest::collection::vec((any::<u8>(), pl.clone()), 1..=4.min(max_hf)),
                    1 => proptest::collection::vec((any::<u8>(), pl.clone()), 1..=max_hf),
                ],
            )
                .prop_map(|(rep, key, fields)| Op::HSet { rep, key, fields })
                .boxed(),
        ),
        (
            3,
            (
                any::<u8>(),
                any::<u8>(),
                proptest::collection::vec(any::<u8>(), 1..=3),
            )
                .prop_map(|(rep, key, fields)| Op::HDel { rep, key, fields })
                .boxed(),
        ),
        (
            3,
            (any::<u8>(), any::<u8>(), any::<u8>())
                .prop_map(|(from, to, key)| Op::Sync { from, to, key })
                .boxed(),
        ),
    ];
    if cfg.bump {
        alts.push((
            2,
            (
                any::<u8>(),
                any::<u8>(),
                prop_oneof![1u64..50, 1000u64..100_000, Just(1u64 << 40), Just(u64::MAX >> 1)],
            )
                .prop_map(|(rep, key, ahead)| Op::Bump { rep, key, ahead })
                .boxed(),
        ));
    }
    if cfg.crdt {
        alts.push((
            4,
            (
                any::<u8>(),
                any::<u8>(),
                any::<u8>(),
                proptest::collection::vec((any::<u8>(), any::<u8>(), any::<u8>()), 0..8),
                expiry(cfg.whole_second_expiry),
                rf(),
                prop_oneof![0u64..100, any::<u64>()],
            )
                .prop_map(|(rep, key, kind, muts, expiry, rf, time)| Op::Crdt {
                    rep,
                    key,
                    kind,
                    muts,
                    expiry,
                    rf,
                    time,
                })
                .boxed(),
        ));
    }
    proptest::strategy::Union::new_weighted(alts).boxed()
}

/// an op that always emits an update (so that no generated world is empty)
fn emitting_op(cfg: &GenCfg) -> BoxedStrategy<Op> {
    let pl = payload(cfg.small, cfg.big, cfg.big_max);
    prop_oneof![
        (any::<u8>(), any::<u8>(), pl.clone(), expiry(cfg.whole_second_expiry), rf()).prop_map(
            |(rep, key, val, expiry, rf)| Op::Write {
                rep,
                key,
                val,
                expiry,
                rf,
            }
        ),
        (any::<u8>(), any::<u8>(), any::<u8>(), pl).prop_map(|(rep, key, f, p)| Op::HSet {
            rep,
            key,
            fields: vec![(f, p)],
        }),
    ]
    .boxed()
}

pub fn world(cfg: GenCfg) -> impl Strategy<Value = WorldSpec> {
    let ops = (
        emitting_op(&cfg),
        proptest::collection::vec(op(&cfg), 0..cfg.max_ops.max(1)),
    )
        .prop_map(|(first, mut rest)| {
            rest.insert(0, first);
            rest
        });
    let typed = cfg.typed;
    let sharded = cfg.sharded;
    (
        any::<bool>(),
        1u8..=3,
        pool(cfg.adversarial_names, "s", 1, cfg.max_keys.max(1), !cfg.adversarial_names),
        pool(cfg.adversarial_names, "h", 1, cfg.max_keys.max(1), !cfg.adversarial_names),
        pool(cfg.adversarial_names, "f", 1, cfg.max_fields.max(1), true),
        ops,
    )
        .prop_map(move |(causal, n_reps, skeys, hkeys, fields, ops)| {
            let (keys, typed_split) = if typed {
                let mut keys = skeys.clone();
                for (i, h) in hkeys.iter().enumerate() {
                    let mut h = h.clone();
                    if keys.contains(&h) {
                        h = format!("{}#h{}", h, i);
                    }
                    keys.push(h);
                }
                (keys, Some(skeys.len() as u8))
            } else {
                (skeys, None)
            };
            WorldSpec {
                causal,
                n_reps,
                keys,
                fields,
                typed_split,
                sharded,
                ops,
            }
        })
}

/// Summary used for labels / the non-trivial rule: which components occur in a delta list.
#[derive(Default, Debug, Clone)]
pub struct Features {
    pub lww: bool,
    pub hash: bool,
    pub tombstone: bool,
    pub field_tombstone: bool,
    pub expiry: bool,
    pub vector_clock: bool,
    pub rf: bool,
    pub counter: bool,
    pub set: bool,
    pub binary: bool,
    pub many_fields: bool,
}

impl Features {
    pub fn of(deltas: &[ReplicationDelta]) -> Features {
        let mut f = Features::default();
        for d in deltas {
            f.add(&d.value);
        }
        f
    }
    pub fn add(&mut self, v: &ReplicatedValue) {
        match &v.crdt {
            CrdtValue::Lww(l) => {
                self.lww = true;
                if l.tombstone {
                    self.tombstone = true;
                }
                if let Some(s) = &l.value {
                    if std::str::from_utf8(s.as_bytes()).is_err() {
                        self.binary = true;
                    }
                }
            }
            CrdtValue::Hash(h) => {
                self.hash = true;
                if h.len() >= 8 {
                    self.many_fields = true;
                }
                for r in h.values() {
                    if r.tombstone {
                        self.field_tombstone = true;
                    }
                    if let Some(s) = &r.value {
                        if std::str::from_utf8(s.as_bytes()).is_err() {
                            self.binary = true;
                        }
                    }
                }
            }
            CrdtValue::GCounter(_) | CrdtValue::PNCounter(_) => self.counter = true,
            CrdtValue::GSet(_) | CrdtValue::ORSet(_) => self.set = true,
        }
        if v.expiry_ms.is_some() {
            self.expiry = true;
        }
        if v.vector_clock.is_some() {
            self.vector_clock = true;
        }
        if v.replication_factor.is_some() {
            self.rf = true;
        }
    }
    /// number of components beyond a plain live string
    pub fn beyond_plain(&self) -> usize {
        [
            self.hash,
            self.tombstone,
            self.field_tombstone,
            self.expiry,
            self.vector_clock,
            self.rf,
            self.counter,
            self.set,
            self.binary,
        ]
        .iter()
        .filter(|b| **b)
        .count()
    }
    pub fn labels(&self) -> Vec<&'static str> {
        let mut v = Vec::new();
        for (b, l) in [
            (self.lww, "kind_lww"),
            (self.hash, "kind_hash"),
            (self.tombstone, "tombstone"),
            (self.field_tombstone, "field_tombstone"),
            (self.expiry, "expiry"),
            (self.vector_clock, "vector_clock"),
            (self.rf, "replication_factor"),
            (self.counter, "kind_counter"),
            (self.set, "kind_set"),
            (self.binary, "binary_payload"),
            (self.many_fields, "hash_many_fields"),
        ] {
            if b {
                v.push(l);
            }
        }
        v
    }
}

// ---------------------------------------------------------------------------------------
// accessor-based projection
// ---------------------------------------------------------------------------------------

/// A second projection of a replicated value that does NOT go through serde (vcore's
/// `peer_view` does, so a field that is not serialised would vanish on both sides of a
/// round-trip comparison): built from the public fields and accessors only. Private internals
/// (ORSet sequence counters, the positive/negative halves of a PNCounter) are covered by the
/// serde-based view alone; replica ids 0..=12 are probed for vector clocks and counters (the
/// generators use 1..=3 and 9).
pub fn access_view(v: &ReplicatedValue) -> serde_json::Value {
    use serde_json::json;
    let reg = |r: &redis_sim::replication::LwwRegister<SDS>| {
        // bytes as a Latin-1 string: one JSON string instead of one JSON number per byte
        let text = |s: &SDS| s.as_bytes().iter().map(|&b| b as char).collect::<String>();
        json!({
            "value": r.value.as_ref().map(text),
            "visible": r.get().is_some(),
            "time": r.timestamp.time,
            "replica": r.timestamp.replica_id.0,
            "tombstone": r.tombstone,
        })
    };
    let ids = || (0u64..=12).map(ReplicaId::new);
    let crdt = match &v.crdt {
        CrdtValue::Lww(l) => json!({"lww": reg(l)}),
        CrdtValue::Hash(h) => {
            let m: BTreeMap<&String, serde_json::Value> = h.iter().map(|(f, r)| (f, reg(r))).collect();
            json!({"hash": m})
        }
        CrdtValue::GCounter(c) => json!({
            "gcounter": c.value(),
            "per_replica": ids().map(|i| c.get_replica_count(&i)).collect::<Vec<_>>(),
        }),
        CrdtValue::PNCounter(c) => json!({"pncounter": c.value()}),
        CrdtValue::GSet(s) => {
            let mut m: Vec<&String> = s.elements().collect();
            m.sort();
            json!({"gset": m, "len": s.len()})
        }
        CrdtValue::ORSet(s) => {
            let mut m: Vec<(&String, Vec<(u64, u64)>)> = s
                .elements()
                .map(|e| {
                    let mut tags: Vec<(u64, u64)> = s
                        .get_tags(e)
                        .map(|t| t.iter().map(|t| (t.replica_id.0, t.sequence)).collect())
                        .unwrap_or_default();
                    tags.sort();
                    (e, tags)
                })
                .collect();
            m.sort();
            json!({"orset": m})
        }
    };
    json!({
        "type": v.crdt_type(),
        "crdt": crdt,
        "vector_clock": v.vector_clock.as_ref().map(|vc| ids().map(|i| vc.get(&i)).collect::<Vec<_>>()),
        "expiry_ms": v.expiry_ms,
        "time": v.timestamp.time,
        "replica": v.timestamp.replica_id.0,
        "replication_factor": v.replication_factor,
    })
}
