//! C13 — Compaction never changes what recovery returns.
//!
//! layouts      generated segment layouts (2–8 segments written through StreamingPersistence,
//!              sizes around target_segment_size so some are skipped, overlapping stamp ranges,
//!              tombstones, one key updated from several replicas, hash fields from two
//!              replicas, expiries, optional checkpoint covering a prefix), generated
//!              CompactionConfig, production-like and small simulated compactor clocks:
//!              fold(recover()) before == after one `Compactor::compact()`, client and peer view.
//! interleave   small layouts: `compact()` and `flush()` as two hand-polled tasks over one gated
//!              TraceObjectStore, ALL interleavings of their store calls enumerated (DFS).
//! interleave_sampled  larger layouts with a generated schedule word.
//!
//! Discrepancies are attributed per key by replaying the compaction in three models:
//!   ideal   nothing changes (the property);
//!   P1      per-key MERGE of the compacted deltas + the documented tombstone rule (drop if the
//!           value is an LWW whole-key tombstone — decided by the harness from the value's
//!           structure, not by the repository's is_tombstone() — && stamp.time < now_ms - ttl_ms);
//!   Pb      per-key KEEP-LATEST (greatest stamp time, first seen on ties) + the same rule.
//! after == P1 != ideal  => caused by tombstone dropping alone (KF-C13-02 / KF-C13-03 / accepted GC)
//! after == Pb != P1     => caused by keep-latest (KF-C13-01)
//! anything else         => VIOLATION (in the interleaving tier: KF-C13-04 iff the two
//!                          read-modify-write windows on the manifest overlap AND each task
//!                          reported what its own store calls told it: Ok iff none failed).

#[path = "../../c12/src/model.rs"]
mod model;
#[path = "../../c12/src/store.rs"]
mod store;

use model::*;
use proptest::prelude::*;
use redis_sim::replication::state::{CrdtValue, ReplicatedValue, ReplicationDelta};
use redis_sim::streaming::{
    CheckpointConfig, CheckpointInfo, CheckpointManager, CompactionConfig, CompactionError,
    CompactionResult, Compactor, FlushResult, ManifestManager, SimulatedClock, StreamingPersistence,
    WriteBufferConfig,
};
use serde::{Deserialize, Serialize};
use serde_json::json;
use std::collections::{BTreeMap, BTreeSet, HashMap};
use std::sync::atomic::{AtomicU64, Ordering};
use std::sync::Arc;
use std::task::Poll;
use std::time::Duration;
use store::*;
use vcore::time::VerifTime;
use vcore::{CaseCtx, Level, Session};

const EPOCH_MS: u64 = 1_790_000_000_000; // a 2026 wall clock in ms, as ProductionTimeSource yields

#[derive(Clone, Debug, Serialize, Deserialize, Hash)]
enum Clock {
    /// now = EPOCH_MS + offset; Lamport stamps stay what they are in production: small counters.
    /// Every update of the layout counts as written "just now" (younger than any TTL >= 1 ms).
    Production(u32),
    /// now = the value; stamps are read as milliseconds, as the code's comment assumes
    Simulated(u32),
}

impl Clock {
    fn now(&self) -> u64 {
        match self {
            Clock::Production(o) => EPOCH_MS + *o as u64,
            Clock::Simulated(n) => *n as u64,
        }
    }
}

#[derive(Clone, Debug, Serialize, Deserialize, Hash)]
struct Layout {
    /// one inner vector per flushed segment (ids 0, 1, …)
    segments: Vec<Vec<DeltaSpec>>,
    /// 0 = none; k = a checkpoint folds segments 0..k and the manifest keeps only the rest
    checkpoint_prefix: u8,
    min_seg: u8,
    max_seg: u8,
    ttl_ms: u64,
    target: u32,
    clock: Clock,
    /// `ErrorKind` carried by injected failures (index into store::ERROR_KINDS: other, timed
    /// out, interrupted, connection reset, permission denied …; NotFound is not a failure but
    /// an answer and is never injected); used by the tiers that inject failing calls
    #[serde(default)]
    err_kind: u8,
    /// re-deliveries: (source selector, destination selector) — an exact copy of an update
    /// that an earlier segment holds is flushed again into a later segment, as happens when
    /// gossip or anti-entropy hands a node a delta it already has. A copy changes nothing
    /// (merge is idempotent), so recovery must return the same state with or without it, before
    /// and after every compaction pass.
    #[serde(default)]
    redeliver: Vec<(u16, u16)>,
    /// a leftover of an operation that failed earlier: an object nobody references under the key
    /// the next segment will get (a flush whose segment put succeeded and whose manifest update
    /// failed leaves exactly that). 0 none; 1 a complete, valid segment (a copy of the first listed
    /// one); 2 the first half of it; 3 bytes that are no segment. A compaction that meets it must
    /// still not change what recovery returns.
    #[serde(default)]
    orphan: u8,
}

type Persistence = StreamingPersistence<TraceObjectStore, SimulatedClock>;

fn wb_config() -> WriteBufferConfig {
    WriteBufferConfig {
        flush_interval: Duration::from_secs(3600),
        max_size_bytes: 1 << 20,
        max_deltas: 100_000,
        backpressure_threshold_bytes: 1 << 24,
        compression_enabled: false,
    }
}

fn open(store: &Arc<TraceObjectStore>) -> Result<Persistence, String> {
    run_now(StreamingPersistence::with_clock(
        store.clone(),
        PREFIX.to_string(),
        REPLICA,
        wb_config(),
        SimulatedClock::new(0),
    ))
    .map_err(|e| format!("open: {}", e))
}

fn compactor(store: &Arc<TraceObjectStore>, l: &Layout) -> Compactor<TraceObjectStore, VerifTime> {
    let cfg = CompactionConfig {
        target_segment_size: l.target as usize,
        max_segments: 2,
        min_segments_to_compact: l.min_seg.max(1) as usize,
        max_segments_per_compaction: l.max_seg.max(1) as usize,
        tombstone_ttl: Duration::from_millis(l.ttl_ms),
        compression_enabled: false,
    };
    Compactor::with_time_source(
        store.clone(),
        PREFIX.to_string(),
        ManifestManager::new((**store).clone(), PREFIX),
        cfg,
        VerifTime::new(l.clock.now()),
    )
}

struct Env {
    image: Image,
    /// deltas of every segment ever written, by id
    seg_deltas: BTreeMap<u64, Vec<ReplicationDelta>>,
    /// exact copies of earlier updates placed in later segments
    redelivered: usize,
}

/// Build the layout through the production writers.
fn setup(l: &Layout) -> Result<Env, String> {
    let mut segs = l.segments.clone();
    uniquify(segs.iter_mut().flat_map(|s| s.iter_mut()), false);
    // re-deliveries are added after the stamps were made unique: an exact copy, later segment
    let n_segs = segs.len();
    let mut redelivered = 0usize;
    for &(src, dst) in &l.redeliver {
        let positions: Vec<(usize, usize)> =
            segs.iter().enumerate().flat_map(|(i, s)| (0..s.len()).map(move |j| (i, j))).collect();
        if positions.is_empty() {
            break;
        }
        let (i, j) = positions[(src as usize * positions.len()) >> 16];
        if i + 1 >= n_segs {
            continue;
        }
        let to = i + 1 + ((dst as usize * (n_segs - i - 1)) >> 16);
        let copy = segs[i][j].clone();
        segs[to].push(copy);
        redelivered += 1;
    }
    let store = TraceObjectStore::new();
    let arc = Arc::new(store.clone());
    let mut p = open(&arc)?;
    let mut seg_deltas = BTreeMap::new();
    for seg in &segs {
        if seg.is_empty() {
            continue;
        }
        let ds: Vec<ReplicationDelta> = seg.iter().map(|s| s.build()).collect();
        for d in &ds {
            p.push(d.clone()).map_err(|e| format!("setup push: {}", e))?;
        }
        let r = run_now(p.flush()).map_err(|e| format!("setup flush: {}", e))?;
        let id = r.segment.ok_or("setup flush wrote no segment")?.id;
        seg_deltas.insert(id, ds);
    }
    let k = (l.checkpoint_prefix as usize).min(seg_deltas.len().saturating_sub(2));
    if k > 0 {
        let covered: Vec<ReplicationDelta> = seg_deltas
            .iter()
            .take(k)
            .flat_map(|(_, d)| d.iter().cloned())
            .collect();
        let state: HashMap<String, ReplicatedValue> = fold(None, &covered).into_iter().collect();
        let mm = ManifestManager::new(store.clone(), PREFIX);
        let cm = CheckpointManager::with_time_source(
            arc.clone(),
            PREFIX.to_string(),
            mm.clone(),
            CheckpointConfig {
                interval: Duration::from_secs(3600),
                min_segments: 1,
                compression_enabled: false,
            },
            VerifTime::new(l.clock.now()),
        );
        let last = *seg_deltas.keys().nth(k - 1).expect("k <= len");
        let cr = run_now(cm.create_checkpoint(state, last)).map_err(|e| format!("setup checkpoint: {}", e))?;
        let mut m = run_now(mm.load()).map_err(|e| format!("setup manifest load: {}", e))?;
        m.compact_segments(CheckpointInfo {
            key: cr.key,
            timestamp_ms: cr.timestamp_ms,
            key_count: cr.key_count,
            last_segment_id: cr.last_segment_id,
        });
        run_now(mm.save(&m)).map_err(|e| format!("setup manifest save: {}", e))?;
    }
    if l.orphan > 0 {
        use redis_sim::streaming::ObjectStore as _;
        let mm = ManifestManager::new(store.clone(), PREFIX);
        let m = run_now(mm.load()).map_err(|e| format!("setup manifest load (orphan): {}", e))?;
        if let Some(first) = m.segments.first() {
            let src = run_now(store.get(&first.key)).map_err(|e| format!("setup orphan source: {}", e))?;
            let key = format!("{}/segments/segment-{:08}.seg", PREFIX, m.next_segment_id);
            if first.key.ends_with(&format!("segment-{:08}.seg", first.id)) && !m.segments.iter().any(|s| s.key == key) {
                let bytes = match l.orphan {
                    1 => src,
                    2 => src[..src.len() / 2].to_vec(),
                    _ => b"not a segment: left behind by something else".to_vec(),
                };
                run_now(store.put(&key, &bytes)).map_err(|e| format!("setup orphan put: {}", e))?;
            }
        }
    }
    Ok(Env {
        image: store.image(),
        seg_deltas,
        redelivered,
    })
}

// ---------------------------------------------------------------------------------------
// models and attribution
// ---------------------------------------------------------------------------------------

struct Attribution<'a> {
    l: &'a Layout,
    /// property: what recovery must return after the compaction
    ideal: State,
    /// everything that was not an input of the compaction (checkpoint, other segments, a
    /// concurrent flush's batch)
    outside: State,
    /// inputs of the compaction in the order it read them
    removed: Vec<Vec<ReplicationDelta>>,
    /// The tombstone findings (KF-C13-02/-03) are properties of the UNCHANGED selection rule:
    /// what lies outside a compaction is a segment at or above the size target, a segment
    /// beyond max_segments_per_compaction in id order, or the checkpoint. They are only
    /// matched when the compacted set is exactly what that rule (oldest first by id among the
    /// below-target segments, as documented) selects from the manifest the compactor loaded —
    /// minus a segment it could not read under an injected read fault.
    selection_is_reference: bool,
    /// for the message
    selection_note: String,
}

struct Stats {
    gc_accepted: u32,
    tolerated: BTreeSet<&'static str>,
}

/// A whole-key LWW tombstone (what DEL writes): the only kind of value the tombstone findings
/// KF-C13-02/-03 are about and the only kind the documented tombstone GC may ever drop. Decided
/// by the harness from the value's structure — NOT by the repository's `is_tombstone()`, so a
/// tree in which that predicate accepts more (an emptied hash, an expired value, a zero
/// counter …) does not widen what the models drop and what the matchers tolerate.
fn lww_tombstone(v: &ReplicatedValue) -> bool {
    matches!(&v.crdt, CrdtValue::Lww(l) if l.tombstone)
}

/// (field, stamp) of every tombstoned field of a hash value.
fn field_tombstones(v: &ReplicatedValue) -> Vec<(&String, redis_sim::replication::lattice::LamportClock)> {
    match &v.crdt {
        CrdtValue::Hash(h) => {
            let mut t: Vec<_> = h.iter().filter(|(_, r)| r.tombstone).map(|(f, r)| (f, r.timestamp)).collect();
            t.sort();
            t
        }
        _ => Vec::new(),
    }
}

/// A hash with at least one field all of whose fields are tombstoned (every field HDEL-ed).
fn emptied_hash(v: &ReplicatedValue) -> bool {
    match &v.crdt {
        CrdtValue::Hash(h) => !h.is_empty() && h.values().all(|r| r.tombstone),
        _ => false,
    }
}

/// Does `outside` hold a live value of `field` of hash `key` that is older than `stamp` (it
/// would win again if the field tombstone with that stamp disappeared)?
fn older_live_field(outside: &State, key: &str, field: &str, stamp: redis_sim::replication::lattice::LamportClock) -> bool {
    match outside.get(key).map(|o| &o.crdt) {
        Some(CrdtValue::Hash(h)) => h
            .get(field)
            .map(|r| !r.tombstone && r.value.is_some() && r.timestamp < stamp)
            .unwrap_or(false),
        _ => false,
    }
}

impl<'a> Attribution<'a> {
    fn cutoff(&self) -> u64 {
        self.l.clock.now().saturating_sub(self.l.ttl_ms)
    }

    /// per-key merge of everything the compaction read
    fn merged_inputs(&self) -> State {
        let mut merged: State = State::new();
        for seg in &self.removed {
            fold_into(&mut merged, seg);
        }
        merged
    }

    fn models(&self) -> (State, State) {
        let cutoff = self.cutoff();
        let mut kept: BTreeMap<String, ReplicationDelta> = BTreeMap::new();
        let mut merged: State = State::new();
        for seg in &self.removed {
            for d in seg {
                let replace = match kept.get(&d.key) {
                    Some(e) => d.value.timestamp.time > e.value.timestamp.time,
                    None => true,
                };
                if replace {
                    kept.insert(d.key.clone(), d.clone());
                }
                fold_into(&mut merged, std::slice::from_ref(d));
            }
        }
        let dropped = |v: &ReplicatedValue| lww_tombstone(v) && v.timestamp.time < cutoff;
        let mut p1 = self.outside.clone();
        for (k, v) in merged {
            if !dropped(&v) {
                fold_into(
                    &mut p1,
                    &[ReplicationDelta::new(k, v.clone(), v.timestamp.replica_id)],
                );
            }
        }
        let mut pb = self.outside.clone();
        for (_, d) in kept {
            if !dropped(&d.value) {
                fold_into(&mut pb, &[d]);
            }
        }
        (p1, pb)
    }

    /// NT rule, first two clauses.
    fn nontrivial(&self) -> bool {
        let mut seen: BTreeMap<&str, usize> = BTreeMap::new();
        for seg in &self.removed {
            let keys: BTreeSet<&str> = seg.iter().map(|d| d.key.as_str()).collect();
            for k in keys {
                *seen.entry(k).or_default() += 1;
            }
        }
        if seen.values().any(|&n| n >= 2) {
            return true;
        }
        if self.removed.iter().flatten().any(|d| {
            lww_tombstone(&d.value)
                && self
                    .outside
                    .get(&d.key)
                    .map(|o| o.timestamp.time < d.value.timestamp.time)
                    .unwrap_or(false)
        }) {
            return true;
        }
        // a compacted FIELD tombstone whose field has an older live value outside
        self.field_tombstone_guards_outside_value().0
    }

    /// (some compacted field tombstone has an older live value of its field outside the
    ///  compaction, the same for a key whose compacted hash has NO live field left)
    fn field_tombstone_guards_outside_value(&self) -> (bool, bool) {
        let mut any = false;
        let mut emptied = false;
        for (k, v) in &self.merged_inputs() {
            for (f, stamp) in field_tombstones(v) {
                if older_live_field(&self.outside, k, f, stamp) {
                    any = true;
                    if emptied_hash(v) {
                        emptied = true;
                    }
                }
            }
        }
        (any, emptied)
    }

    /// Compare `after` with the ideal; attribute every differing key. `fallback` = a finding
    /// that covers whatever the three models do not explain (interleaving tier only).
    fn compare(
        &self,
        after: &State,
        fallback: Option<&'static str>,
        ctx: &mut CaseCtx<'_>,
        stats: &mut Stats,
    ) -> Result<(), String> {
        let (p1, pb) = self.models();
        let keys: BTreeSet<&String> = self.ideal.keys().chain(after.keys()).collect();
        for key in keys {
            let a = after.get(key);
            let i = self.ideal.get(key);
            if peer_opt(a) == peer_opt(i) {
                continue;
            }
            let resurrect = client(a) != client(i);
            let id: Option<&'static str> = if peer_opt(a) == peer_opt(p1.get(key)) {
                match self.l.clock {
                    // a tombstone younger than the TTL was dropped
                    Clock::Production(_) if self.selection_is_reference => Some("KF-C13-02"),
                    Clock::Production(_) => None,
                    Clock::Simulated(_) if resurrect && self.selection_is_reference => Some("KF-C13-03"),
                    Clock::Simulated(_) if resurrect => None,
                    Clock::Simulated(_) => {
                        // a tombstone older than the TTL (by the stamp-as-ms convention) is gone
                        // and no client-visible value came back: legitimate garbage collection
                        stats.gc_accepted += 1;
                        continue;
                    }
                }
            } else if peer_opt(a) == peer_opt(pb.get(key)) {
                Some("KF-C13-01")
            } else {
                fallback
            };
            // In a schedule with overlapping manifest updates a difference may coincide with
            // one of the compaction models by accident: if the model's finding is not (or no
            // longer) open, the overlap finding still covers it.
            let accepted = [id, fallback]
                .into_iter()
                .flatten()
                .find(|cand| ctx.tolerate(cand));
            match accepted {
                Some(id) => {
                    stats.tolerated.insert(id);
                }
                None => {
                    return Err(format!(
                        "key {}: recovered state changed across compaction{}{}\n      before : client {}  peer {}\n      after  : client {}  peer {}\n      (per-key merge + tombstone rule would give {}; keep-latest + tombstone rule would give {})\n      compactor clock {:?} => now {} ms, ttl {} ms, cutoff {}; {} input segments",
                        key,
                        match id { Some(id) => format!(" [matches {}]", id), None => String::new() },
                        if self.selection_is_reference { String::new() } else { format!(" — {}", self.selection_note) },
                        short(&client(i)),
                        short(&peer_opt(i)),
                        short(&client(a)),
                        short(&peer_opt(a)),
                        short(&peer_opt(p1.get(key))),
                        short(&peer_opt(pb.get(key))),
                        self.l.clock,
                        self.l.clock.now(),
                        self.l.ttl_ms,
                        self.cutoff(),
                        self.removed.len()
                    ));
                }
            }
        }
        Ok(())
    }
}

/// JSON rendering with long filler values cut.
fn short(v: &serde_json::Value) -> String {
    let t = v.to_string();
    if t.len() <= 420 {
        return t;
    }
    let head: String = t.chars().take(300).collect();
    let tail: String = t.chars().rev().take(100).collect::<Vec<_>>().into_iter().rev().collect();
    format!("{} …[{} chars]… {}", head, t.len() - 400, tail)
}

fn describe_layout(env: &Env, before: &Recovered) -> String {
    let mut s = String::new();
    if let Some(cp) = &before.manifest.checkpoint {
        s.push_str(&format!("      checkpoint covers segments <= {}\n", cp.last_segment_id));
    }
    for (id, ds) in &env.seg_deltas {
        let sz = before
            .manifest
            .segments
            .iter()
            .find(|m| m.id == *id)
            .map(|m| format!("{} B", m.size_bytes))
            .unwrap_or_else(|| "in checkpoint".into());
        s.push_str(&format!(
            "      segment {} ({}): {}\n",
            id,
            sz,
            ds.iter().map(show_delta).collect::<Vec<_>>().join("; ")
        ));
    }
    s
}

// ---------------------------------------------------------------------------------------
// tier 1: one compaction on a quiescent store
// ---------------------------------------------------------------------------------------

/// What the documented selection rule picks from `m`: below-target segments, oldest (lowest
/// id) first, at most max_segments_per_compaction.
fn reference_selection(m: &redis_sim::streaming::Manifest, l: &Layout) -> Vec<u64> {
    let mut ids: Vec<u64> = m
        .segments
        .iter()
        .filter(|s| s.size_bytes < l.target as u64)
        .map(|s| s.id)
        .collect();
    ids.sort();
    ids.truncate(l.max_seg.max(1) as usize);
    ids
}

fn same_state(a: &State, b: &State) -> Option<String> {
    let keys: BTreeSet<&String> = a.keys().chain(b.keys()).collect();
    keys.into_iter()
        .find(|k| peer_opt(a.get(*k)) != peer_opt(b.get(*k)))
        .cloned()
}

/// One `compact()` on `image` (optionally with one injected read fault), compared with the
/// state recovered before. Returns the image after the pass if something was compacted.
fn compaction_pass(
    l: &Layout,
    image: &Image,
    seg_deltas: &mut BTreeMap<u64, Vec<ReplicationDelta>>,
    fault: Option<(usize, Fault)>,
    first: bool,
    ctx: &mut CaseCtx<'_>,
) -> Result<Option<Image>, String> {
    let env_view = Env {
        image: image.clone(),
        seg_deltas: seg_deltas.clone(),
        redelivered: 0,
    };
    let before = recover_image(image).map_err(|e| format!("before compaction: {}", e))?;
    let store = TraceObjectStore::from_image(image.clone());
    if let Some(f) = fault {
        store.set_faults(&[f]);
        store.set_error_kind(l.err_kind);
    }
    let arc = Arc::new(store.clone());
    let mut c = compactor(&arc, l);
    let res = run_now(c.compact());
    store.set_faults(&[]);
    let fault_text = match fault {
        Some((i, f)) => format!(
            "\n    injected fault {:?} on call {}",
            f,
            store.calls().get(i).map(|c| c.short()).unwrap_or_default()
        ),
        None => String::new(),
    };
    let after = recover_image(&store.image()).map_err(|e| {
        format!(
            "after compaction ({:?}): {}{}\n{}",
            res.as_ref().map(|r| r.segments_removed.iter().map(|s| s.id).collect::<Vec<_>>()),
            e,
            fault_text,
            describe_layout(&env_view, &before)
        )
    })?;
    if first {
        if matches!(l.clock, Clock::Production(_)) {
            ctx.label("production_clock");
        }
        if before.checkpoint.is_some() {
            ctx.label("checkpoint");
        }
    }
    /// what the compaction did to the manifest
    struct Done {
        removed_ids: Vec<u64>,
        created: Option<(u64, String)>,
        tombstones_removed: u64,
        reported: String,
    }
    let res: Done = match res {
        Ok(r) => Done {
            removed_ids: r.segments_removed.iter().map(|s| s.id).collect(),
            created: r.segment_created.as_ref().map(|s| (s.id, s.key.clone())),
            tombstones_removed: r.tombstones_removed,
            reported: "Ok".into(),
        },
        Err(e) => {
            let nothing = matches!(e, CompactionError::NothingToCompact);
            if !nothing && fault.is_none() {
                return Err(format!("compact() failed on a fault-free store: {}\n{}", e, describe_layout(&env_view, &before)));
            }
            if first && fault.is_none() {
                ctx.label("nothing_to_compact");
            }
            // under "took effect but reported an error" the new manifest may be live although
            // compact() returned Err: then the compaction is judged like a successful one
            let before_ids: BTreeSet<u64> = before.manifest.segments.iter().map(|s| s.id).collect();
            let after_ids: BTreeSet<u64> = after.manifest.segments.iter().map(|s| s.id).collect();
            if before_ids == after_ids || fault.is_none() {
                if let Some(key) = same_state(&before.state, &after.state) {
                    return Err(format!(
                        "compact() returned Err({}) but key {} changed: before {} after {}{}\n{}",
                        e,
                        key,
                        short(&peer_opt(before.state.get(&key))),
                        short(&peer_opt(after.state.get(&key))),
                        fault_text,
                        describe_layout(&env_view, &before)
                    ));
                }
                return Ok(None);
            }
            ctx.label("manifest_swapped_although_compact_reported_an_error");
            Done {
                removed_ids: before_ids.difference(&after_ids).cloned().collect(),
                created: after
                    .manifest
                    .segments
                    .iter()
                    .find(|s| !before_ids.contains(&s.id))
                    .map(|s| (s.id, s.key.clone())),
                tombstones_removed: 0,
                reported: format!("Err({})", e),
            }
        }
    };
    if first && fault.is_none() {
        ctx.label("compacted");
    }
    let removed_ids: Vec<u64> = res.removed_ids.clone();
    let n_candidates = before
        .manifest
        .segments
        .iter()
        .filter(|s| s.size_bytes < l.target as u64)
        .count();
    if fault.is_none() {
        if before.manifest.segments.len() > removed_ids.len() {
            ctx.label("some_segments_outside");
        }
        if n_candidates > removed_ids.len() {
            ctx.label("more_candidates_than_max");
        }
        if res.tombstones_removed > 0 {
            ctx.label("tombstones_dropped");
        }
    }
    // reference selection (minus a segment that could not be read under the injected fault)
    let faulted_segment: Option<u64> = fault.and_then(|(i, _)| {
        let calls = store.calls();
        let key = calls.get(i)?.key.clone();
        before.manifest.segments.iter().find(|s| s.key == key).map(|s| s.id)
    });
    let reference = reference_selection(&before.manifest, l);
    let reference_without_faulted: Vec<u64> = reference
        .iter()
        .cloned()
        .filter(|id| Some(*id) != faulted_segment)
        .collect();
    let mut removed_sorted = removed_ids.clone();
    removed_sorted.sort();
    // (a flipped byte may hit a header field nothing depends on: then the segment is read
    // normally and the full reference set is compacted)
    let selection_is_reference = removed_sorted == reference || removed_sorted == reference_without_faulted;
    let mut removed = Vec::new();
    for id in &removed_ids {
        removed.push(
            seg_deltas
                .get(id)
                .cloned()
                .ok_or_else(|| format!("compaction removed unknown segment {}", id))?,
        );
    }
    let outside_deltas: Vec<ReplicationDelta> = before
        .manifest
        .segments
        .iter()
        .filter(|s| !removed_ids.contains(&s.id))
        .flat_map(|s| seg_deltas.get(&s.id).cloned().unwrap_or_default())
        .collect();
    let att = Attribution {
        l,
        ideal: before.state.clone(),
        outside: fold(before.checkpoint.as_ref(), &outside_deltas),
        removed,
        selection_is_reference,
        selection_note: format!(
            "the compacted set {:?} is not the oldest-first selection {:?} of the documented rule, so the tombstone findings do not apply",
            removed_sorted, reference
        ),
    };
    if first && fault.is_none() && att.nontrivial() {
        ctx.nontrivial(l);
    }
    if fault.is_none() {
        // values the compaction must carry over although a client sees "no key": a hash whose
        // fields are all deleted still guards older field values that lie outside
        let merged = att.merged_inputs();
        if merged.values().any(emptied_hash) {
            ctx.label("compacted_hash_all_fields_deleted");
        }
        if merged.values().any(|v| !field_tombstones(v).is_empty()) {
            ctx.label("compacted_field_tombstone");
        }
        let (guards, emptied_guards) = att.field_tombstone_guards_outside_value();
        if guards {
            ctx.label("compacted_field_tombstone_older_field_value_outside");
        }
        if emptied_guards {
            ctx.label("compacted_hash_all_fields_deleted_older_field_value_outside");
        }
        if merged.values().any(|v| v.expiry_ms.is_some()) {
            ctx.label("compacted_value_with_expiry");
        }
    }
    let mut stats = Stats {
        gc_accepted: 0,
        tolerated: BTreeSet::new(),
    };
    att.compare(&after.state, None, ctx, &mut stats).map_err(|e| {
        format!(
            "{}\n    compact() -> {}; it removed segments {:?}, created {:?}, dropped {} tombstones{}\n    layout:\n{}",
            e,
            res.reported,
            removed_ids,
            res.created.as_ref().map(|c| c.0),
            res.tombstones_removed,
            fault_text,
            describe_layout(&env_view, &before)
        )
    })?;
    if fault.is_none() {
        if stats.gc_accepted > 0 {
            ctx.label("tombstone_gc_accepted");
        }
        for id in &stats.tolerated {
            ctx.label(&format!("differs:{}", id));
        }
        if first && stats.tolerated.is_empty() {
            ctx.label("compacted_and_equal");
        }
    }
    // the new segment becomes a known input for the next pass
    let img = store.image();
    if let Some((id, key)) = &res.created {
        let data = img
            .get(key)
            .ok_or_else(|| format!("compaction reported new segment {} which is not in the store", key))?;
        let ds = redis_sim::streaming::SegmentReader::open(data)
            .and_then(|r| r.read_all())
            .map_err(|e| format!("new segment {} unreadable: {}", key, e))?;
        seg_deltas.insert(*id, ds);
    }
    Ok(Some(img))
}

/// Tier 1: compaction passes on a quiescent store until nothing is selectable (at most 6),
/// recovery compared across every pass.
fn check_layout(l: &Layout, ctx: &mut CaseCtx<'_>) -> Result<(), String> {
    let env = setup(l)?;
    if env.redelivered > 0 {
        ctx.label("redelivered_copy_in_a_later_segment");
    }
    let mut seg_deltas = env.seg_deltas.clone();
    let mut image = env.image.clone();
    let mut passes = 0u64;
    for pass in 0..6 {
        match compaction_pass(l, &image, &mut seg_deltas, None, pass == 0, ctx)
            .map_err(|e| format!("compaction pass {}: {}", pass + 1, e))?
        {
            Some(img) => {
                image = img;
                passes += 1;
            }
            None => break,
        }
    }
    if passes >= 2 {
        ctx.label("passes>=2");
    }
    if passes >= 3 {
        ctx.label("passes>=3");
    }
    ctx.add_evaluations(passes.saturating_sub(1));
    Ok(())
}

// ---------------------------------------------------------------------------------------
// tier 1b: read-side faults (a get that returns corrupted or truncated bytes once)
// ---------------------------------------------------------------------------------------

fn read_fault_kinds() -> Vec<Fault> {
    vec![
        Fault::Fail,
        Fault::CorruptGet(0),   // first header byte
        Fault::CorruptGet(60),  // header / start of the body
        Fault::CorruptGet(300), // body
        Fault::CorruptGet(600), // body
        Fault::CorruptGet(930), // footer region of small segments
        Fault::CorruptGet(999), // last byte
        Fault::TruncateGet(0),
        Fault::TruncateGet(200),
        Fault::TruncateGet(500),
        Fault::TruncateGet(900),
        Fault::TruncateGet(999),
    ]
}

fn check_read_faults(l: &Layout, ctx: &mut CaseCtx<'_>) -> Result<(), String> {
    ctx.label(&format!("injected_error_kind:{}", error_kind(l.err_kind).1));
    let env = setup(l)?;
    let before = recover_image(&env.image).map_err(|e| format!("before: {}", e))?;
    let mut evals = 0u64;
    // (a) recovery itself under a read fault: an error, or the healthy state
    {
        let st = TraceObjectStore::from_image(env.image.clone());
        let _ = run_now(redis_sim::streaming::RecoveryManager::new(st.clone(), PREFIX, REPLICA).recover());
        let gets: Vec<usize> = st.calls().iter().filter(|c| c.op == OpKind::Get).map(|c| c.idx).collect();
        for i in gets {
            for f in read_fault_kinds() {
                let st = TraceObjectStore::from_image(env.image.clone());
                st.set_faults(&[(i, f)]);
                st.set_error_kind(l.err_kind);
                let rm = redis_sim::streaming::RecoveryManager::new(st.clone(), PREFIX, REPLICA);
                let r = vcore::runner::catch(|| run_now(rm.recover()))
                    .map_err(|p| format!("recover() under {:?} on call {}: {}", f, i, p))?;
                evals += 1;
                if let Ok(rec) = r {
                    let state = fold(rec.checkpoint_state.as_ref(), &rec.deltas);
                    if let Some(key) = same_state(&before.state, &state) {
                        return Err(format!(
                            "recover() returned Ok with a different state under read fault {:?} on call {}: key {} healthy {} faulty {}\n{}",
                            f,
                            st.calls().get(i).map(|c| c.short()).unwrap_or_default(),
                            key,
                            short(&peer_opt(before.state.get(&key))),
                            short(&peer_opt(state.get(&key))),
                            describe_layout(&env, &before)
                        ));
                    }
                }
            }
        }
    }
    // (b) compaction with one faulty call, every call in turn: gets return an error or damaged
    //     bytes; puts fail cleanly / half-written / AFTER the object was stored; renames and
    //     deletes fail without or WITH effect. Recovery afterwards (healthy reads) must equal
    //     recovery before, whatever compact() reported.
    let probe = TraceObjectStore::from_image(env.image.clone());
    {
        let arc = Arc::new(probe.clone());
        let mut c = compactor(&arc, l);
        let _ = run_now(c.compact());
    }
    let calls = probe.calls();
    if calls.len() >= 6 {
        ctx.nontrivial(l);
    }
    for c in &calls {
        let kinds = match c.op {
            OpKind::Get => read_fault_kinds(),
            OpKind::Put => vec![Fault::Fail, Fault::PartialThenFail(500), Fault::EffectThenFail],
            OpKind::Rename | OpKind::Delete => vec![Fault::Fail, Fault::EffectThenFail],
            _ => vec![Fault::Fail],
        };
        for f in kinds {
            let mut seg_deltas = env.seg_deltas.clone();
            compaction_pass(l, &env.image, &mut seg_deltas, Some((c.idx, f)), false, ctx)?;
            evals += 1;
        }
    }
    ctx.add_evaluations(evals);
    Ok(())
}

// ---------------------------------------------------------------------------------------
// tier 2: compact() || flush() under the step scheduler
// ---------------------------------------------------------------------------------------

#[derive(Clone, Debug, Serialize, Deserialize, Hash)]
struct Inter {
    layout: Layout,
    batch: Vec<DeltaSpec>,
    /// None = enumerate every interleaving; Some(word) = follow the word (true = compactor)
    /// wherever both tasks are enabled
    schedule: Option<Vec<bool>>,
    /// transient fault on flush()'s manifest reload (its first store call), wherever the
    /// schedule places it; with `schedule: None` both "no fault" and "fails once" are enumerated
    #[serde(default)]
    flush_fault: Option<Fault>,
}

struct InterOut {
    word: Vec<bool>,
    both: Vec<bool>,
    res_a: Result<CompactionResult, CompactionError>,
    res_b: Result<FlushResult, String>,
    store: TraceObjectStore,
}

static N_SERIAL: AtomicU64 = AtomicU64::new(0);
static N_OVERLAP: AtomicU64 = AtomicU64::new(0);
static N_OVERLAP_CLEAN: AtomicU64 = AtomicU64::new(0);
static N_OVERLAP_NO_INTERFERENCE: AtomicU64 = AtomicU64::new(0);
static N_STALE_PUBLISH: AtomicU64 = AtomicU64::new(0);
static N_FOREIGN_TEMP: AtomicU64 = AtomicU64::new(0);
static N_SAME_SEGMENT_KEY: AtomicU64 = AtomicU64::new(0);

const TASK_COMPACT: u8 = 1;
const TASK_FLUSH: u8 = 2;

fn run_schedule(
    img: &Image,
    l: &Layout,
    batch: &[ReplicationDelta],
    flush_fault: Option<Fault>,
    mut choose: impl FnMut(usize) -> bool,
) -> Result<InterOut, String> {
    let store = TraceObjectStore::from_image(img.clone());
    let arc = Arc::new(store.clone());
    let mut p = open(&arc)?;
    for d in batch {
        p.push(d.clone()).map_err(|e| e.to_string())?;
    }
    let mut c = compactor(&arc, l);
    if let Some(f) = flush_fault {
        store.set_task_faults(&[((TASK_FLUSH, 0), f)]);
        store.set_error_kind(l.err_kind);
    }
    store.set_gated(true);
    let mut word = Vec::new();
    let mut both = Vec::new();
    let (res_a, res_b) = {
        let mut fa = Box::pin(c.compact());
        let mut fb = Box::pin(p.flush());
        let mut ra = None;
        let mut rb = None;
        // run each task up to its first store call (suspended in front of it)
        store.set_task(TASK_COMPACT);
        if let Poll::Ready(r) = poll_once(fa.as_mut()) {
            ra = Some(r);
        }
        store.set_task(TASK_FLUSH);
        if let Poll::Ready(r) = poll_once(fb.as_mut()) {
            rb = Some(r);
        }
        loop {
            let (ea, eb) = (ra.is_none(), rb.is_none());
            if !ea && !eb {
                break;
            }
            let pick_a = if ea && eb { choose(word.len()) } else { ea };
            both.push(ea && eb);
            word.push(pick_a);
            // one poll = the pending store call is performed and the task runs to its next one
            if pick_a {
                store.set_task(TASK_COMPACT);
                if let Poll::Ready(r) = poll_once(fa.as_mut()) {
                    ra = Some(r);
                }
            } else {
                store.set_task(TASK_FLUSH);
                if let Poll::Ready(r) = poll_once(fb.as_mut()) {
                    rb = Some(r);
                }
            }
            if word.len() > 100_000 {
                return Err("step scheduler: a task does not terminate".into());
            }
        }
        (ra.expect("done"), rb.expect("done"))
    };
    store.set_gated(false);
    store.set_task(0);
    Ok(InterOut {
        word,
        both,
        res_a,
        res_b: res_b.map_err(|e| e.to_string()),
        store,
    })
}

fn word_text(w: &[bool]) -> String {
    w.iter().map(|&a| if a { 'C' } else { 'F' }).collect()
}

/// Do the two read-modify-write windows on the manifest overlap? A window runs from the
/// task's manifest load (its first call) to its manifest rename (its last call if it never
/// got that far).
fn windows_overlap(calls: &[CallRecord]) -> bool {
    let window = |t: u8| -> Option<(usize, usize)> {
        let mine: Vec<&CallRecord> = calls.iter().filter(|c| c.task == t).collect();
        let first = mine.first()?.idx;
        let last = mine
            .iter()
            .find(|c| c.op == OpKind::Rename)
            .map(|c| c.idx)
            .unwrap_or(mine.last()?.idx);
        Some((first, last))
    };
    match (window(TASK_COMPACT), window(TASK_FLUSH)) {
        (Some((a0, a1)), Some((b0, b1))) => !(a1 < b0 || b1 < a0),
        _ => false,
    }
}

/// Does what each task REPORTED agree with what its own store calls returned?
///
/// KF-C13-04 is a race between two tasks each of which does what it would do alone and
/// reports what the store told it: `flush()` returns Ok iff its manifest reload, its segment
/// put, its temp put and its rename all returned Ok (every one is `?`-propagated; a failure
/// puts the batch back into the buffer), `compact()` returns Ok / NothingToCompact iff every
/// get, put and rename it made returned Ok (deletes are best effort; a NotFound on a get is an
/// answer it acts on, not a failure). What the finding describes is the damage a LATER manifest
/// write based on an older snapshot (or the shared temp object / the shared id counter) does to
/// such truthful tasks. A task that reports success although one of its own calls failed — or
/// failure although none did — is a different defect, and a discrepancy in such a schedule is
/// not covered by the finding. Returns the disagreement, if any.
fn result_vs_own_calls(calls: &[CallRecord], out: &InterOut) -> Option<String> {
    // the store's truthful NotFound on a get is an answer (manifest: load_or_create; segment:
    // "missing, clean the manifest up"); every other unsuccessful call is a failure
    let failed = |c: &&CallRecord| !c.ok && !(c.op == OpKind::Get && !c.injected);
    let damaged_read = |c: &&CallRecord| c.ok && c.injected && c.op == OpKind::Get;
    let of = |t: u8| calls.iter().filter(move |c| c.task == t);
    let flush_failed: Vec<&CallRecord> = of(TASK_FLUSH).filter(failed).collect();
    match &out.res_b {
        Ok(_) => {
            if let Some(c) = flush_failed.first() {
                return Some(format!("flush() returned Ok although its own store call `{}` failed", c.short()));
            }
        }
        Err(e) => {
            if flush_failed.is_empty() && !of(TASK_FLUSH).any(|c| damaged_read(&c)) {
                return Some(format!("flush() returned Err({}) although every store call it made succeeded", e));
            }
        }
    }
    let compact_failed: Vec<&CallRecord> = of(TASK_COMPACT)
        .filter(failed)
        .filter(|c| c.op != OpKind::Delete)
        .collect();
    match &out.res_a {
        Ok(_) | Err(CompactionError::NothingToCompact) => {
            if let Some(c) = compact_failed.first() {
                return Some(format!(
                    "compact() returned {} although its own store call `{}` failed",
                    if out.res_a.is_ok() { "Ok" } else { "NothingToCompact" },
                    c.short()
                ));
            }
        }
        Err(e) => {
            if compact_failed.is_empty() && !of(TASK_COMPACT).any(|c| damaged_read(&c)) {
                return Some(format!("compact() returned Err({}) although every store call it made succeeded", e));
            }
        }
    }
    None
}

/// The mechanisms by which the unsynchronised manifest read-modify-write of KF-C13-04 lets one
/// task damage the other's update, read off the trace. A task that only READ (a compactor that
/// found nothing to compact, a flush whose manifest reload failed) cannot take part in any.
///   stale_publish     a task's manifest rename succeeds after the other task's succeeded,
///                     although it had loaded the manifest before that other rename;
///   foreign_temp      between a task's put of the shared temp object and its rename the other
///                     task put the temp object too (the rename publishes the other's manifest,
///                     or finds the temp object gone);
///   same_segment_key  both tasks put the same segment object (both allocated the id from the
///                     same manifest snapshot).
fn interference(calls: &[CallRecord]) -> Vec<&'static str> {
    let manifest_key = format!("{}/manifest.json", PREFIX);
    let temp_key = format!("{}/manifest.json.tmp", PREFIX);
    let of = |t: u8| calls.iter().filter(move |c| c.task == t);
    let load = |t: u8| of(t).next().map(|c| c.idx);
    let rename = |t: u8| {
        of(t)
            .filter(|c| c.op == OpKind::Rename && c.key2.as_deref() == Some(manifest_key.as_str()))
            .last()
            .map(|c| (c.idx, c.ok))
    };
    let temp_put = |t: u8| of(t).filter(|c| c.op == OpKind::Put && c.key == temp_key).last().map(|c| c.idx);
    let mut found = Vec::new();
    for (x, y) in [(TASK_COMPACT, TASK_FLUSH), (TASK_FLUSH, TASK_COMPACT)] {
        if let (Some(lx), Some((rx, true)), Some((ry, true))) = (load(x), rename(x), rename(y)) {
            if ry < rx && lx < ry && !found.contains(&"stale_publish") {
                found.push("stale_publish");
            }
        }
        if let (Some(px), Some(py), Some((rx, _))) = (temp_put(x), temp_put(y), rename(x)) {
            if px < py && py < rx && !found.contains(&"foreign_temp") {
                found.push("foreign_temp");
            }
        }
    }
    let seg_puts = |t: u8| -> BTreeSet<&str> {
        of(t)
            .filter(|c| c.op == OpKind::Put && c.key.contains("/segments/"))
            .map(|c| c.key.as_str())
            .collect()
    };
    if seg_puts(TASK_COMPACT).intersection(&seg_puts(TASK_FLUSH)).next().is_some() {
        found.push("same_segment_key");
    }
    found
}

fn check_one_schedule(
    env: &Env,
    before: &Recovered,
    l: &Layout,
    batch: &[ReplicationDelta],
    out: &InterOut,
    ctx: &mut CaseCtx<'_>,
) -> Result<bool, String> {
    let calls = out.store.calls();
    let overlap = windows_overlap(&calls);
    // KF-C13-04 covers overlapping schedules in which both tasks reported what their own
    // store calls told them (see result_vs_own_calls)
    let untruthful = result_vs_own_calls(&calls, out);
    if untruthful.is_some() {
        ctx.label("a_task_reported_other_than_its_own_store_calls");
    }
    let mechanisms = interference(&calls);
    let fallback = if overlap && untruthful.is_none() && !mechanisms.is_empty() {
        Some("KF-C13-04")
    } else {
        None
    };
    if overlap && mechanisms.is_empty() {
        // overlapping windows, but one task only read: nothing to attribute to the race
        N_OVERLAP_NO_INTERFERENCE.fetch_add(1, Ordering::Relaxed);
    }
    for m in &mechanisms {
        match *m {
            "stale_publish" => N_STALE_PUBLISH.fetch_add(1, Ordering::Relaxed),
            "foreign_temp" => N_FOREIGN_TEMP.fetch_add(1, Ordering::Relaxed),
            _ => N_SAME_SEGMENT_KEY.fetch_add(1, Ordering::Relaxed),
        };
    }
    if overlap {
        N_OVERLAP.fetch_add(1, Ordering::Relaxed);
    }
    let trace = || {
        format!(
            "    schedule {} (C = one compactor call, F = one flush call){}\n    compact() -> {}\n    flush()   -> {}\n    store calls:\n{}",
            word_text(&out.word),
            match (overlap, &untruthful) {
                (true, Some(why)) => format!(" — the manifest read-modify-write windows of the two tasks overlap, but KF-C13-04 does not cover this schedule: {}", why),
                (true, None) if mechanisms.is_empty() => " — the manifest read-modify-write windows of the two tasks overlap, but one task only read (no stale publish, no foreign temp object, no shared segment key), so KF-C13-04 does not cover this schedule".to_string(),
                (true, None) => format!(" — the manifest read-modify-write windows of the two tasks overlap ({})", mechanisms.join(", ")),
                (false, _) => " — the two manifest updates are serial".to_string(),
            },
            match &out.res_a {
                Ok(r) => format!("Ok(removed {:?}, created {:?})", r.segments_removed.iter().map(|s| s.id).collect::<Vec<_>>(), r.segment_created.as_ref().map(|s| s.id)),
                Err(e) => format!("Err({})", e),
            },
            match &out.res_b {
                Ok(r) => format!("Ok(segment {:?})", r.segment.as_ref().map(|s| s.id)),
                Err(e) => format!("Err({})", e),
            },
            calls.iter().map(|c| format!("      {}\n", c.short())).collect::<String>()
        )
    };
    let tolerate_or = |ctx: &mut CaseCtx<'_>, msg: String| -> Result<bool, String> {
        match fallback {
            Some(id) if ctx.tolerate(id) => Ok(overlap),
            _ => Err(format!("{}\n{}", msg, trace())),
        }
    };
    match &out.res_a {
        Ok(_) | Err(CompactionError::NothingToCompact) => {}
        Err(e) => return tolerate_or(ctx, format!("compact() failed on a fault-free store: {}", e)),
    }
    // the manifest names only existing, valid objects; recovery works
    let fin = match recover_image(&out.store.image()) {
        Ok(r) => r,
        Err(e) => return tolerate_or(ctx, format!("after compact() || flush(): {}", e)),
    };
    // what the property demands of the final state
    let mut ideal = before.state.clone();
    let mut seg_deltas = env.seg_deltas.clone();
    let mut flushed_id = None;
    if let Ok(fr) = &out.res_b {
        fold_into(&mut ideal, batch);
        if let Some(seg) = &fr.segment {
            flushed_id = Some(seg.id);
            if seg_deltas.contains_key(&seg.id) {
                // the flush re-used the id of a live segment
                return tolerate_or(ctx, format!("flush() wrote its batch under the id {} of an existing segment", seg.id));
            }
            seg_deltas.insert(seg.id, batch.to_vec());
        }
    }
    let removed_ids: Vec<u64> = match &out.res_a {
        Ok(r) => r.segments_removed.iter().map(|s| s.id).collect(),
        Err(_) => Vec::new(),
    };
    let mut removed = Vec::new();
    for id in &removed_ids {
        match seg_deltas.get(id) {
            Some(d) => removed.push(d.clone()),
            None => return tolerate_or(ctx, format!("compaction removed unknown segment {}", id)),
        }
    }
    let live: Vec<u64> = before
        .manifest
        .segments
        .iter()
        .map(|s| s.id)
        .chain(flushed_id)
        .filter(|id| !removed_ids.contains(id))
        .collect();
    let outside_deltas: Vec<ReplicationDelta> = live
        .iter()
        .flat_map(|id| seg_deltas.get(id).cloned().unwrap_or_default())
        .collect();
    // reference selection on the manifest the compactor actually loaded (its first call)
    let loaded = calls
        .iter()
        .find(|c| c.task == TASK_COMPACT)
        .and_then(|c| read_manifest(&out.store.image_before(c.idx)));
    let reference = loaded.as_ref().map(|m| reference_selection(m, l)).unwrap_or_default();
    let mut removed_sorted = removed_ids.clone();
    removed_sorted.sort();
    let att = Attribution {
        l,
        ideal,
        outside: fold(before.checkpoint.as_ref(), &outside_deltas),
        removed,
        selection_is_reference: removed_sorted == reference,
        selection_note: format!(
            "the compacted set {:?} is not the oldest-first selection {:?} of the documented rule, so the tombstone findings do not apply",
            removed_sorted, reference
        ),
    };
    let mut stats = Stats {
        gc_accepted: 0,
        tolerated: BTreeSet::new(),
    };
    // `ideal` contains the batch of a flush that returned Ok, so "every update of a confirmed
    // flush is recovered" is part of this comparison (a key that equals the ideal contains it)
    if let Err(e) = att.compare(&fin.state, fallback, ctx, &mut stats) {
        return Err(format!(
            "{}\n    (flush() batch: {})\n{}",
            e,
            batch.iter().map(show_delta).collect::<Vec<_>>().join("; "),
            trace()
        ));
    }
    if !overlap {
        N_SERIAL.fetch_add(1, Ordering::Relaxed);
    } else if !stats.tolerated.contains("KF-C13-04") {
        N_OVERLAP_CLEAN.fetch_add(1, Ordering::Relaxed);
    }
    Ok(overlap)
}

fn check_inter(case: &Inter, ctx: &mut CaseCtx<'_>) -> Result<(), String> {
    let l = &case.layout;
    let env = setup(l)?;
    let before = recover_image(&env.image).map_err(|e| format!("before: {}", e))?;
    let mut specs = case.batch.clone();
    // stamps of the concurrent batch must not collide with the layout's
    let mut all: Vec<DeltaSpec> = l.segments.iter().flatten().cloned().collect();
    let n_layout = all.len();
    all.append(&mut specs);
    uniquify(all.iter_mut(), false);
    let batch: Vec<ReplicationDelta> = all[n_layout..].iter().map(|s| s.build()).collect();
    if batch.is_empty() {
        return Ok(());
    }
    let mut schedules = 0u64;
    let mut overlapping = 0u64;
    match &case.schedule {
        Some(word) => {
            let out = run_schedule(&env.image, l, &batch, case.flush_fault, |step| word.get(step).cloned().unwrap_or(true))?;
            if check_one_schedule(&env, &before, l, &batch, &out, ctx)? {
                overlapping += 1;
            }
            schedules += 1;
            if case.flush_fault.is_some() {
                ctx.label("flush_manifest_read_fault");
            }
            if case.flush_fault == Some(Fault::Fail) {
                ctx.label(&format!("injected_error_kind:{}", error_kind(l.err_kind).1));
            }
        }
        None => {
            for flush_fault in [None, Some(Fault::Fail)] {
                let mut prefix: Vec<bool> = Vec::new();
                loop {
                    let out = run_schedule(&env.image, l, &batch, flush_fault, |step| prefix.get(step).cloned().unwrap_or(true))?;
                    if check_one_schedule(&env, &before, l, &batch, &out, ctx)
                        .map_err(|e| format!("{}\n    fault on flush()'s manifest reload: {:?}", e, flush_fault))?
                    {
                        overlapping += 1;
                    }
                    schedules += 1;
                    // depth-first: flip the last free choice that took the compactor
                    match (0..out.word.len()).rev().find(|&t| out.both[t] && out.word[t]) {
                        Some(t) => {
                            prefix = out.word[..t].to_vec();
                            prefix.push(false);
                        }
                        None => break,
                    }
                    if schedules > 400_000 {
                        return Err("more than 400000 interleavings: layout too large for enumeration".into());
                    }
                }
            }
            ctx.label("all_interleavings");
            ctx.label(&format!("injected_error_kind:{}", error_kind(l.err_kind).1));
        }
    }
    ctx.add_evaluations(schedules);
    if overlapping > 0 {
        // NT clause 3: a flush call between compaction's manifest load and save
        ctx.nontrivial(case);
        ctx.label("overlapping_windows");
    }
    Ok(())
}

// ---------------------------------------------------------------------------------------
// generators
// ---------------------------------------------------------------------------------------

fn action() -> impl Strategy<Value = Action> {
    prop_oneof![
        5 => (0u8..6, prop_oneof![3 => Just(0u16), 1 => 60u16..400]).prop_map(|(val, pad)| Action::Set { val, pad }),
        2 => (0u8..6, 1000u32..5000).prop_map(|(val, expiry)| Action::SetEx { val, expiry }),
        4 => Just(Action::Del),
        3 => (0u8..4, 0u8..6).prop_map(|(field, val)| Action::HSet { field, val }),
        1 => (0u8..4, 0u8..6, 0u8..4, 0u8..6).prop_map(|(f1, v1, f2, v2)| Action::HSet2 { f1, v1, f2, v2 }),
        2 => (0u8..4).prop_map(|field| Action::HDel { field }),
        1 => (0u8..4, 0u8..6, 1000u32..5000).prop_map(|(field, val, expiry)| Action::HSetEx { field, val, expiry }),
    ]
}

fn delta_spec() -> impl Strategy<Value = DeltaSpec> {
    (0u8..4, action(), 1u8..4, 1u64..60).prop_map(|(key, action, replica, time)| DeltaSpec {
        key,
        action,
        replica,
        time,
    })
}

/// which `ErrorKind` injected failures carry (half the cases `Other`, as the in-tree
/// SimulatedObjectStore injects; the rest spread over the other kinds of store::ERROR_KINDS)
fn err_kind() -> impl Strategy<Value = u8> {
    prop_oneof![1 => Just(0u8), 1 => 1u8..(ERROR_KINDS.len() as u8)]
}

fn clock() -> impl Strategy<Value = Clock> {
    prop_oneof![
        1 => (0u32..100_000).prop_map(Clock::Production),
        1 => (0u32..300).prop_map(Clock::Simulated),
    ]
}

fn ttl() -> impl Strategy<Value = u64> {
    prop_oneof![
        Just(1u64),
        Just(10),
        Just(50),
        Just(100),
        Just(3_600_000),
        Just(86_400_000),
    ]
}

/// none in half of the layouts, otherwise 1–3 exact copies of earlier updates in later segments
fn redeliveries() -> impl Strategy<Value = Vec<(u16, u16)>> {
    prop_oneof![
        1 => Just(Vec::new()),
        1 => proptest::collection::vec((any::<u16>(), any::<u16>()), 1..4),
    ]
}

fn layout(min_segments: usize, max_segments: usize, max_deltas: usize) -> impl Strategy<Value = Layout> {
    (
        proptest::collection::vec(proptest::collection::vec(delta_spec(), 1..max_deltas), min_segments..=max_segments),
        prop_oneof![3 => Just(0u8), 1 => 1u8..4],
        prop_oneof![3 => Just(2u8), 1 => Just(3u8)],
        2u8..7,
        ttl(),
        prop_oneof![Just(250u32), Just(400), Just(700), Just(1 << 20)],
        clock(),
        redeliveries(),
        prop_oneof![6 => Just(0u8), 1 => Just(1u8), 1 => Just(2u8), 1 => Just(3u8)],
    )
        .prop_map(|(segments, checkpoint_prefix, min_seg, max_seg, ttl_ms, target, clock, redeliver, orphan)| Layout {
            segments,
            checkpoint_prefix,
            min_seg,
            max_seg,
            ttl_ms,
            target,
            clock,
            err_kind: 0,
            redeliver,
            orphan,
        })
}

/// More below-target candidates than max_segments_per_compaction, of clearly different sizes
/// (size order differs from id order), few keys, many deletes (whole keys and hash fields):
/// value / tombstone pairs split across the selection boundary; several passes are needed to
/// compact everything.
fn layout_many() -> impl Strategy<Value = Layout> {
    let spec = (
        0u8..2,
        prop_oneof![
            3 => Just(Action::Del),
            2 => (0u8..6).prop_map(|val| Action::Set { val, pad: 0 }),
            2 => (0u8..6, prop_oneof![Just(80u16), Just(200), Just(350)]).prop_map(|(val, pad)| Action::Set { val, pad }),
            // two fields only, set and deleted from three replicas: hashes whose fields are all
            // deleted, with the older field value in a segment the pass does not select
            2 => (0u8..2, 0u8..6).prop_map(|(field, val)| Action::HSet { field, val }),
            2 => (0u8..2).prop_map(|field| Action::HDel { field }),
        ],
        1u8..4,
        1u64..60,
    )
        .prop_map(|(key, action, replica, time)| DeltaSpec {
            key,
            action,
            replica,
            time,
        });
    (
        proptest::collection::vec(proptest::collection::vec(spec, 1..4), 4..=8),
        prop_oneof![4 => Just(0u8), 1 => 1u8..3],
        prop_oneof![1 => Just(1u8), 3 => Just(2u8)],
        2u8..4,
        ttl(),
        prop_oneof![Just(2000u32), Just(1 << 20)],
        clock(),
        redeliveries(),
        prop_oneof![6 => Just(0u8), 1 => Just(1u8), 1 => Just(2u8), 1 => Just(3u8)],
    )
        .prop_map(|(segments, checkpoint_prefix, min_seg, max_seg, ttl_ms, target, clock, redeliver, orphan)| Layout {
            segments,
            checkpoint_prefix,
            min_seg,
            max_seg,
            ttl_ms,
            target,
            clock,
            err_kind: 0,
            redeliver,
            orphan,
        })
}

// ---------------------------------------------------------------------------------------
// probes (minimal reproducers)
// ---------------------------------------------------------------------------------------

fn spec(key: u8, action: Action, replica: u8, time: u64) -> DeltaSpec {
    DeltaSpec {
        key,
        action,
        replica,
        time,
    }
}

fn case_kf01() -> Layout {
    Layout {
        segments: vec![
            vec![spec(0, Action::HSet { field: 0, val: 1 }, 1, 1)],
            vec![spec(0, Action::HSet { field: 1, val: 2 }, 2, 2)],
        ],
        checkpoint_prefix: 0,
        min_seg: 2,
        max_seg: 5,
        ttl_ms: 86_400_000,
        target: 1 << 20,
        clock: Clock::Simulated(0),
        err_kind: 0,
        redeliver: Vec::new(),
        orphan: 0,
    }
}

/// s0 set in a large (skipped) segment, deleted in a small one, compacted with another small one
fn resurrection_layout(clock: Clock, ttl_ms: u64) -> Layout {
    Layout {
        segments: vec![
            vec![spec(0, Action::Set { val: 1, pad: 400 }, 1, 1)],
            vec![spec(0, Action::Del, 1, 2)],
            vec![spec(1, Action::Set { val: 2, pad: 0 }, 1, 3)],
        ],
        checkpoint_prefix: 0,
        min_seg: 2,
        max_seg: 5,
        ttl_ms,
        target: 400,
        clock,
        err_kind: 0,
        redeliver: Vec::new(),
        orphan: 0,
    }
}

fn case_kf04() -> Inter {
    Inter {
        layout: Layout {
            segments: vec![
                vec![spec(0, Action::Set { val: 1, pad: 0 }, 1, 1)],
                vec![spec(1, Action::Set { val: 2, pad: 0 }, 1, 2)],
            ],
            checkpoint_prefix: 0,
            min_seg: 2,
            max_seg: 5,
            ttl_ms: 86_400_000,
            target: 1 << 20,
            clock: Clock::Simulated(0),
            err_kind: 0,
            redeliver: Vec::new(),
            orphan: 0,
        },
        batch: vec![spec(2, Action::Set { val: 3, pad: 0 }, 1, 3)],
        // compactor loads the manifest, the flush runs completely, the compactor finishes
        schedule: Some(vec![true, false, false, false, false, true, true, true, true, true, true, true, true]),
        flush_fault: None,
    }
}

fn main() {
    run_with_filtered_stderr("C13");
    let args = vcore::parse_args();
    let s = Session::new(
        "C13",
        Level::Exploration,
        "layouts: 2-8 segments of 1-5 updates written through StreamingPersistence (4 string + 2 hash keys, 3 replicas, Lamport times 1..60 with collisions, padded values so that segment sizes straddle target_segment_size in {250,400,700,1MiB}), optional checkpoint over a prefix, \
         CompactionConfig min 2-3 / max 2-6 segments, ttl in {1,10,50,100 ms,1 h,24 h}, compactor clock production-like (epoch ms) or simulated (0..300 ms). \
         interleave: 2-3 segment layouts + a 1-3 update batch, ALL interleavings of compact()'s and flush()'s store calls (hand-polled, one call per step); interleave_sampled: up to 6 segments with a generated 40-step schedule word. \
         layouts also: 4-8 below-target segments of clearly different sizes on two keys with many deletes and max 2-3 segments per compaction (more candidates than max; size order != id order); compaction passes are repeated until nothing is selectable (<= 6) and recovery compared across every pass. \
         read_faults: every get of recover() and of compact() returns once an error / a byte flipped at 7 relative positions / the object truncated to 5 relative lengths (stored objects intact). \
         layouts also delete hash fields (HDEL from 3 replicas on 2-4 fields), so compactions carry hashes whose fields are all deleted while an older value of the field lies in a segment the pass did not select. \
         non-trivial = a key occurs in >= 2 compacted segments, or a compacted tombstone (whole key, or a hash field) has an older value for its key / field outside the compaction (other segment / checkpoint), \
         or (interleaving) some flush call falls between the compactor's manifest load and its manifest rename; distinct by the whole case",
        &args,
    );
    s.assume("recovered state = fold of RecoveredState as apply_recovered_state does it; peer view = vcore::proj::peer_view with the outer stamp's replica id masked (merge keeps self's id there, so it depends on fold order, which compaction legitimately changes); client view = vcore::proj::client_view");
    s.assume("updates under one key have one CRDT type and distinct (time, replica) stamps (otherwise merge itself is order-dependent: C07)");
    s.assume("tombstone age: under the production-like clock every update of the layout is younger than the TTL (stamps are logical counters and carry no wall-clock time), so no tombstone may disappear; under the simulated clock the implementation's reading 'stamp = ms' defines age, and a tombstone older than the TTL may disappear iff no client-visible value comes back");
    s.assume("KF-C13-02/-03 are matched only when the compacted set equals what the documented selection rule (below-target segments, oldest id first, at most max_segments_per_compaction) picks from the manifest the compactor loaded (minus a segment it could not read under an injected read fault); a tombstone-drop difference with any other compacted set is a violation");
    s.assume("the only values a compaction may drop are LWW whole-key tombstones (what DEL writes; ReplicatedValue::is_tombstone() of the unchanged tree). The harness decides this from the value's structure (CrdtValue::Lww with the tombstone flag), never by calling is_tombstone(): a hash whose fields are all deleted, a value with an expiry in the past, an empty set or a zero counter are values a compaction must carry over, and KF-C13-02/-03 do not cover their loss. Only LWW strings and hashes are generated: nothing in the tree creates counter or set CRDT values");
    s.assume("KF-C13-04 is matched only in schedules where the manifest read-modify-write windows overlap AND both tasks reported what their own store calls returned (flush(): Ok iff its get, both puts and the rename returned Ok; compact(): Ok/NothingToCompact iff every get, put and rename it made returned Ok — deletes are best effort and a truthful NotFound on a get is an answer, not a failure). A discrepancy in a schedule where a task reported success although one of its own calls failed (or failure although none did) is a violation");
    s.assume("an injected failing call carries one of the ErrorKinds other / timed out / interrupted / connection reset / permission denied / unexpected eof / would block / already exists / invalid data (one kind per case); NotFound is never injected: for this API it is an answer ('the object does not exist') that load_or_create and compact() are documented to act on, and it arises truthfully in the interleaving tier when the other task has moved the shared temp object");
    s.assume("third outcome per call (read_faults check, compaction's puts/renames/deletes): the operation TAKES EFFECT and still reports an error (timeout after commit): put = object fully stored + error; delete = object gone + error; rename = destination written, source still present + error (copy-then-delete as in the in-tree S3 store with the delete failing); if the manifest was swapped although compact() reported an error the compaction is judged like a successful one");
    s.assume("read faults: a get returns Ok with one byte XOR 0xFF (as SimulatedObjectStore corrupts) or with a prefix of the object, once; the stored object is intact. Other damage patterns (single bit flips inside JSON digits of the manifest, which has no checksum) are not injected");
    s.assume("the step scheduler interleaves at store-call granularity: between two store calls a task runs atomically (there is no other await point in compact()/flush())");

    // ---- probes
    s.probe("KF-C13-01", serde_json::to_value(case_kf01()).unwrap(), || {
        s.strict_eval(|ctx| check_layout(&case_kf01(), ctx)).err()
    });
    let kf02 = resurrection_layout(Clock::Production(0), 86_400_000);
    s.probe("KF-C13-02", serde_json::to_value(&kf02).unwrap(), || {
        s.strict_eval(|ctx| check_layout(&kf02, ctx)).err()
    });
    let kf03 = resurrection_layout(Clock::Simulated(200), 100);
    s.probe("KF-C13-03", serde_json::to_value(&kf03).unwrap(), || {
        s.strict_eval(|ctx| check_layout(&kf03, ctx)).err()
    });
    s.probe("KF-C13-04", serde_json::to_value(case_kf04()).unwrap(), || {
        s.strict_eval(|ctx| check_inter(&case_kf04(), ctx)).err()
    });

    // ---- tier 1
    s.describe_check("layouts", "one compact() on a quiescent store; fold(recover()) before vs after, client and peer view, per-key attribution");
    s.run_cases(
        "layouts",
        s.scale(30_000, 4_000_000),
        || prop_oneof![3 => layout(2, 8, 6).boxed(), 2 => layout_many().boxed()],
        check_layout,
    );

    // ---- tier 1b
    s.describe_check("read_faults", "one faulty store call, every call in turn: every get of recover() and compact() returns an error / one flipped byte (6 positions) / a truncated object (5 lengths) with the stored object intact; every put of compact() fails cleanly / half-written / after the object was stored; every rename and delete fails without or WITH effect (rename: destination written, source left). recover() must fail or return the healthy state; whatever compact() reports, the state recovered afterwards with healthy reads must equal the state before and the manifest must name only valid objects");
    s.run_cases(
        "read_faults",
        s.scale(400, 60_000),
        || {
            (prop_oneof![2 => layout(2, 5, 5).boxed(), 1 => layout_many().boxed()], err_kind()).prop_map(|(mut l, k)| {
                l.err_kind = k;
                l
            })
        },
        check_read_faults,
    );

    // ---- tier 2
    s.describe_check("interleave", "compact() || flush(): every interleaving of the two tasks' store calls (depth-first over the step scheduler's choice points)");
    s.run_cases(
        "interleave",
        s.scale(400, 60_000),
        || {
            (layout(2, 3, 4), proptest::collection::vec(delta_spec(), 1..4), err_kind()).prop_map(|(mut layout, batch, k)| {
                layout.checkpoint_prefix = 0;
                layout.err_kind = k;
                Inter {
                    layout,
                    batch,
                    schedule: None,
                    flush_fault: None,
                }
            })
        },
        check_inter,
    );
    s.describe_check("interleave_sampled", "compact() || flush() on larger layouts under a generated schedule word");
    s.run_cases(
        "interleave_sampled",
        s.scale(20_000, 3_000_000),
        || {
            (
                layout(2, 6, 5),
                proptest::collection::vec(delta_spec(), 1..4),
                proptest::collection::vec(any::<bool>(), 40),
                prop_oneof![
                    2 => Just(None),
                    2 => Just(Some(Fault::Fail)),
                    1 => Just(Some(Fault::CorruptGet(500))),
                    1 => Just(Some(Fault::TruncateGet(500))),
                ],
                err_kind(),
            )
                .prop_map(|(mut layout, batch, word, flush_fault, k)| Inter {
                    layout: {
                        layout.err_kind = k;
                        layout
                    },
                    batch,
                    schedule: Some(word),
                    flush_fault,
                })
        },
        check_inter,
    );
    s.note(
        "interleaving_schedules",
        json!({
            "serial_fully_checked": N_SERIAL.load(Ordering::Relaxed),
            "overlapping": N_OVERLAP.load(Ordering::Relaxed),
            "overlapping_without_any_discrepancy": N_OVERLAP_CLEAN.load(Ordering::Relaxed),
            "overlapping_but_one_task_only_read_fully_checked": N_OVERLAP_NO_INTERFERENCE.load(Ordering::Relaxed),
            "with_stale_publish": N_STALE_PUBLISH.load(Ordering::Relaxed),
            "with_foreign_temp_object": N_FOREIGN_TEMP.load(Ordering::Relaxed),
            "with_same_segment_key_put_by_both": N_SAME_SEGMENT_KEY.load(Ordering::Relaxed),
        }),
    );
    s.finish();
}
