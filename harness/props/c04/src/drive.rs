//! Driving the real connection handler (hook) over a scripted stream, with structural
//! termination detection, plus the harness-side description of a byte stream (frames,
//! segmentations, effective reads) and the model of the batch collectors that is used only to
//! recognise the latent collector defect KF-C04-L1 (not listed; the collectors never engage in the current tree).

use redis_sim::production::{verif_hooks, ConnectionConfig, ConnectionPool, ShardedActorState};
use serde::{Deserialize, Serialize};
use std::io;
use std::pin::Pin;
use std::sync::atomic::{AtomicBool, Ordering};
use std::sync::Arc;
use std::task::{Context, Poll};
use tokio::io::{AsyncRead, AsyncWrite, ReadBuf};
use vcore::resp::Argv;
use vcore::stream::ScriptedStream;

/// Batching configuration of one connection (u64::MAX stands for usize::MAX).
#[derive(Clone, Debug, PartialEq, Eq, Hash, Serialize, Deserialize)]
pub struct Cfg {
    pub min_pipeline_buffer: u64,
    pub batch_threshold: u32,
    pub read_buffer_size: u32,
    /// 0 = the server default (512 MB)
    #[serde(default)]
    pub max_buffer_size: u32,
}

impl Cfg {
    pub fn reference() -> Cfg {
        Cfg {
            min_pipeline_buffer: u64::MAX,
            batch_threshold: 2,
            read_buffer_size: 8192,
            max_buffer_size: 0,
        }
    }
    pub fn to_conn(&self) -> ConnectionConfig {
        let d = ConnectionConfig::default();
        ConnectionConfig {
            max_buffer_size: if self.max_buffer_size == 0 {
                d.max_buffer_size
            } else {
                self.max_buffer_size as usize
            },
            min_pipeline_buffer: if self.min_pipeline_buffer == u64::MAX {
                usize::MAX
            } else {
                self.min_pipeline_buffer as usize
            },
            batch_threshold: self.batch_threshold as usize,
            read_buffer_size: (self.read_buffer_size as usize).max(1),
        }
    }
}

/// One aimed cut: (frame selector, kind, sub selector); see `aim_offset`.
#[derive(Clone, Debug, PartialEq, Eq, Hash, Serialize, Deserialize)]
pub struct Aim {
    pub frame: u16,
    pub kind: u8,
    pub sub: u8,
}

/// How the byte stream is split into network reads.
#[derive(Clone, Debug, PartialEq, Eq, Hash, Serialize, Deserialize)]
pub enum Seg {
    /// everything in one read
    Whole,
    /// one byte per read
    Bytewise,
    /// exactly one frame per read
    PerFrame,
    /// fixed chunk size
    Fixed(u16),
    /// explicit cuts: uniform fractions of the stream length, aimed cuts, optionally all
    /// frame ends as well
    Cuts {
        uniform: Vec<u16>,
        aimed: Vec<Aim>,
        frame_ends: bool,
    },
}

impl Seg {
    pub fn label(&self) -> &'static str {
        match self {
            Seg::Whole => "seg:whole",
            Seg::Bytewise => "seg:bytewise",
            Seg::PerFrame => "seg:per_frame",
            Seg::Fixed(_) => "seg:fixed",
            Seg::Cuts { aimed, .. } if !aimed.is_empty() => "seg:aimed",
            Seg::Cuts { .. } => "seg:uniform",
        }
    }
}

/// A byte stream made of frames (well-formed commands or raw byte strings).
pub struct Stream {
    pub bytes: Vec<u8>,
    /// (start, end) of every frame
    pub frames: Vec<(usize, usize)>,
}

impl Stream {
    pub fn from_raw(frames: &[Vec<u8>]) -> Stream {
        let mut bytes = Vec::new();
        let mut spans = Vec::new();
        for f in frames {
            let s = bytes.len();
            bytes.extend_from_slice(f);
            spans.push((s, bytes.len()));
        }
        Stream {
            bytes,
            frames: spans,
        }
    }
    pub fn from_cmds(cmds: &[Argv]) -> Stream {
        let raw: Vec<Vec<u8>> = cmds.iter().map(|a| vcore::resp::encode_command(a)).collect();
        Stream::from_raw(&raw)
    }
}

/// Offset (absolute) of an aimed cut inside frame `(s, e)` of `bytes`, or None.
fn aim_offset(bytes: &[u8], s: usize, e: usize, kind: u8, sub: u8) -> Option<usize> {
    let f = &bytes[s..e];
    let crs: Vec<usize> = f
        .iter()
        .enumerate()
        .filter(|(_, &b)| b == b'\r')
        .map(|(i, _)| i)
        .collect();
    let rel = match kind % 10 {
        // inside `*N` (right after the type byte)
        0 => 1,
        // inside the first `$len` (right after the '$' that starts the second line)
        1 => {
            let p = f.windows(3).position(|w| w == b"\r\n$")?;
            p + 3
        }
        // between CR and LF of the first header line
        2 => crs.first()? + 1,
        // between some CR and the byte after it
        3 => {
            if crs.is_empty() {
                return None;
            }
            crs[(sub as usize * crs.len()) >> 8] + 1
        }
        // somewhere inside (payloads are most of a frame)
        4 => (sub as usize * f.len()) >> 8,
        // between the final CR and LF
        5 => f.len().checked_sub(1)?,
        // exactly at the frame end
        6 => f.len(),
        // around the fast-path recogniser's offsets: 12 (detect), 14 (header), 15
        7 => 12,
        8 => 14,
        _ => 15,
    };
    if rel == 0 || rel > f.len() {
        return None;
    }
    Some(s + rel)
}

/// Cut positions (sorted, unique, strictly inside the stream) of a segmentation.
pub fn cuts(seg: &Seg, st: &Stream) -> Vec<usize> {
    let total = st.bytes.len();
    let mut v: Vec<usize> = Vec::new();
    match seg {
        Seg::Whole => {}
        Seg::Bytewise => v.extend(1..total),
        Seg::PerFrame => v.extend(st.frames.iter().map(|f| f.1)),
        Seg::Fixed(n) => {
            let n = (*n as usize).max(1);
            let mut p = n;
            while p < total {
                v.push(p);
                p += n;
            }
        }
        Seg::Cuts {
            uniform,
            aimed,
            frame_ends,
        } => {
            if total > 1 {
                for u in uniform {
                    v.push(1 + ((*u as usize * (total - 1)) >> 16));
                }
            }
            if !st.frames.is_empty() {
                for a in aimed {
                    let fi = (a.frame as usize * st.frames.len()) >> 16;
                    let (s, e) = st.frames[fi];
                    if let Some(o) = aim_offset(&st.bytes, s, e, a.kind, a.sub) {
                        v.push(o);
                    }
                }
            }
            if *frame_ends {
                v.extend(st.frames.iter().map(|f| f.1));
            }
        }
    }
    v.retain(|&c| c > 0 && c < total);
    v.sort_unstable();
    v.dedup();
    v
}

pub fn chunks_of(bytes: &[u8], cuts: &[usize]) -> Vec<Vec<u8>> {
    let mut out = Vec::with_capacity(cuts.len() + 1);
    let mut last = 0;
    for &c in cuts {
        out.push(bytes[last..c].to_vec());
        last = c;
    }
    out.push(bytes[last..].to_vec());
    out.retain(|c| !c.is_empty());
    out
}

/// Cumulative end offsets of the reads the handler actually performs: every chunk is handed
/// out in pieces of at most `read_buffer_size` bytes (ScriptedStream semantics = socket
/// semantics).
pub fn effective_reads(total: usize, cuts: &[usize], read_buffer_size: usize) -> Vec<usize> {
    let rbs = read_buffer_size.max(1);
    let mut ends = Vec::new();
    let mut last = 0usize;
    for &c in cuts.iter().chain(std::iter::once(&total)) {
        let mut p = last;
        while p < c {
            p = (p + rbs).min(c);
            ends.push(p);
        }
        last = c;
    }
    ends
}

// ---------------------------------------------------------------------------------------
// running the handler
// ---------------------------------------------------------------------------------------

/// AsyncRead/AsyncWrite wrapper that records when the handler has been served EOF.
struct EofWatch {
    inner: ScriptedStream,
    eof: Arc<AtomicBool>,
}

impl AsyncRead for EofWatch {
    fn poll_read(
        mut self: Pin<&mut Self>,
        cx: &mut Context<'_>,
        buf: &mut ReadBuf<'_>,
    ) -> Poll<io::Result<()>> {
        let before = buf.filled().len();
        let room = buf.remaining();
        let r = Pin::new(&mut self.inner).poll_read(cx, buf);
        if let Poll::Ready(Ok(())) = &r {
            if room > 0 && buf.filled().len() == before {
                self.eof.store(true, Ordering::SeqCst);
            }
        }
        r
    }
}

impl AsyncWrite for EofWatch {
    fn poll_write(
        mut self: Pin<&mut Self>,
        cx: &mut Context<'_>,
        buf: &[u8],
    ) -> Poll<io::Result<usize>> {
        Pin::new(&mut self.inner).poll_write(cx, buf)
    }
    fn poll_flush(mut self: Pin<&mut Self>, cx: &mut Context<'_>) -> Poll<io::Result<()>> {
        Pin::new(&mut self.inner).poll_flush(cx)
    }
    fn poll_shutdown(mut self: Pin<&mut Self>, cx: &mut Context<'_>) -> Poll<io::Result<()>> {
        Pin::new(&mut self.inner).poll_shutdown(cx)
    }
}

#[derive(Debug, Clone)]
pub struct RunOut {
    pub out: Vec<u8>,
    /// the handler future returned
    pub finished: bool,
    /// the handler was served EOF
    pub eof_seen: bool,
    /// panic of the handler task (message @ location)
    pub panic: Option<String>,
    /// panic of another task of the server (a shard actor) during the run
    pub other_panic: Option<String>,
    pub turns: usize,
}

/// Extra I/O behaviour of the scripted socket.
#[derive(Clone, Copy, Debug, Default, PartialEq, Eq, Hash, Serialize, Deserialize)]
pub struct Io {
    /// one spurious Pending (with immediate wake) before every chunk
    pub pending: bool,
    /// max bytes accepted per write (0 = unlimited); 1 and 7 for ordinary cases, thousands for the
    /// scale class (a socket whose send buffer is smaller than what one batch of replies offers)
    pub write_limit: u32,
}

/// Run one connection handler over `chunks` until it returns, or until `turn_budget`
/// scheduler turns have passed without it returning.
///
/// Termination is decided structurally, not by a timer: the runtime is a fresh
/// current-thread runtime whose only tasks are the handler and the shard actors, none of
/// which waits for time or external I/O; the scripted socket never returns Pending without
/// waking. One `yield_now` of the driver lets every runnable task run. A handler that has not
/// returned after `turn_budget` turns (far more than the messages a stream can cause) is
/// waiting for something that will never happen.
pub fn run_handler(chunks: Vec<Vec<u8>>, cfg: &Cfg, shards: usize, io: Io, turn_budget: usize) -> RunOut {
    let rt = tokio::runtime::Builder::new_current_thread()
        .enable_all()
        .build()
        .expect("tokio runtime");
    let _ = vcore::runner::take_last_panic();
    let n = chunks.len();
    let (mut stream, out) = ScriptedStream::new(chunks);
    if io.pending {
        stream = stream.with_pending(vec![1; n + 1]);
    }
    if io.write_limit > 0 {
        stream = stream.with_write_limit(io.write_limit as usize);
    }
    let eof = Arc::new(AtomicBool::new(false));
    let watched = EofWatch {
        inner: stream,
        eof: eof.clone(),
    };
    let cc = cfg.to_conn();
    let (finished, panic, turns) = rt.block_on(async move {
        let state = ShardedActorState::with_shards(shards.max(1));
        let h = tokio::spawn(verif_hooks::run_connection(watched, state, cc));
        let mut turns = 0usize;
        while !h.is_finished() && turns < turn_budget {
            tokio::task::yield_now().await;
            turns += 1;
        }
        if h.is_finished() {
            match h.await {
                Ok(()) => (true, None, turns),
                Err(e) => {
                    let msg = vcore::runner::take_last_panic().unwrap_or_else(|| {
                        if e.is_panic() {
                            let p = e.into_panic();
                            if let Some(s) = p.downcast_ref::<&str>() {
                                (*s).to_string()
                            } else if let Some(s) = p.downcast_ref::<String>() {
                                s.clone()
                            } else {
                                "<non-string panic>".to_string()
                            }
                        } else {
                            "task cancelled".to_string()
                        }
                    });
                    (true, Some(msg), turns)
                }
            }
        } else {
            h.abort();
            (false, None, turns)
        }
    });
    drop(rt);
    let other_panic = if panic.is_none() {
        vcore::runner::take_last_panic()
    } else {
        None
    };
    let bytes = out.lock().unwrap().clone();
    RunOut {
        out: bytes,
        finished,
        eof_seen: eof.load(Ordering::SeqCst),
        panic,
        other_panic,
        turns,
    }
}

// ---------------------------------------------------------------------------------------
// model of the batch collectors (used only to recognise the latent defect KF-C04-L1)
// ---------------------------------------------------------------------------------------

#[derive(Clone, Copy, Debug, PartialEq, Eq)]
pub enum FrameKind {
    /// `GET k` / `get k` exactly as the collectors recognise it
    PlainGet,
    /// `SET k v` / `set k v`
    PlainSet,
    Multi,
    ExecOrDiscard,
    Other,
    /// never completes / stops the model (a malformed frame)
    Stop,
}

pub fn frame_kind(argv: &Argv) -> FrameKind {
    let name = argv.first().map(|v| v.as_slice()).unwrap_or(b"");
    match (name, argv.len()) {
        (b"GET", 2) | (b"get", 2) => FrameKind::PlainGet,
        (b"SET", 3) | (b"set", 3) => FrameKind::PlainSet,
        _ => {
            let up = name.to_ascii_uppercase();
            match up.as_slice() {
                b"MULTI" => FrameKind::Multi,
                b"EXEC" | b"DISCARD" => FrameKind::ExecOrDiscard,
                _ => FrameKind::Other,
            }
        }
    }
}

#[derive(Default, Debug, Clone)]
pub struct ModelOut {
    /// frames the collectors consume without executing (fewer than batch_threshold collected)
    pub dropped: Vec<usize>,
    /// a collector engaged (buffer >= min_pipeline_buffer and >= 1 GET/SET collected)
    pub engaged: bool,
    /// a collected run had a length within +-1 of batch_threshold
    pub near_threshold: bool,
    /// a batch was executed through the batch pipeline
    pub batched: bool,
    /// index of the first frame not processed when the model stopped
    pub processed: usize,
}

/// What the read loop does with `frames` when the reads end at `reads` (cumulative offsets):
/// at every read, if the buffer holds >= min_pipeline_buffer bytes and no transaction is
/// open, the GET collector takes the leading complete plain GETs, then (buffer still large
/// enough) the SET collector takes the leading complete plain SETs; a collected run shorter
/// than batch_threshold is *not executed* (the known finding). Then complete frames are
/// processed one by one.
pub fn collector_model(frames: &[(usize, usize)], kinds: &[FrameKind], reads: &[usize], cfg: &Cfg) -> ModelOut {
    let mut m = ModelOut::default();
    let n = frames.len();
    let thr = cfg.batch_threshold as usize;
    let mpb = cfg.min_pipeline_buffer;
    let mut next = 0usize; // first unprocessed frame
    let mut in_tx = false;
    let total_end = frames.last().map(|f| f.1).unwrap_or(0);
    for &avail in reads {
        let buf_start = |next: usize| if next < n { frames[next].0 } else { total_end };
        if next >= n {
            break;
        }
        if kinds[next] == FrameKind::Stop && frames[next].0 < avail {
            // the malformed frame is at the head of the buffer: nothing before it is left
            break;
        }
        if !in_tx && (avail.saturating_sub(buf_start(next)) as u64) >= mpb {
            for want in [FrameKind::PlainGet, FrameKind::PlainSet] {
                if (avail.saturating_sub(buf_start(next)) as u64) < mpb {
                    break;
                }
                let mut g = 0usize;
                while next + g < n && kinds[next + g] == want && frames[next + g].1 <= avail {
                    g += 1;
                }
                if g > 0 {
                    m.engaged = true;
                    if g + 1 >= thr && g <= thr + 1 {
                        m.near_threshold = true;
                    }
                    if g >= thr {
                        m.batched = true;
                    } else {
                        m.dropped.extend(next..next + g);
                    }
                    next += g;
                }
            }
        }
        while next < n && kinds[next] != FrameKind::Stop && frames[next].1 <= avail {
            match kinds[next] {
                FrameKind::Multi => in_tx = true,
                FrameKind::ExecOrDiscard => in_tx = false,
                _ => {}
            }
            next += 1;
        }
    }
    m.processed = next;
    m
}

// ---------------------------------------------------------------------------------------
// sequences of connections on one buffer pool
// ---------------------------------------------------------------------------------------

/// Scripted socket with a write fault: after `fail_after` bytes have been accepted every
/// write fails (io::Error) or accepts 0 bytes (`write_all` turns that into WriteZero).
pub struct FaultyStream {
    chunks: std::collections::VecDeque<Vec<u8>>,
    out: Arc<std::sync::Mutex<Vec<u8>>>,
    eof: Arc<AtomicBool>,
    pending: bool,
    pend_now: bool,
    write_limit: usize,
    /// (bytes accepted before the fault, true = Ok(0) instead of Err)
    fault: Option<(usize, bool)>,
    written: usize,
}

impl AsyncRead for FaultyStream {
    fn poll_read(mut self: Pin<&mut Self>, cx: &mut Context<'_>, buf: &mut ReadBuf<'_>) -> Poll<io::Result<()>> {
        if self.pending && self.pend_now {
            self.pend_now = false;
            cx.waker().wake_by_ref();
            return Poll::Pending;
        }
        let Some(mut chunk) = self.chunks.pop_front() else {
            if buf.remaining() > 0 {
                self.eof.store(true, Ordering::SeqCst);
            }
            return Poll::Ready(Ok(()));
        };
        let n = chunk.len().min(buf.remaining());
        if n == 0 {
            self.chunks.push_front(chunk);
            return Poll::Ready(Ok(()));
        }
        buf.put_slice(&chunk[..n]);
        if n < chunk.len() {
            let rest = chunk.split_off(n);
            self.chunks.push_front(rest);
        } else {
            self.pend_now = true;
        }
        Poll::Ready(Ok(()))
    }
}

impl AsyncWrite for FaultyStream {
    fn poll_write(mut self: Pin<&mut Self>, _cx: &mut Context<'_>, buf: &[u8]) -> Poll<io::Result<usize>> {
        let mut n = if self.write_limit == 0 { buf.len() } else { buf.len().min(self.write_limit) };
        if let Some((after, zero)) = self.fault {
            let room = after.saturating_sub(self.written);
            if room == 0 {
                return if zero {
                    Poll::Ready(Ok(0))
                } else {
                    Poll::Ready(Err(io::Error::new(io::ErrorKind::BrokenPipe, "scripted write failure")))
                };
            }
            n = n.min(room);
        }
        self.out.lock().unwrap().extend_from_slice(&buf[..n]);
        self.written += n;
        Poll::Ready(Ok(n))
    }
    fn poll_flush(self: Pin<&mut Self>, _cx: &mut Context<'_>) -> Poll<io::Result<()>> {
        Poll::Ready(Ok(()))
    }
    fn poll_shutdown(self: Pin<&mut Self>, _cx: &mut Context<'_>) -> Poll<io::Result<()>> {
        Poll::Ready(Ok(()))
    }
}

pub struct SeqConn {
    pub chunks: Vec<Vec<u8>>,
    pub cfg: Cfg,
    pub io: Io,
    pub write_fault: Option<(usize, bool)>,
    pub turn_budget: usize,
}

/// Run the connections one after another (each to completion) against one shared
/// `ShardedActorState`. `shared_pool = Some(n)`: all of them draw their I/O buffers from one
/// `ConnectionPool` with `n` pooled buffers, as under the server's accept loop;
/// `None`: every connection gets a fresh pool (what a connection "run alone" sees).
pub fn run_sequence(conns: Vec<SeqConn>, shards: usize, shared_pool: Option<usize>) -> Vec<RunOut> {
    let rt = tokio::runtime::Builder::new_current_thread()
        .enable_all()
        .build()
        .expect("tokio runtime");
    let _ = vcore::runner::take_last_panic();
    let outs = rt.block_on(async move {
        let state = ShardedActorState::with_shards(shards.max(1));
        let shared = shared_pool.map(|n| Arc::new(ConnectionPool::new(16, n.max(1))));
        let mut outs = Vec::new();
        for c in conns {
            let out = Arc::new(std::sync::Mutex::new(Vec::new()));
            let eof = Arc::new(AtomicBool::new(false));
            let stream = FaultyStream {
                chunks: c.chunks.into_iter().filter(|x| !x.is_empty()).collect(),
                out: out.clone(),
                eof: eof.clone(),
                pending: c.io.pending,
                pend_now: c.io.pending,
                write_limit: c.io.write_limit as usize,
                fault: c.write_fault,
                written: 0,
            };
            let pool = shared.clone().unwrap_or_else(|| Arc::new(ConnectionPool::new(16, 4)));
            let cc = c.cfg.to_conn();
            let st = state.clone();
            let h = tokio::spawn(async move {
                verif_hooks::run_connection_with_pool(stream, st, cc, &pool).await;
            });
            let mut turns = 0usize;
            while !h.is_finished() && turns < c.turn_budget {
                tokio::task::yield_now().await;
                turns += 1;
            }
            let (finished, panic) = if h.is_finished() {
                match h.await {
                    Ok(()) => (true, None),
                    Err(_) => (
                        true,
                        Some(vcore::runner::take_last_panic().unwrap_or_else(|| "handler task failed".to_string())),
                    ),
                }
            } else {
                h.abort();
                (false, None)
            };
            let other_panic = if panic.is_none() { vcore::runner::take_last_panic() } else { None };
            let bytes = out.lock().unwrap().clone();
            outs.push(RunOut {
                out: bytes,
                finished,
                eof_seen: eof.load(Ordering::SeqCst),
                panic,
                other_panic,
                turns,
            });
        }
        outs
    });
    drop(rt);
    outs
}
