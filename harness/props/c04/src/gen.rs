//! Generators: command lists, segmentations, configurations, malformed frames.

use crate::drive::{Aim, Cfg, Io, Seg};
use proptest::prelude::*;
use proptest::strategy::BoxedStrategy;
use serde::{Deserialize, Serialize};
use vcore::gen::GenOpts;
use vcore::resp::Argv;

fn b(s: &str) -> Vec<u8> {
    s.as_bytes().to_vec()
}

/// Keys for the GET/SET heavy part: small pool (collisions), UTF-8 only (non-UTF-8 keys reach
/// `from_utf8_unchecked` in the fast path; that class belongs to C01/C03), some with CR/LF.
const KEYS: &[&[u8]] = &[
    b"k0",
    b"k1",
    b"k2",
    b"k3",
    b"",
    b"key with space",
    b"cr\r\nlf",
    b"\r",
    b"$3",
    b"*2\r\n$3\r\nGET\r\n$2\r\nk0\r\n",
    b"a-much-longer-key-name-that-exceeds-sixty-bytes-so-one-frame-fills-the-pipeline-buffer",
    "\u{043a}\u{043b}".as_bytes(),
];

pub fn c04_key() -> BoxedStrategy<Vec<u8>> {
    any::<u16>()
        .prop_map(|i| KEYS[(i as usize * KEYS.len()) >> 16].to_vec())
        .boxed()
}

fn c04_value() -> BoxedStrategy<Vec<u8>> {
    prop_oneof![
        6 => vcore::gen::value(),
        1 => Just(b("\r\n")),
        1 => Just(b("+OK\r\n")),
        1 => Just(b("*1\r\n$4\r\nPING\r\n")),
        1 => proptest::collection::vec(prop_oneof![Just(b'\r'), Just(b'\n'), Just(b'$'), Just(b'x')], 0..12),
        1 => (60usize..200).prop_map(|n| vec![b'v'; n]),
    ]
    .boxed()
}

fn plain_get() -> BoxedStrategy<Argv> {
    (
        prop_oneof![6 => Just("GET"), 2 => Just("get"), 1 => Just("Get"), 1 => Just("gEt")],
        c04_key(),
    )
        .prop_map(|(n, k)| vec![b(n), k])
        .boxed()
}

fn plain_set() -> BoxedStrategy<Argv> {
    (
        prop_oneof![6 => Just("SET"), 2 => Just("set"), 1 => Just("Set"), 1 => Just("sET")],
        c04_key(),
        c04_value(),
    )
        .prop_map(|(n, k, v)| vec![b(n), k, v])
        .boxed()
}

pub fn data_opts() -> GenOpts {
    GenOpts {
        binary_names: false,
        flush: true,
        // SCAN family replies depend on hash-map order *and* on COUNT: generated separately
        scan: false,
        // SPOP / RANDOMKEY choose by hash-map order: two server instances differ
        random: false,
        two_key: true,
        multi_key: true,
        keys_cmd: true,
        // replies of expiry commands depend on the wall clock (ProductionTimeSource)
        expiry: false,
        floats: true,
        key_pool: 8,
    }
}

/// Keep generated offsets small (SETRANGE/SETBIT at 2^20 make megabyte values: only cost).
fn tame(mut a: Argv) -> Argv {
    let name = vcore::gen::cmd_name(&a);
    if (name == "SETRANGE" || name == "SETBIT" || name == "GETBIT") && a.len() >= 3 {
        if let Ok(s) = std::str::from_utf8(&a[2]) {
            if let Ok(n) = s.parse::<u64>() {
                if n > 4096 {
                    a[2] = b("77");
                }
            }
        }
    }
    a
}

fn recase(mut a: Argv, mode: u8) -> Argv {
    if let Some(n) = a.first_mut() {
        match mode % 4 {
            0 => {}
            1 => n.make_ascii_lowercase(),
            2 => {
                for (i, c) in n.iter_mut().enumerate() {
                    if i % 2 == 1 {
                        c.make_ascii_lowercase();
                    }
                }
            }
            _ => {
                if let Some(c) = n.first_mut() {
                    c.make_ascii_lowercase();
                }
            }
        }
    }
    a
}

fn unknown_cmd() -> BoxedStrategy<Argv> {
    prop_oneof![
        3 => Just(vec![b("NOSUCHCMD"), b("x")]),
        2 => Just(vec![b("FOO\r\n+BAR")]),
        2 => Just(vec![b("nosuch"), b("a\r\nb"), b("c")]),
        1 => Just(vec![b("GETT"), b("k0")]),
        1 => Just(vec![b("\u{00e9}t\u{00e9}")]),
        1 => Just(vec![b("X"), vec![b'y'; 90]]),
    ]
    .boxed()
}

fn wrong_arity() -> BoxedStrategy<Argv> {
    prop_oneof![
        Just(vec![b("GET")]),
        Just(vec![b("get"), b("a"), b("b")]),
        Just(vec![b("SET"), b("k0")]),
        Just(vec![b("SET")]),
        Just(vec![b("INCR")]),
        Just(vec![b("LPUSH"), b("k0")]),
        Just(vec![b("HSET"), b("k0"), b("f")]),
        Just(vec![b("ZADD"), b("k0"), b("1")]),
        Just(vec![b("SET"), b("k0"), b("v"), b("EX")]),
        Just(vec![b("ECHO")]),
        Just(vec![b("RENAME"), b("k0")]),
    ]
    .boxed()
}

fn misc_cmd() -> BoxedStrategy<Argv> {
    prop_oneof![
        3 => Just(vec![b("PING")]),
        1 => Just(vec![b("ping")]),
        1 => c04_value().prop_map(|v| vec![b("PING"), v]),
        1 => c04_value().prop_map(|v| vec![b("ECHO"), v]),
        1 => Just(vec![b("DBSIZE")]),
        1 => Just(vec![b("EVAL"), b("return 1"), b("0")]),
        1 => Just(vec![b("SCAN"), b("0")]),
        1 => Just(vec![b("SCAN"), b("0"), b("MATCH"), b("k*")]),
    ]
    .boxed()
}

fn tx_cmd() -> BoxedStrategy<Argv> {
    prop_oneof![
        3 => Just(vec![b("MULTI")]),
        3 => Just(vec![b("EXEC")]),
        1 => Just(vec![b("DISCARD")]),
        1 => Just(vec![b("multi")]),
        1 => Just(vec![b("exec")]),
    ]
    .boxed()
}

/// Commands that trip an open finding (a panic that ends the whole stream): generated rarely.
fn trigger_cmd() -> BoxedStrategy<Argv> {
    prop_oneof![
        Just(vec![b("SCAN"), b("0"), b("MATCH")]),
        Just(vec![b("SCAN"), b("0"), b("COUNT")]),
        Just(vec![b("HSCAN"), b("k0"), b("0"), b("MATCH")]),
        Just(vec![b("ZSCAN"), b("k0"), b("0"), b("COUNT")]),
        Just(vec![b("EVAL"), b("return 1"), b("-1")]),
        Just(vec![b("EVALSHA"), b("ffffffffffffffffffffffffffffffffffffffff"), b("-3"), b("a")]),
        Just(vec![b("")]),
        Just(vec![b(" ")]),
        Just(vec![b("\t\n"), b("x")]),
    ]
    .boxed()
}

/// One element of a command list: a single command or a run of GETs/SETs whose length is
/// around a batching threshold.
#[derive(Clone, Debug)]
enum Piece {
    One(Argv),
    Run(Vec<Argv>),
}

fn run_len() -> BoxedStrategy<usize> {
    prop_oneof![
        Just(1usize),
        Just(2),
        Just(3),
        Just(5),
        Just(6),
        Just(7),
        Just(15),
        Just(16),
        Just(17),
    ]
    .boxed()
}

fn piece(with_triggers: bool) -> BoxedStrategy<Piece> {
    let o = data_opts();
    let data = vcore::gen::data_command(&o);
    let mut alts: Vec<(u32, BoxedStrategy<Piece>)> = vec![
        (18, plain_get().prop_map(Piece::One).boxed()),
        (18, plain_set().prop_map(Piece::One).boxed()),
        (
            8,
            (run_len(), any::<bool>())
                .prop_flat_map(|(n, get)| {
                    if get {
                        proptest::collection::vec(plain_get_canonical(), n..=n).boxed()
                    } else {
                        proptest::collection::vec(plain_set_canonical(), n..=n).boxed()
                    }
                })
                .prop_map(Piece::Run)
                .boxed(),
        ),
        (
            30,
            (data.clone(), 0u8..16)
                .prop_map(|(a, m)| Piece::One(recase(tame(a), if m < 12 { 0 } else { m })))
                .boxed(),
        ),
        (
            2,
            // drop the last argument of a valid command: a well-formed frame of the wrong
            // arity (the reply must be an error, never a crash)
            data.prop_map(|mut a| {
                if a.len() > 1 {
                    a.pop();
                }
                Piece::One(tame(a))
            })
            .boxed(),
        ),
        (5, misc_cmd().prop_map(Piece::One).boxed()),
        (5, unknown_cmd().prop_map(Piece::One).boxed()),
        (3, wrong_arity().prop_map(Piece::One).boxed()),
        (3, tx_cmd().prop_map(Piece::One).boxed()),
    ];
    if with_triggers {
        alts.push((6, trigger_cmd().prop_map(Piece::One).boxed()));
    }
    proptest::strategy::Union::new_weighted(alts).boxed()
}

/// GET/SET exactly as the batch collectors recognise them (upper or lower case).
fn plain_get_canonical() -> BoxedStrategy<Argv> {
    (prop_oneof![3 => Just("GET"), 1 => Just("get")], c04_key())
        .prop_map(|(n, k)| vec![b(n), k])
        .boxed()
}

fn plain_set_canonical() -> BoxedStrategy<Argv> {
    (prop_oneof![3 => Just("SET"), 1 => Just("set")], c04_key(), c04_value())
        .prop_map(|(n, k, v)| vec![b(n), k, v])
        .boxed()
}

pub fn command_list(max_pieces: usize, with_triggers: bool) -> BoxedStrategy<Vec<Argv>> {
    proptest::collection::vec(piece(with_triggers), 1..max_pieces)
        .prop_map(|ps| {
            let mut out = Vec::new();
            for p in ps {
                match p {
                    Piece::One(a) => out.push(a),
                    Piece::Run(v) => out.extend(v),
                }
            }
            out
        })
        .boxed()
}

pub fn cfg() -> BoxedStrategy<Cfg> {
    (
        prop_oneof![Just(1u64), Just(14), Just(60), Just(70), Just(1_000_000_000)],
        prop_oneof![Just(1u32), Just(2), Just(6), Just(16)],
        prop_oneof![2 => Just(16u32), 2 => Just(64), 5 => Just(8192)],
    )
        .prop_map(|(m, t, r)| Cfg {
            min_pipeline_buffer: m,
            batch_threshold: t,
            read_buffer_size: r,
            max_buffer_size: 0,
        })
        .boxed()
}

pub fn io() -> BoxedStrategy<Io> {
    (
        prop_oneof![4 => Just(false), 1 => Just(true)],
        prop_oneof![6 => Just(0u32), 1 => Just(1), 1 => Just(7)],
    )
        .prop_map(|(pending, write_limit)| Io {
            pending,
            write_limit,
        })
        .boxed()
}

fn aim() -> BoxedStrategy<Aim> {
    (any::<u16>(), 0u8..10, any::<u8>())
        .prop_map(|(frame, kind, sub)| Aim { frame, kind, sub })
        .boxed()
}

pub fn seg() -> BoxedStrategy<Seg> {
    prop_oneof![
        3 => Just(Seg::Whole),
        2 => Just(Seg::Bytewise),
        2 => Just(Seg::PerFrame),
        2 => prop_oneof![Just(1u16), Just(2), Just(3), Just(13), Just(14), Just(15), Just(16), Just(59), Just(60), Just(61), Just(100)]
            .prop_map(Seg::Fixed),
        4 => proptest::collection::vec(any::<u16>(), 1..6)
            .prop_map(|uniform| Seg::Cuts { uniform, aimed: vec![], frame_ends: false }),
        6 => (proptest::collection::vec(aim(), 1..6), any::<bool>())
            .prop_map(|(aimed, frame_ends)| Seg::Cuts { uniform: vec![], aimed, frame_ends }),
        2 => (proptest::collection::vec(any::<u16>(), 0..4), proptest::collection::vec(aim(), 1..4))
            .prop_map(|(uniform, aimed)| Seg::Cuts { uniform, aimed, frame_ends: false }),
    ]
    .boxed()
}

// ---------------------------------------------------------------------------------------
// malformed frames
// ---------------------------------------------------------------------------------------

/// One protocol violation applied to header line `line` of the encoding of a base command
/// (line 0 = `*N`, line j = `$len` of argument j-1), or a whole-frame replacement.
#[derive(Clone, Debug, PartialEq, Eq, Hash, Serialize, Deserialize)]
pub enum Bad {
    /// type byte of the line replaced by a byte that is no RESP type
    TypeByte(u8),
    /// `$` of an argument line replaced by another RESP type (`+`, `:`, `-`)
    WrongElem(u8),
    /// length replaced by a negative number other than -1
    NegLen(u8),
    /// length replaced by a non-number
    NonNumeric(u8),
    /// the LF after the line's CR replaced by another byte
    CrNoLf(u8),
    /// length replaced by usize::MAX - d
    Huge(u8),
    /// length replaced by i64::MAX + 1 + d
    HugeMid(u8),
    /// length replaced by a number above u64::MAX
    Overflow,
    /// the whole frame replaced by text that is no RESP frame
    Inline(u8),
}

pub const NON_NUMERIC: &[&str] = &["abc", "", "2x", " 2", "2 ", "0x2", "1e1", "--1", "$"];
pub const INLINE: &[&[u8]] = &[b"PING\r\n", b"GET k0\r\n", b"\r\n", b"hello", b"!\r\n", b"\x00\x01\x02", b"{\"json\":1}\r\n"];
const BAD_TYPE_BYTES: &[u8] = b"!P/%&~\x00\xff";

impl Bad {
    pub fn label(&self) -> &'static str {
        match self {
            Bad::TypeByte(_) => "bad:type_byte",
            Bad::WrongElem(_) => "bad:wrong_elem",
            Bad::NegLen(_) => "bad:neg_len",
            Bad::NonNumeric(_) => "bad:non_numeric",
            Bad::CrNoLf(_) => "bad:cr_no_lf",
            Bad::Huge(_) => "bad:huge_len",
            Bad::HugeMid(_) => "bad:huge_mid_len",
            Bad::Overflow => "bad:overflow_len",
            Bad::Inline(_) => "bad:inline",
        }
    }
}

pub fn bad() -> BoxedStrategy<Bad> {
    prop_oneof![
        3 => any::<u8>().prop_map(|i| Bad::TypeByte(BAD_TYPE_BYTES[(i as usize * BAD_TYPE_BYTES.len()) >> 8])),
        2 => prop_oneof![Just(b'+'), Just(b':'), Just(b'-')].prop_map(Bad::WrongElem),
        3 => (2u8..10).prop_map(Bad::NegLen),
        3 => (0u8..NON_NUMERIC.len() as u8).prop_map(Bad::NonNumeric),
        2 => prop_oneof![Just(b'X'), Just(b'\r'), Just(b' '), Just(0u8)].prop_map(Bad::CrNoLf),
        2 => (0u8..48).prop_map(Bad::Huge),
        1 => (0u8..8).prop_map(Bad::HugeMid),
        1 => Just(Bad::Overflow),
        2 => (0u8..INLINE.len() as u8).prop_map(Bad::Inline),
    ]
    .boxed()
}

/// Base command whose encoding is damaged: GET/SET heavy so the fast-path recognisers and the
/// collectors meet the damage.
pub fn bad_base() -> BoxedStrategy<Argv> {
    prop_oneof![
        4 => plain_get_canonical(),
        4 => plain_set_canonical(),
        1 => Just(vec![b("PING")]),
        1 => Just(vec![b("INCR"), b("k0")]),
        1 => Just(vec![b("LPUSH"), b("k1"), b("a"), b("b")]),
        1 => Just(vec![b("Get"), b("k0")]),
    ]
    .boxed()
}

/// Header-line layout of an encoded command: (offset of the type byte, offset of the CR).
pub fn header_lines(argv: &Argv) -> Vec<(usize, usize)> {
    let mut v = Vec::new();
    let mut pos = 0usize;
    let head = format!("*{}", argv.len());
    v.push((pos, pos + head.len()));
    pos += head.len() + 2;
    for a in argv {
        let h = format!("${}", a.len());
        v.push((pos, pos + h.len()));
        pos += h.len() + 2 + a.len() + 2;
    }
    v
}

/// Encoding of `base` with the violation applied; `line` is a fraction selecting the line.
pub fn damaged_frame(base: &Argv, line: u16, bad: &Bad) -> (Vec<u8>, usize) {
    let enc = vcore::resp::encode_command(base);
    let lines = header_lines(base);
    let mut li = (line as usize * lines.len()) >> 16;
    if matches!(bad, Bad::WrongElem(_)) && li == 0 && lines.len() > 1 {
        li = 1;
    }
    let (tpos, crpos) = lines[li];
    let replace_number = |num: &str| -> Vec<u8> {
        let mut out = enc[..tpos + 1].to_vec();
        out.extend_from_slice(num.as_bytes());
        out.extend_from_slice(&enc[crpos..]);
        out
    };
    let bytes = match bad {
        Bad::TypeByte(x) | Bad::WrongElem(x) => {
            let mut out = enc.clone();
            out[tpos] = *x;
            out
        }
        Bad::NegLen(k) => replace_number(&format!("-{}", k)),
        Bad::NonNumeric(i) => replace_number(NON_NUMERIC[*i as usize % NON_NUMERIC.len()]),
        Bad::CrNoLf(x) => {
            let mut out = enc.clone();
            out[crpos + 1] = if *x == b'\n' { b'X' } else { *x };
            out
        }
        Bad::Huge(d) => replace_number(&format!("{}", u64::MAX - *d as u64)),
        Bad::HugeMid(d) => replace_number(&format!("{}", (1u64 << 63) + *d as u64)),
        Bad::Overflow => replace_number("99999999999999999999"),
        Bad::Inline(i) => INLINE[*i as usize % INLINE.len()].to_vec(),
    };
    (bytes, li)
}

// ---------------------------------------------------------------------------------------
// scale class: deep pipelines of small commands, long MULTI bodies, large single frames
// ---------------------------------------------------------------------------------------

/// Pipeline depths aimed at powers of two +- 1 (internal batch limits live there).
pub const DEPTHS: &[usize] = &[63, 64, 65, 127, 128, 129, 255, 256, 257, 300, 511, 512, 513, 1000, 1023, 1024, 1025, 4097];

fn small_cmd() -> BoxedStrategy<Argv> {
    prop_oneof![
        4 => Just(vec![b("PING")]),
        3 => (0u8..4).prop_map(|i| vec![b("GET"), format!("k{}", i).into_bytes()]),
        3 => (0u8..4).prop_map(|i| vec![b("INCR"), format!("n{}", i).into_bytes()]),
        2 => (0u8..4, 0u8..10).prop_map(|(i, v)| vec![b("SET"), format!("k{}", i).into_bytes(), vec![b'0' + v]]),
        1 => (0u8..4).prop_map(|i| vec![b("RPUSH"), format!("l{}", i).into_bytes(), b("x")]),
        1 => Just(vec![b("ECHO"), b("e")]),
        1 => Just(vec![b("get"), b("k0")]),
    ]
    .boxed()
}

/// Command lists of the scale class (explicit, like every other case).
pub fn deep_command_list() -> BoxedStrategy<Vec<Argv>> {
    let depth = any::<u16>().prop_map(|i| DEPTHS[(i as usize * DEPTHS.len()) >> 16]);
    let palette = proptest::collection::vec(small_cmd(), 1..5);
    let cyc = |pal: &Vec<Argv>, n: usize| -> Vec<Argv> { (0..n).map(|i| pal[i % pal.len()].clone()).collect() };
    prop_oneof![
        // flat pipeline of `depth` small commands
        6 => (depth.clone(), palette.clone()).prop_map(move |(n, pal)| cyc(&pal, n)),
        // a few commands, MULTI, a long body, EXEC, a few commands
        3 => (prop_oneof![Just(255usize), Just(256), Just(257), Just(300), Just(600)], palette.clone(), 0usize..3)
            .prop_map(move |(n, pal, pre)| {
                let mut v = cyc(&pal, pre);
                v.push(vec![b("MULTI")]);
                v.extend(cyc(&pal, n));
                v.push(vec![b("EXEC")]);
                v.push(vec![b("PING")]);
                v
            }),
        // many medium replies: one value of 1-4 KB read back hundreds of times in one pipeline, so
        // that the replies of ONE batch add up to several hundred KB (output-side thresholds)
        3 => (
            prop_oneof![Just(1_000usize), Just(1_024), Just(4_000)],
            prop_oneof![Just(70usize), Just(260), Just(330), Just(600), Just(1_100)],
            any::<u8>()
        )
            .prop_map(move |(size, n, fill)| {
                let mut v = vec![vec![b("SET"), b("mid"), vec![b'a' + fill % 26; size]]];
                for i in 0..n {
                    v.push(if i % 50 == 49 { vec![b("STRLEN"), b("mid")] } else { vec![b("GET"), b("mid")] });
                }
                v.push(vec![b("PING")]);
                v
            }),
        // large single frames between small ones
        3 => (
            prop_oneof![
                Just(65_535usize), Just(65_536), Just(65_537), Just(200_000), Just(262_143), Just(262_144), Just(262_145),
                Just(300_000), Just(1usize << 20), Just((1usize << 20) + 1)
            ],
            palette,
            0usize..4,
            any::<u8>()
        )
            .prop_map(move |(size, pal, pre, fill)| {
                let mut v = cyc(&pal, pre);
                v.push(vec![b("SET"), b("big"), vec![b'a' + fill % 26; size]]);
                v.push(vec![b("STRLEN"), b("big")]);
                v.push(vec![b("GET"), b("big")]);
                v.push(vec![b("APPEND"), b("big"), b("tail")]);
                v.extend(cyc(&pal, 3));
                v
            }),
    ]
    .boxed()
}

/// Delivery of the scale class: whole (read buffer larger than the stream), 8192-byte reads,
/// small reads, a few cuts; never byte-wise (cost only).
pub fn deep_seg() -> BoxedStrategy<Seg> {
    prop_oneof![
        4 => Just(Seg::Whole),
        2 => Just(Seg::Fixed(8192)),
        1 => Just(Seg::Fixed(4096)),
        1 => Just(Seg::Fixed(100)),
        1 => Just(Seg::PerFrame),
        2 => proptest::collection::vec(any::<u16>(), 1..4)
            .prop_map(|uniform| Seg::Cuts { uniform, aimed: vec![], frame_ends: false }),
    ]
    .boxed()
}

pub fn deep_cfg() -> BoxedStrategy<Cfg> {
    (
        prop_oneof![Just(1u64), Just(60), Just(1_000_000_000)],
        prop_oneof![Just(1u32), Just(2), Just(6), Just(16)],
        prop_oneof![3 => Just(1u32 << 21), 3 => Just(8192), 1 => Just(64)],
    )
        .prop_map(|(m, t, r)| Cfg {
            min_pipeline_buffer: m,
            batch_threshold: t,
            read_buffer_size: r,
            max_buffer_size: 0,
        })
        .boxed()
}
