//! C04 — Pipelining: exactly one reply per command, in order, however the bytes arrive; a
//! malformed frame gets an error reply, never silence, a hang or a crash.
//!
//! The code under test is the production connection handler
//! (`OptimizedConnectionHandler`, reached through the `verif_hooks::run_connection` hook): its
//! read loop, the GET/SET batch collectors, the fast-path recognisers and the RESP codec.
//!
//! Checks (DESIGN.md §3 C04):
//!   streams    generated command lists x two (segmentation, batching configuration) pairs:
//!              (a) one reply per command, (b) replies equal the reference run (one command per
//!              read, batching off, fresh twin server), (c) both runs write identical bytes
//!   malformed  a generated stream with one frame damaged (protocol violation) at a generated
//!              position: the handler returns at EOF, does not panic, replies to the commands
//!              before the damage are unchanged and the next reply is an error
//!   conn_sequence  2-6 connections one after another on ONE ConnectionPool and one keyspace,
//!              some ending abnormally: each writes exactly what it writes on a fresh pool
//!   probes     deterministic reproducers of the open findings

mod drive;
mod gen;

use drive::{
    chunks_of, collector_model, cuts, effective_reads, frame_kind, run_handler, Cfg, FrameKind, Io,
    ModelOut, RunOut, Seg, Stream,
};
use gen::Bad;
use proptest::prelude::*;
use serde::{Deserialize, Serialize};
use serde_json::json;
use vcore::resp::{decode_stream, show_argv, Argv, Reply};
use vcore::{CaseCtx, Level, Session};

// Open findings (listed in known_findings.d/C04.json, each with a probe below).
const KF_SCAN: &str = "KF-C04-01";
const KF_EVAL: &str = "KF-C04-02";
const KF_CRLF: &str = "KF-C04-03";
const KF_EMPTY_NAME: &str = "KF-C04-04";
// Latent defects of the GET/SET fast path and the batch collectors. They are NOT listed and
// suppress nothing: in the current tree those code paths never engage (their HEADER_LEN is
// 14 but `*2\r\n$3\r\nGET\r\n` is 13 bytes long, so the byte they test for '$' is the first
// digit of the key length and every GET/SET falls back to the generic parser). The matchers
// only make the violation message precise should the recognisers ever come alive (their
// probes then report a VIOLATION because the ids are not listed).
const KF_DROP: &str = "KF-C04-L1";
const KF_HUGE: &str = "KF-C04-L2";
const KF_LENIENT: &str = "KF-C04-L3";

fn budget(ncmds: usize, nreads: usize) -> usize {
    // one scheduler turn runs dozens of task polls; a command costs about two polls and reads
    // never suspend (a 4097-command pipeline finishes in < 200 turns): this is >= 100x what
    // any generated stream needs, while keeping a hung handler cheap to recognise
    (4000 + 20 * (ncmds + nreads)).min(120_000)
}

// ---------------------------------------------------------------------------------------
// reply normalisation (two server instances iterate their hash maps differently)
// ---------------------------------------------------------------------------------------

fn deep_sorted(r: &Reply) -> Reply {
    match r {
        Reply::Array(a) => {
            let mut v: Vec<Reply> = a.iter().map(deep_sorted).collect();
            v.sort();
            Reply::Array(v)
        }
        other => other.clone(),
    }
}

/// 0 ordered, 1 multiset, 2 multiset of pairs, 3 shape only, 4 deep multiset (EXEC results)
fn unordered_class(argv: &Argv) -> u8 {
    match vcore::gen::cmd_name(argv).as_str() {
        "KEYS" | "SMEMBERS" | "HKEYS" | "HVALS" => 1,
        "HGETALL" => 2,
        "SCAN" | "HSCAN" | "ZSCAN" | "SSCAN" => 3,
        "EXEC" => 4,
        _ => 0,
    }
}

fn normalise(argv: &Argv, r: &Reply) -> Reply {
    match unordered_class(argv) {
        1 => r.sorted(),
        2 => r.sorted_pairs(),
        3 => match r {
            Reply::Array(a) if a.len() == 2 => Reply::Simple(b"<scan reply>".to_vec()),
            other => other.clone(),
        },
        4 => deep_sorted(r),
        _ => r.clone(),
    }
}

fn normalise_all(cmds: &[Argv], replies: &[Reply]) -> Vec<Reply> {
    cmds.iter()
        .zip(replies.iter())
        .map(|(c, r)| normalise(c, r))
        .collect()
}

fn has_unordered(cmds: &[Argv]) -> bool {
    cmds.iter().any(|c| unordered_class(c) != 0)
}

fn show_replies(r: &[Reply]) -> String {
    let v: Vec<String> = r.iter().map(|x| x.show()).collect();
    let s = v.join(", ");
    if s.len() > 1500 {
        format!("{}… ({} replies)", &s[..s.char_indices().take_while(|(i, _)| *i < 1500).count()], r.len())
    } else {
        s
    }
}

fn show_cmds(c: &[Argv]) -> String {
    let v: Vec<String> = c.iter().map(|a| show_argv(a)).collect();
    let s = v.join(" | ");
    if s.len() > 1500 {
        format!("{}… ({} commands)", &s[..s.char_indices().take_while(|(i, _)| *i < 1500).count()], c.len())
    } else {
        s
    }
}

// ---------------------------------------------------------------------------------------
// trigger predicates of the open crash findings (well-formed frames that panic the parser /
// the ACL check); used to keep those streams out of the search while the finding is open
// ---------------------------------------------------------------------------------------

fn trigger_of(argv: &Argv) -> Option<&'static str> {
    let name = vcore::gen::cmd_name(argv);
    let up = |i: usize| String::from_utf8_lossy(&argv[i]).to_uppercase();
    match name.as_str() {
        "SCAN" | "HSCAN" | "ZSCAN" => {
            let mut i = if name == "SCAN" { 2 } else { 3 };
            while i < argv.len() {
                let o = up(i);
                if o == "MATCH" || o == "COUNT" {
                    if i + 1 >= argv.len() {
                        return Some(KF_SCAN);
                    }
                    i += 2;
                } else {
                    return None; // parser answers "Unknown option"
                }
            }
            None
        }
        "EVAL" | "EVALSHA" => {
            if argv.len() >= 3 {
                if let Ok(n) = String::from_utf8_lossy(&argv[2]).parse::<isize>() {
                    if n < 0 {
                        return Some(KF_EVAL);
                    }
                }
            }
            None
        }
        _ => {
            if argv
                .first()
                .map(|n| String::from_utf8_lossy(n).split_whitespace().next().is_none())
                .unwrap_or(false)
            {
                Some(KF_EMPTY_NAME)
            } else {
                None
            }
        }
    }
}

/// Does `panic` carry the signature of finding `id`?
fn panic_matches(id: &str, panic: &str) -> bool {
    match id {
        KF_SCAN => panic.contains("index out of bounds") && panic.contains("src/redis/commands.rs"),
        KF_EVAL => {
            (panic.contains("slice index starts at") || panic.contains("range end index") || panic.contains("range start index"))
                && panic.contains("src/redis/commands.rs")
        }
        KF_EMPTY_NAME => {
            panic.contains("index out of bounds: the len is 0 but the index is 0")
                && panic.contains("connection_optimized.rs")
        }
        KF_HUGE => {
            (panic.contains("slice index starts at")
                || panic.contains("range end index")
                || panic.contains("range start index")
                || panic.contains("out of range for slice")
                || panic.contains("index out of bounds")
                || panic.contains("split_to out of bounds"))
                && (panic.contains("connection_optimized.rs") || panic.contains("bytes"))
        }
        _ => false,
    }
}

// ---------------------------------------------------------------------------------------
// reference run
// ---------------------------------------------------------------------------------------

/// The replies the commands get when each is sent alone (one command per read, batching off)
/// to a fresh server with `shards` shards. Err = the reference run itself violates (a)/no-crash.
fn reference(cmds: &[Argv], shards: usize) -> Result<Vec<Reply>, String> {
    if cmds.is_empty() {
        return Ok(Vec::new());
    }
    let chunks: Vec<Vec<u8>> = cmds.iter().map(|a| vcore::resp::encode_command(a)).collect();
    let n = chunks.len();
    let r = run_handler(chunks, &Cfg::reference(), shards, Io::default(), budget(n, n));
    let what = "reference run (one command per read, batching off)";
    verdict_basic(&r, what)?;
    let replies = decode_stream(&r.out).map_err(|(sofar, off, why)| {
        format!(
            "{}: output is not a well-formed reply stream at byte {} ({}); {} replies decoded",
            what,
            off,
            why,
            sofar.len()
        )
    })?;
    if replies.len() != cmds.len() {
        return Err(format!(
            "{}: {} replies for {} commands\n  commands: {}\n  replies:  {}",
            what,
            replies.len(),
            cmds.len(),
            show_cmds(cmds),
            show_replies(&replies)
        ));
    }
    Ok(normalise_all(cmds, &replies))
}

/// crash / hang verdicts shared by every run
fn verdict_basic(r: &RunOut, what: &str) -> Result<(), String> {
    if let Some(p) = &r.panic {
        return Err(format!("{}: the connection handler panicked (server crash under panic=abort): {}", what, p));
    }
    if let Some(p) = &r.other_panic {
        return Err(format!("{}: a server task panicked while serving the connection: {}", what, p));
    }
    if !r.finished {
        return Err(format!(
            "{}: the handler did not return after {} scheduler turns ({}): it waits for something that never happens (hang)",
            what,
            r.turns,
            if r.eof_seen { "EOF was served" } else { "input not exhausted" }
        ));
    }
    Ok(())
}

// ---------------------------------------------------------------------------------------
// check 1: well-formed streams
// ---------------------------------------------------------------------------------------

#[derive(Clone, Debug, Serialize, Deserialize)]
struct RunSpec {
    seg: Seg,
    cfg: Cfg,
    io: Io,
}

#[derive(Clone, Debug, Serialize, Deserialize)]
struct StreamCase {
    cmds: Vec<Argv>,
    shards: u8,
    a: RunSpec,
    b: RunSpec,
}

struct RunResult {
    out: Vec<u8>,
    dropped: Vec<usize>,
    model: ModelOut,
    split_inside: bool,
}

fn without(cmds: &[Argv], dropped: &[usize]) -> Vec<Argv> {
    cmds.iter()
        .enumerate()
        .filter(|(i, _)| !dropped.contains(i))
        .map(|(_, c)| c.clone())
        .collect()
}

/// One run of a well-formed stream through the handler, compared with the reference.
fn run_and_compare(
    cmds: &[Argv],
    st: &Stream,
    spec: &RunSpec,
    shards: usize,
    ref_full: &[Reply],
    which: &str,
    ctx: &mut CaseCtx<'_>,
) -> Result<RunResult, String> {
    let cs = cuts(&spec.seg, st);
    let reads = effective_reads(st.bytes.len(), &cs, spec.cfg.read_buffer_size as usize);
    let chunks = chunks_of(&st.bytes, &cs);
    let r = run_handler(chunks, &spec.cfg, shards, spec.io, budget(cmds.len(), reads.len()));
    let what = format!(
        "run {} (segmentation {:?} -> {} reads, min_pipeline_buffer={}, batch_threshold={}, read_buffer_size={})",
        which,
        spec.seg.label(),
        reads.len(),
        spec.cfg.min_pipeline_buffer,
        spec.cfg.batch_threshold,
        spec.cfg.read_buffer_size
    );
    verdict_basic(&r, &what)?;
    let replies = decode_stream(&r.out).map_err(|(sofar, off, why)| {
        format!(
            "{}: output is not a well-formed reply stream at byte {} ({}); {} replies decoded",
            what,
            off,
            why,
            sofar.len()
        )
    })?;
    let kinds: Vec<FrameKind> = cmds.iter().map(frame_kind).collect();
    let model = collector_model(&st.frames, &kinds, &reads, &spec.cfg);
    let bounds: std::collections::BTreeSet<usize> = st.frames.iter().map(|f| f.1).collect();
    let split_inside = reads.iter().any(|e| !bounds.contains(e));

    let got_full = if replies.len() == cmds.len() {
        Some(normalise_all(cmds, &replies))
    } else {
        None
    };
    if got_full.as_deref() == Some(ref_full) {
        return Ok(RunResult {
            out: r.out,
            dropped: vec![],
            model,
            split_inside,
        });
    }
    // Latent defect KF-C04-L1 (see the constants): the collectors consume a run of GETs/SETs shorter than
    // batch_threshold without executing it. Recognised only if the output is exactly what a
    // server produces for the stream *without precisely the commands the collector model says
    // are consumed* (re-synchronised expectation from a fresh reference run).
    if !model.dropped.is_empty() && ctx.finding_open(KF_DROP) {
        let kept = without(cmds, &model.dropped);
        if replies.len() == kept.len() {
            let exp = reference(&kept, shards)?;
            if normalise_all(&kept, &replies) == exp && ctx.tolerate(KF_DROP) {
                return Ok(RunResult {
                    out: r.out,
                    dropped: model.dropped.clone(),
                    model,
                    split_inside,
                });
            }
        }
    }
    // describe the first difference
    let mut msg = format!("{}:\n", what);
    if replies.len() != cmds.len() {
        msg.push_str(&format!(
            "  (a) {} replies for {} commands\n",
            replies.len(),
            cmds.len()
        ));
    }
    let got = normalise_all(cmds, &replies);
    let first = got
        .iter()
        .zip(ref_full.iter())
        .position(|(x, y)| x != y)
        .unwrap_or(got.len().min(ref_full.len()));
    msg.push_str(&format!(
        "  (b) first difference at reply #{}: got {}, the command sent alone after its predecessors gets {}{}\n",
        first,
        got.get(first).map(|r| r.show()).unwrap_or_else(|| "<nothing>".into()),
        ref_full.get(first).map(|r| r.show()).unwrap_or_else(|| "<nothing>".into()),
        cmds.get(first).map(|c| format!(" (command #{}: {})", first, show_argv(c))).unwrap_or_default(),
    ));
    if !model.dropped.is_empty() {
        msg.push_str(&format!(
            "  collector model: commands {:?} are consumed by a batch collector without being executed\n",
            model.dropped
        ));
    }
    msg.push_str(&format!("  commands: {}\n  got:      {}\n  expected: {}", show_cmds(cmds), show_replies(&got), show_replies(ref_full)));
    Err(msg)
}

fn check_stream(case: &StreamCase, ctx: &mut CaseCtx<'_>) -> Result<(), String> {
    let cmds = &case.cmds;
    if cmds.is_empty() {
        return Ok(());
    }
    let shards = case.shards.max(1) as usize;
    let st = Stream::from_cmds(cmds);
    ctx.label(case.a.seg.label());
    ctx.label(case.b.seg.label());
    ctx.label(&format!("mpb:{}", case.a.cfg.min_pipeline_buffer));
    ctx.label(&format!("thr:{}", case.a.cfg.batch_threshold));
    ctx.label(&format!("rbs:{}", case.a.cfg.read_buffer_size));
    ctx.label(if shards > 1 { "shards:n" } else { "shards:1" });
    if cmds.iter().any(|c| c.iter().any(|a| a.contains(&b'\r') || a.contains(&b'\n'))) {
        ctx.label("arg_with_crlf");
    }
    if cmds.iter().any(|c| frame_kind(c) == FrameKind::Multi) {
        ctx.label("has_multi");
    }
    if cmds.len() >= 63 {
        ctx.label("scale:deep_pipeline");
        if cmds.len() > 256 {
            ctx.label("scale:deeper_than_256");
        }
    }
    if st.bytes.len() >= 60_000 {
        ctx.label("scale:big_frame");
    }
    if case.a.io.write_limit >= 1000 || case.b.io.write_limit >= 1000 {
        ctx.label("scale:socket_takes_less_than_offered");
    }
    if cmds.iter().filter(|c| c.len() == 2 && c[1] == b"mid").count() >= 60 {
        ctx.label("scale:many_medium_replies");
    }

    // Streams containing a command that trips an open crash finding: the panic ends the
    // connection, nothing after it can be checked. Excluded (counted) while the finding is
    // open; the probes cover the class. With the finding closed they are ordinary streams.
    let triggers: Vec<&'static str> = cmds.iter().filter_map(trigger_of).collect();
    if let Some(open) = triggers.iter().find(|id| ctx.finding_open(id)) {
        let cs = cuts(&case.a.seg, &st);
        let reads = effective_reads(st.bytes.len(), &cs, case.a.cfg.read_buffer_size as usize);
        let r = run_handler(chunks_of(&st.bytes, &cs), &case.a.cfg, shards, case.a.io, budget(cmds.len(), reads.len()));
        if let Some(p) = &r.panic {
            if !triggers.iter().any(|id| ctx.finding_open(id) && panic_matches(id, p)) {
                return Err(format!("handler panicked with a message no open finding explains: {}\n  commands: {}", p, show_cmds(cmds)));
            }
        } else {
            verdict_basic(&r, "run A (stream with a crash-trigger command)")?;
        }
        if decode_stream(&r.out).is_err() && r.panic.is_none() {
            return Err("output is not a well-formed reply stream".into());
        }
        ctx.tolerate(open);
        ctx.label("excluded:crash_trigger");
        return Ok(());
    }

    let ref_full = reference(cmds, shards).map_err(|e| format!("{}\n  commands: {}", e, show_cmds(cmds)))?;
    let ra = run_and_compare(cmds, &st, &case.a, shards, &ref_full, "A", ctx)?;
    let rb = run_and_compare(cmds, &st, &case.b, shards, &ref_full, "B", ctx)?;

    // (c) metamorphic: same stream, two segmentations/configurations => identical bytes
    if ra.dropped == rb.dropped && !has_unordered(cmds) && ra.out != rb.out {
        return Err(format!(
            "(c) the two runs wrote different bytes for the same command stream\n  A: {:?}\n  B: {:?}\n  commands: {}",
            vcore::show(&ra.out[..ra.out.len().min(600)]),
            vcore::show(&rb.out[..rb.out.len().min(600)]),
            show_cmds(cmds)
        ));
    }

    for r in [&ra, &rb] {
        if r.model.engaged {
            ctx.label("model:collector_would_engage");
        }
        if r.model.batched {
            ctx.label("model:batch_would_execute");
        }
        if !r.dropped.is_empty() {
            ctx.label("latentL1_drop_resynced");
        }
    }
    let nt1 = cmds.len() >= 3 && (ra.split_inside || rb.split_inside);
    let nt2 = ra.model.near_threshold || rb.model.near_threshold;
    if nt1 {
        ctx.label("nt:split_inside_frame");
    }
    if nt2 {
        ctx.label("nt:run_near_threshold");
    }
    if nt1 || nt2 {
        ctx.nontrivial(&(&st.bytes, &case.a.seg, &case.a.cfg, &case.b.seg, &case.b.cfg));
    }
    Ok(())
}

// ---------------------------------------------------------------------------------------
// check 2: one malformed frame
// ---------------------------------------------------------------------------------------

#[derive(Clone, Debug, Serialize, Deserialize)]
struct BadCase {
    before: Vec<Argv>,
    after: Vec<Argv>,
    base: Argv,
    line: u16,
    bad: Bad,
    shards: u8,
    run: RunSpec,
}

fn is_fastpath_line(base: &Argv, line_idx: usize) -> bool {
    match frame_kind(base) {
        FrameKind::PlainGet => line_idx == 2,
        FrameKind::PlainSet => line_idx == 2 || line_idx == 3,
        _ => false,
    }
}

fn check_bad(case: &BadCase, ctx: &mut CaseCtx<'_>) -> Result<(), String> {
    let shards = case.shards.max(1) as usize;
    let (bad_bytes, line_idx) = gen::damaged_frame(&case.base, case.line, &case.bad);
    ctx.label(case.bad.label());
    ctx.label(case.run.seg.label());
    let fast_line = is_fastpath_line(&case.base, line_idx) && !matches!(case.bad, Bad::Inline(_));
    if fast_line {
        ctx.label("damage_in_fastpath_header");
    }
    let mut raw: Vec<Vec<u8>> = case.before.iter().map(|a| vcore::resp::encode_command(a)).collect();
    let p = raw.len();
    raw.push(bad_bytes.clone());
    raw.extend(case.after.iter().map(|a| vcore::resp::encode_command(a)));
    let st = Stream::from_raw(&raw);
    let cs = cuts(&case.run.seg, &st);
    let reads = effective_reads(st.bytes.len(), &cs, case.run.cfg.read_buffer_size as usize);
    let r = run_handler(
        chunks_of(&st.bytes, &cs),
        &case.run.cfg,
        shards,
        case.run.io,
        budget(raw.len(), reads.len()),
    );
    let what = format!(
        "stream of {} commands, then the malformed frame {:?}, then {} commands (segmentation {:?} -> {} reads, min_pipeline_buffer={}, batch_threshold={}, read_buffer_size={})",
        p,
        vcore::show(&bad_bytes),
        case.after.len(),
        case.run.seg.label(),
        reads.len(),
        case.run.cfg.min_pipeline_buffer,
        case.run.cfg.batch_threshold,
        case.run.cfg.read_buffer_size
    );
    let huge = matches!(case.bad, Bad::Huge(_) | Bad::HugeMid(_)) && fast_line;

    // expected replies of the commands before the damage (with KF-C04-L1 re-synchronisation, inert unless listed)
    let mut kinds: Vec<FrameKind> = case.before.iter().map(frame_kind).collect();
    kinds.push(FrameKind::Stop);
    kinds.extend(case.after.iter().map(frame_kind));
    let model = collector_model(&st.frames, &kinds, &reads, &case.run.cfg);
    let dropped: Vec<usize> = model.dropped.iter().copied().filter(|&i| i < p).collect();
    let exp_full = reference(&case.before, shards)?;
    let exp_dropped = if !dropped.is_empty() && ctx.finding_open(KF_DROP) {
        Some(reference(&without(&case.before, &dropped), shards)?)
    } else {
        None
    };

    // -- crash
    if let Some(pm) = &r.panic {
        if huge && panic_matches(KF_HUGE, pm) {
            // replies buffered in the same read are lost with the crash: what was written
            // must still be a prefix of the expected replies
            if let Ok(got) = decode_stream(&r.out) {
                let g = normalise_all(&case.before, &got);
                let ok = exp_full.starts_with(&g)
                    || exp_dropped.as_ref().map(|e| e.starts_with(&normalise_all(&without(&case.before, &dropped), &got))).unwrap_or(false);
                if ok && ctx.tolerate(KF_HUGE) {
                    return Ok(());
                }
            }
        }
        return Err(format!("{}: the connection handler panicked (server crash under panic=abort): {}", what, pm));
    }
    verdict_basic(&r, &what)?;
    let replies = decode_stream(&r.out).map_err(|(sofar, off, why)| {
        format!(
            "{}: output is not a well-formed reply stream at byte {} ({}); {} replies decoded",
            what,
            off,
            why,
            sofar.len()
        )
    })?;

    // -- replies to earlier commands unchanged
    let (prefix_len, used_drop) = {
        let full_ok = replies.len() >= p && normalise_all(&case.before, &replies[..p]) == exp_full;
        if full_ok {
            (p, false)
        } else if let Some(e) = &exp_dropped {
            let kept = without(&case.before, &dropped);
            if replies.len() >= kept.len() && normalise_all(&kept, &replies[..kept.len()]) == *e {
                (kept.len(), true)
            } else {
                (usize::MAX, false)
            }
        } else {
            (usize::MAX, false)
        }
    };
    if prefix_len == usize::MAX {
        // KF-C04-L3 changes which commands the collectors see: checked below before failing
        if let Some(()) = lenient_outcome(case, &st, &reads, p, fast_line, shards, &replies, ctx)? {
            return Ok(());
        }
        let got = normalise_all(&case.before, &replies[..replies.len().min(p)]);
        return Err(format!(
            "{}: replies to the commands before the malformed frame changed\n  commands before: {}\n  got:      {}\n  expected: {}{}",
            what,
            show_cmds(&case.before),
            show_replies(&got),
            show_replies(&exp_full),
            if dropped.is_empty() { String::new() } else { format!("\n  (collector model: commands {:?} consumed unexecuted)", dropped) }
        ));
    }
    if used_drop && !ctx.tolerate(KF_DROP) {
        return Err(format!("{}: replies to earlier commands are missing (batch collector drop)", what));
    }

    // -- the malformed frame is answered with an error
    match replies.get(prefix_len) {
        Some(e) if e.is_error() => {}
        None => {
            // silence: nothing at all is written for the malformed frame or anything after it
            if matches!(case.bad, Bad::CrNoLf(_)) && ctx.tolerate(KF_CRLF) {
                ctx.label("kf03_silence");
            } else if huge && ctx.tolerate(KF_HUGE) {
                ctx.label("latentL2_silence");
            } else {
                return Err(format!(
                    "{}: silence — no reply at all follows the replies to the {} earlier commands (the malformed frame and everything after it are never answered)",
                    what, p
                ));
            }
        }
        Some(other) => {
            if let Some(()) = lenient_outcome(case, &st, &reads, p, fast_line, shards, &replies, ctx)? {
                return Ok(());
            }
            return Err(format!(
                "{}: the reply following the {} earlier replies is {} — not an error reply",
                what,
                p,
                other.show()
            ));
        }
    }
    if case.before.len() + case.after.len() >= 2 || !cs.is_empty() {
        ctx.nontrivial(&(&st.bytes, &case.run.seg, &case.run.cfg));
    }
    Ok(())
}

/// KF-C04-L3 (latent): the fast-path recognisers / collectors accept a `$len` line whose CR is not
/// followed by LF and execute the command. Recognised only if the whole output equals what a
/// server answers to the stream with the undamaged base command in place of the damaged one.
#[allow(clippy::too_many_arguments)]
fn lenient_outcome(
    case: &BadCase,
    st: &Stream,
    reads: &[usize],
    p: usize,
    fast_line: bool,
    shards: usize,
    replies: &[Reply],
    ctx: &mut CaseCtx<'_>,
) -> Result<Option<()>, String> {
    if !(fast_line && matches!(case.bad, Bad::CrNoLf(_)) && ctx.finding_open(KF_LENIENT)) {
        return Ok(None);
    }
    let mut all: Vec<Argv> = case.before.clone();
    all.push(case.base.clone());
    all.extend(case.after.iter().cloned());
    let kinds: Vec<FrameKind> = all.iter().map(frame_kind).collect();
    debug_assert_eq!(kinds.len(), st.frames.len());
    let _ = p;
    let model = collector_model(&st.frames, &kinds, reads, &case.run.cfg);
    let candidates: Vec<Vec<usize>> = if model.dropped.is_empty() {
        vec![vec![]]
    } else {
        vec![vec![], model.dropped.clone()]
    };
    for d in candidates {
        if !d.is_empty() && !ctx.finding_open(KF_DROP) {
            continue;
        }
        let kept = without(&all, &d);
        if kept.len() != replies.len() {
            continue;
        }
        let exp = reference(&kept, shards)?;
        if normalise_all(&kept, replies) == exp {
            if !d.is_empty() {
                ctx.tolerate(KF_DROP);
            }
            if ctx.tolerate(KF_LENIENT) {
                ctx.label("latentL3_lenient_accept");
                return Ok(Some(()));
            }
        }
    }
    Ok(None)
}

// ---------------------------------------------------------------------------------------
// check 3: a sequence of connections on one buffer pool
// ---------------------------------------------------------------------------------------

/// How a connection ends.
#[derive(Clone, Debug, Serialize, Deserialize)]
enum End {
    /// EOF after the last complete command
    Clean,
    /// the client hangs up in the middle of a frame: a strict prefix of `extra`'s encoding
    /// (cut position = fraction `at`) follows the commands
    CutMidFrame { extra: Argv, at: u16 },
    /// a frame larger than the (small) max_buffer_size follows the commands
    Overflow { max_buffer_size: u16, read_buffer_size: u8 },
    /// the socket stops accepting writes after `after` bytes: error, or 0 bytes accepted
    WriteFail { after: u16, zero: bool },
    /// a damaged frame follows the commands
    Malformed { base: Argv, line: u16, bad: Bad },
}

impl End {
    fn label(&self) -> &'static str {
        match self {
            End::Clean => "end:clean",
            End::CutMidFrame { .. } => "end:cut_mid_frame",
            End::Overflow { .. } => "end:buffer_overflow",
            End::WriteFail { .. } => "end:write_failure",
            End::Malformed { .. } => "end:malformed_frame",
        }
    }
}

#[derive(Clone, Debug, Serialize, Deserialize)]
struct ConnSpec {
    cmds: Vec<Argv>,
    end: End,
    run: RunSpec,
}

#[derive(Clone, Debug, Serialize, Deserialize)]
struct SeqCase {
    shards: u8,
    /// number of pooled buffers of the shared ConnectionPool
    pool_size: u8,
    conns: Vec<ConnSpec>,
}

fn build_seq_conn(c: &ConnSpec) -> drive::SeqConn {
    let mut raw: Vec<Vec<u8>> = c.cmds.iter().map(|a| vcore::resp::encode_command(a)).collect();
    let mut cfg = c.run.cfg.clone();
    let mut fault = None;
    match &c.end {
        End::Clean => {}
        End::CutMidFrame { extra, at } => {
            let enc = vcore::resp::encode_command(extra);
            if enc.len() >= 2 {
                let k = 1 + ((*at as usize * (enc.len() - 1)) >> 16);
                raw.push(enc[..k.min(enc.len() - 1)].to_vec());
            }
        }
        End::Overflow { max_buffer_size, read_buffer_size } => {
            let max = (*max_buffer_size as u32).max(32);
            cfg.max_buffer_size = max;
            cfg.read_buffer_size = (*read_buffer_size as u32).clamp(8, max);
            raw.push(vcore::resp::encode_command(&vec![
                b"SET".to_vec(),
                b"k0".to_vec(),
                vec![b'o'; max as usize * 2 + 50],
            ]));
        }
        End::WriteFail { after, zero } => fault = Some((*after as usize, *zero)),
        End::Malformed { base, line, bad } => raw.push(gen::damaged_frame(base, *line, bad).0),
    }
    let st = Stream::from_raw(&raw);
    let cs = cuts(&c.run.seg, &st);
    let reads = effective_reads(st.bytes.len(), &cs, cfg.read_buffer_size as usize);
    drive::SeqConn {
        chunks: chunks_of(&st.bytes, &cs),
        cfg,
        io: c.run.io,
        write_fault: fault,
        turn_budget: budget(raw.len(), reads.len()),
    }
}

/// Every connection of the sequence, run on ONE shared buffer pool, must write exactly the
/// bytes it writes when every connection gets a fresh pool (same commands, same prior
/// keyspace): replies depend on the keyspace, never on which buffers the pool hands out.
fn check_sequence(case: &SeqCase, ctx: &mut CaseCtx<'_>) -> Result<(), String> {
    if case.conns.is_empty() {
        return Ok(());
    }
    let shards = case.shards.max(1) as usize;
    let pool = case.pool_size.max(1) as usize;
    ctx.label(&format!("pool:{}", pool));
    for c in &case.conns {
        ctx.label(c.end.label());
    }
    let shared = drive::run_sequence(case.conns.iter().map(build_seq_conn).collect(), shards, Some(pool));
    let alone = drive::run_sequence(case.conns.iter().map(build_seq_conn).collect(), shards, None);
    for (i, ((s, a), c)) in shared.iter().zip(alone.iter()).zip(case.conns.iter()).enumerate() {
        let what = format!(
            "connection #{} of {} ({}, {} commands) on a shared pool of {} buffers",
            i,
            case.conns.len(),
            c.end.label(),
            c.cmds.len(),
            pool
        );
        verdict_basic(a, &format!("connection #{} run on a fresh pool", i))?;
        verdict_basic(s, &what)?;
        if s.out != a.out {
            let common = s.out.iter().zip(a.out.iter()).take_while(|(x, y)| x == y).count();
            let from = common.saturating_sub(40);
            return Err(format!(
                "{} wrote different bytes than the same connection on a fresh pool (same commands, same prior keyspace); first difference at byte {}\n  shared pool: …{:?}\n  fresh pool:  …{:?}\n  its commands: {}\n  earlier connections ended: {}",
                what,
                common,
                vcore::show(&s.out[from..s.out.len().min(common + 160)]),
                vcore::show(&a.out[from..a.out.len().min(common + 160)]),
                show_cmds(&c.cmds),
                case.conns[..i].iter().map(|x| x.end.label()).collect::<Vec<_>>().join(", ")
            ));
        }
    }
    // non-trivial: an abnormally ended connection whose buffers a later connection of the
    // sequence draws from the FIFO pool (each connection takes two buffers and returns two)
    let lag = (pool / 2).max(1);
    let reused = case
        .conns
        .iter()
        .enumerate()
        .any(|(j, c)| !matches!(c.end, End::Clean) && j + lag < case.conns.len());
    if reused {
        ctx.label("nt:abnormal_end_then_buffer_reuse");
        ctx.nontrivial(&serde_json::to_string(case).unwrap_or_default());
    }
    Ok(())
}

// ---------------------------------------------------------------------------------------
// strategies for the cases
// ---------------------------------------------------------------------------------------

fn run_spec() -> impl Strategy<Value = RunSpec> {
    (gen::seg(), gen::cfg(), gen::io()).prop_map(|(seg, cfg, io)| RunSpec { seg, cfg, io })
}

fn stream_case(with_triggers: bool) -> impl Strategy<Value = StreamCase> {
    let ordinary = (
        gen::command_list(14, with_triggers),
        prop_oneof![3 => Just(1u8), 1 => Just(3u8)],
        run_spec(),
        run_spec(),
    )
        .prop_map(|(cmds, shards, a, b)| StreamCase { cmds, shards, a, b });
    // scale class (about 1 case in 600): deep pipelines, long MULTI bodies, large frames
    let deep_run = || {
        (
            gen::deep_seg(),
            gen::deep_cfg(),
            prop_oneof![4 => Just(false), 1 => Just(true)],
            // a socket that takes fewer bytes than one batch of replies offers (never 1 or 7 here: cost)
            prop_oneof![3 => Just(0u32), 1 => Just(1_000), 1 => Just(4_096), 1 => Just(16_384), 1 => Just(65_536)],
        )
            .prop_map(|(seg, cfg, pending, write_limit)| RunSpec {
                seg,
                cfg,
                io: Io { pending, write_limit },
            })
    };
    let deep = (gen::deep_command_list(), prop_oneof![3 => Just(1u8), 1 => Just(3u8)], deep_run(), deep_run())
        .prop_map(|(cmds, shards, a, b)| StreamCase { cmds, shards, a, b });
    prop_oneof![400 => ordinary, 1 => deep]
}

fn bad_case() -> impl Strategy<Value = BadCase> {
    (
        prop_oneof![1 => Just(Vec::new()).boxed(), 5 => gen::command_list(6, false)],
        prop_oneof![1 => Just(Vec::new()).boxed(), 3 => gen::command_list(4, false)],
        gen::bad_base(),
        any::<u16>(),
        gen::bad(),
        prop_oneof![3 => Just(1u8), 1 => Just(3u8)],
        run_spec(),
    )
        .prop_map(|(before, after, base, line, bad, shards, run)| BadCase {
            before,
            after,
            base,
            line,
            bad,
            shards,
            run,
        })
}

fn ordered_commands(max_pieces: usize) -> impl Strategy<Value = Vec<Argv>> {
    // hash-map-ordered replies differ between two server instances: keep them out, the
    // comparison of this sub-check is byte for byte
    gen::command_list(max_pieces, false).prop_map(|mut v| {
        v.retain(|c| unordered_class(c) == 0 || vcore::gen::cmd_name(c) == "EXEC");
        if v.is_empty() {
            v.push(argv(&["PING"]));
        }
        v
    })
}

fn conn_spec() -> impl Strategy<Value = ConnSpec> {
    let end = prop_oneof![
        4 => Just(End::Clean),
        4 => (gen::bad_base(), any::<u16>()).prop_map(|(extra, at)| End::CutMidFrame { extra, at }),
        1 => (any::<u16>()).prop_map(|at| End::CutMidFrame {
            extra: vec![b"SET".to_vec(), b"k1".to_vec(), vec![b'p'; 300]],
            at
        }),
        3 => (prop_oneof![Just(64u16), Just(128), Just(256)], prop_oneof![Just(16u8), Just(64)])
            .prop_map(|(max_buffer_size, read_buffer_size)| End::Overflow { max_buffer_size, read_buffer_size }),
        3 => (prop_oneof![4 => (0u16..40), 1 => (40u16..400)], any::<bool>()).prop_map(|(after, zero)| End::WriteFail { after, zero }),
        1 => (gen::bad_base(), any::<u16>(), gen::bad()).prop_map(|(base, line, bad)| End::Malformed { base, line, bad }),
    ];
    (ordered_commands(6), end, run_spec()).prop_map(|(cmds, end, run)| ConnSpec { cmds, end, run })
}

fn seq_case() -> impl Strategy<Value = SeqCase> {
    (
        prop_oneof![3 => Just(1u8), 1 => Just(3u8)],
        prop_oneof![4 => Just(2u8), 3 => Just(4u8), 1 => Just(64u8)],
        proptest::collection::vec(conn_spec(), 2..7),
    )
        .prop_map(|(shards, pool_size, conns)| SeqCase { shards, pool_size, conns })
}

fn argv(parts: &[&str]) -> Argv {
    parts.iter().map(|s| s.as_bytes().to_vec()).collect()
}

fn whole(cfg: Cfg) -> RunSpec {
    RunSpec {
        seg: Seg::Whole,
        cfg,
        io: Io::default(),
    }
}

/// `c04 debug <mpb> <thr> <rbs> <escaped stream> [cut,cut,…]` — print what the handler writes.
fn debug_main(rest: &[String]) -> ! {
    let num = |i: usize, d: u64| rest.get(i).and_then(|s| s.parse::<u64>().ok()).unwrap_or(d);
    let cfg = Cfg {
        min_pipeline_buffer: num(1, u64::MAX),
        batch_threshold: num(2, 2) as u32,
        read_buffer_size: num(3, 8192) as u32,
        max_buffer_size: 0,
    };
    let esc = rest.get(4).cloned().unwrap_or_default();
    let mut bytes = Vec::new();
    let mut it = esc.bytes().peekable();
    while let Some(c) = it.next() {
        if c == b'\\' {
            match it.next() {
                Some(b'r') => bytes.push(b'\r'),
                Some(b'n') => bytes.push(b'\n'),
                Some(b'\\') => bytes.push(b'\\'),
                Some(o) => bytes.push(o),
                None => {}
            }
        } else {
            bytes.push(c);
        }
    }
    let cuts: Vec<usize> = rest
        .get(5)
        .map(|s| s.split(',').filter_map(|x| x.parse().ok()).collect())
        .unwrap_or_default();
    vcore::runner::install_quiet_panic_hook();
    let r = run_handler(chunks_of(&bytes, &cuts), &cfg, 1, Io::default(), 100_000);
    println!("input    {:?}", vcore::show(&bytes));
    println!("output   {:?}", vcore::show(&r.out));
    println!("finished={} eof_seen={} turns={} panic={:?} other_panic={:?}", r.finished, r.eof_seen, r.turns, r.panic, r.other_panic);
    std::process::exit(0)
}

fn main() {
    let args = vcore::parse_args();
    if args.rest.first().map(|s| s.as_str()) == Some("debug") {
        debug_main(&args.rest);
    }
    let s = Session::new(
        "C04",
        Level::Exploration,
        "streams: generated command lists (GET/SET heavy incl. runs of length threshold-1/threshold/threshold+1, the whole data-command grammar without wall-clock and \
         random-choice commands, both letter cases, arguments with CR/LF, unknown commands, wrong arity, MULTI/EXEC) x two runs with generated segmentation \
         (whole, byte-wise, per frame, fixed size, uniform cuts, cuts aimed inside `*N`, `$len`, between CR and LF, inside payloads, at frame ends, at the fast-path offsets 12/14/15) \
         and generated ConnectionConfig (min_pipeline_buffer in {1,14,60,70,1e9}, batch_threshold in {1,2,6,16}, read_buffer_size in {16,64,8192}), 1 or 3 shards. \
         malformed: such a stream with one frame damaged (bad type byte, wrong element type, negative length, non-numeric length, CR without LF, huge/overflowing length, inline text). \
         non-trivial = (>= 3 commands and >= 1 read boundary strictly inside a frame) or a GET/SET run within +-1 of batch_threshold collected with the buffer >= min_pipeline_buffer; \
         for malformed streams: >= 2 surrounding commands or >= 1 cut; for connection sequences: an abnormally ended connection whose pooled buffers a later connection of the sequence draws. \
         distinct by (stream bytes, segmentations, configurations) resp. the whole sequence",
        &args,
    );
    s.assume("the harness' strict RESP2 reply decoder (vcore::resp) and its command encoder");
    s.assume("reference = the same handler fed one command per read with batching off (min_pipeline_buffer = usize::MAX) on a fresh twin server: 'the reply the command would get if sent alone after its predecessors completed'");
    s.assume("termination is structural: fresh current-thread runtime, scripted socket that never blocks; a handler that has not returned after 4000 + 20*(commands+reads) scheduler turns is hung");
    s.assume("replies whose element order follows hash-map iteration (KEYS, SMEMBERS, HKEYS, HVALS, HGETALL, EXEC results) are compared as multisets; SCAN-family replies by shape only");
    s.assume("commands with wall-clock dependent replies (expiry family), SPOP/RANDOMKEY and non-UTF-8 keys are not generated");

    // ---- probes -------------------------------------------------------------------------
    // latent defects (not listed): these probes report a VIOLATION if the symptom appears
    s.probe(
        KF_DROP,
        json!({"cmds": [["GET","k0"],["INCR","k1"]], "min_pipeline_buffer": 14, "batch_threshold": 2, "segmentation": "whole"}),
        || {
            let st = Stream::from_cmds(&[argv(&["GET", "k0"]), argv(&["INCR", "k1"])]);
            let cfg = Cfg { min_pipeline_buffer: 14, batch_threshold: 2, read_buffer_size: 8192, max_buffer_size: 0 };
            let r = run_handler(vec![st.bytes.clone()], &cfg, 1, Io::default(), 10_000);
            match decode_stream(&r.out) {
                Ok(v) if v.len() == 2 && r.panic.is_none() && r.finished => None,
                other => Some(format!(
                    "GET k0 | INCR k1 in one read with min_pipeline_buffer=14, batch_threshold=2: output {:?} ({:?}); the GET collector consumed the GET without executing it",
                    vcore::show(&r.out),
                    other.map(|v| v.len()).map_err(|e| e.2)
                )),
            }
        },
    );
    s.probe(
        KF_HUGE,
        json!({"stream": "*2\\r\\n$3\\r\\nGET\\r\\n$18446744073709551615\\r\\nk0\\r\\n"}),
        || {
            let bytes = b"*2\r\n$3\r\nGET\r\n$18446744073709551615\r\nk0\r\n".to_vec();
            let r = run_handler(vec![bytes], &Cfg::reference(), 1, Io::default(), 10_000);
            let first_is_error = decode_stream(&r.out).ok().and_then(|v| v.first().map(|x| x.is_error())).unwrap_or(false);
            if r.panic.is_none() && r.finished && first_is_error {
                None
            } else {
                Some(format!("GET with key length 18446744073709551615: panic={:?} output {:?}", r.panic, vcore::show(&r.out)))
            }
        },
    );
    s.probe(KF_SCAN, json!({"cmds": [["SCAN", "0", "MATCH"]]}), || {
        let case = StreamCase {
            cmds: vec![argv(&["PING"]), argv(&["SCAN", "0", "MATCH"])],
            shards: 1,
            a: whole(Cfg::reference()),
            b: whole(Cfg::reference()),
        };
        s.strict_eval(|ctx| check_stream(&case, ctx)).err()
    });
    s.probe(KF_EVAL, json!({"cmds": [["EVAL", "return 1", "-1"]]}), || {
        let case = StreamCase {
            cmds: vec![argv(&["PING"]), argv(&["EVAL", "return 1", "-1"])],
            shards: 1,
            a: whole(Cfg::reference()),
            b: whole(Cfg::reference()),
        };
        s.strict_eval(|ctx| check_stream(&case, ctx)).err()
    });
    s.probe(KF_CRLF, json!({"stream": "*1\\rX$4\\r\\nPING\\r\\n then PING"}), || {
        let case = BadCase {
            before: vec![argv(&["PING"])],
            after: vec![argv(&["PING"])],
            base: argv(&["PING"]),
            line: 0,
            bad: Bad::CrNoLf(b'X'),
            shards: 1,
            run: whole(Cfg::reference()),
        };
        s.strict_eval(|ctx| check_bad(&case, ctx)).err()
    });
    s.probe(KF_LENIENT, json!({"stream": "SET k0 v | *2\\r\\n$3\\r\\nGET\\r\\n$2\\rXk0\\r\\n | PING"}), || {
        let mut bytes = vcore::resp::encode_command(&argv(&["SET", "k0", "v"]));
        bytes.extend_from_slice(b"*2\r\n$3\r\nGET\r\n$2\rXk0\r\n");
        bytes.extend_from_slice(&vcore::resp::encode_command(&argv(&["PING"])));
        let r = run_handler(vec![bytes], &Cfg::reference(), 1, Io::default(), 10_000);
        match decode_stream(&r.out) {
            Ok(v) if v.len() == 3 && v[1] == Reply::bulk("v") => Some(format!(
                "the GET whose key-length line ends in CR X instead of CR LF was executed: output {:?}",
                vcore::show(&r.out)
            )),
            _ => None,
        }
    });
    s.probe(KF_EMPTY_NAME, json!({"stream": "*1\\r\\n$0\\r\\n\\r\\n"}), || {
        let case = StreamCase {
            cmds: vec![argv(&["PING"]), vec![Vec::new()]],
            shards: 1,
            a: whole(Cfg::reference()),
            b: whole(Cfg::reference()),
        };
        s.strict_eval(|ctx| check_stream(&case, ctx)).err()
    });

    // ---- searches -----------------------------------------------------------------------
    s.describe_check(
        "streams",
        "well-formed command streams x two (segmentation, config) runs vs the one-command-per-read reference: reply count, reply sequence, byte identity of the two runs",
    );
    s.run_cases("streams", s.scale(100_000, 3_000_000), || stream_case(false), check_stream);
    s.describe_check(
        "streams_with_triggers",
        "the same with commands that trip open crash findings mixed in (excluded and counted while those are open; ordinary streams once they are fixed)",
    );
    s.run_cases("streams_with_triggers", s.scale(8_000, 100_000), || stream_case(true), check_stream);
    s.describe_check(
        "malformed",
        "a stream with one damaged frame: handler returns at EOF, no panic, earlier replies unchanged, the next reply is an error",
    );
    s.run_cases("malformed", s.scale(60_000, 2_000_000), bad_case, check_bad);
    s.describe_check(
        "conn_sequence",
        "2-6 connections run one after another on ONE ConnectionPool (2, 4 or 64 pooled buffers) and one keyspace, some ending abnormally (EOF inside a frame, max_buffer_size exceeded, write failure, malformed frame): each must write exactly the bytes it writes when every connection gets a fresh pool",
    );
    s.run_cases("conn_sequence", s.scale(15_000, 400_000), seq_case, check_sequence);
    s.finish();
}
