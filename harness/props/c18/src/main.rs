//! C18 — Anti-entropy: equal digests iff equal states; a sync leaves both sides merged, in
//! finitely many rounds.
//!
//! A case is one consistent *world* (three writer replicas over 20 keys: strings, tombstones,
//! hashes, expiries, G-counters, OR-sets, writer-to-writer gossip) whose emitted deltas are
//! delivered — in two different orders, with optional extra deliveries — to two follower
//! replicas A and B (`ShardReplicaState::apply_remote_delta`). A and B are then
//!
//!   digest_pairs  compared through `AntiEntropyManager::generate_digest` /
//!                 `StateDigest::{differs_from, divergent_buckets}` on several *independently
//!                 built* `HashMap`s per side (different insertion orders, capacities, churn),
//!                 `merkle_tree_depth` in {0,1,2,4,8};
//!   sync_direct   synchronised by driving `process_peer_digest / create_sync_request /
//!                 handle_sync_request / get_keys_in_buckets` by hand, `max_keys_per_sync` in
//!                 {1,2,5,1000}, for ceil(keys/limit)+2 rounds;
//!   sync_sim      the same through `MultiNodeSimulation::run_anti_entropy_sync`.
//!
//! Two further sub-checks drive LONG-LIVED objects through generated event sequences (own case
//! types, see the sections below): `manager_sessions` (one `AntiEntropyManager` per replica
//! across many exchanges) and `sim_sessions` (one `MultiNodeSimulation`: every digest a
//! `SimulatedNode` computes during its life against its state, every pair sync / full pass
//! against the merges).
//!
//! Everything the harness decides is independent of `HashMap` iteration order: verdicts are
//! computed from sorted `KeyDigest` lists per bucket ("ideal" divergence) and from canonical
//! projections; the API's own answers are then compared with those.

use proptest::prelude::*;
use redis_sim::redis::SDS;
use redis_sim::replication::anti_entropy::{
    AntiEntropyConfig, AntiEntropyManager, KeyDigest, StateDigest,
};
use redis_sim::replication::lattice::ReplicaId;
use redis_sim::replication::state::{
    CrdtValue, ReplicatedValue, ReplicationDelta, ShardReplicaState,
};
use redis_sim::replication::ConsistencyLevel;
use redis_sim::simulator::multi_node::MultiNodeSimulation;
use serde::{Deserialize, Serialize};
use serde_json::{json, Value as J};
use std::collections::{BTreeMap, BTreeSet, HashMap};
use vcore::proj::{client_view, diff_components, peer_view};
use vcore::{CaseCtx, Level, Session};

const KF_FOLD: &str = "KF-C18-01";
const KF_BLIND: &str = "KF-C18-02";
const KF_STUCK: &str = "KF-C18-03";
const KF_STAMP: &str = "KF-C07-01";
const KF_MISMATCH: &str = "KF-C07-02";

const NKEYS: u8 = 20;
const PAYLOADS: [&str; 4] = ["x", "y", "", "a-longer-payload-of-31-bytes...."];
const FIELDS: [&str; 3] = ["f", "g", "h"];
const EXPIRY: [Option<u64>; 3] = [None, Some(100), Some(200)];
const DEPTHS: [usize; 5] = [0, 1, 2, 4, 8];
const LIMITS: [usize; 4] = [1, 2, 5, 1000];

type Map = HashMap<String, ReplicatedValue>;

fn key_name(k: u8) -> String {
    let k = k % NKEYS;
    match k {
        0..=13 => format!("k{}", k),
        14..=16 => format!("cnt{}", k),
        _ => format!("set{}", k),
    }
}

// ---------------------------------------------------------------------------------------
// world
// ---------------------------------------------------------------------------------------

#[derive(Clone, Debug, Serialize, Deserialize)]
enum WOp {
    Write { w: u8, key: u8, p: u8, exp: u8 },
    Delete { w: u8, key: u8 },
    HSet { w: u8, key: u8, f: u8, p: u8 },
    HDel { w: u8, key: u8, f: u8 },
    /// keys 14..=16: GCounter increment, keys 17..=19: ORSet add/remove (act 2 = remove)
    Crdt { w: u8, key: u8, act: u8, stamp: bool },
    /// writer-to-writer gossip of `from`'s current value
    Gossip { to: u8, from: u8, key: u8 },
}

struct Snap {
    key: String,
    holder: u8,
    value: ReplicatedValue,
}

fn run_world(ops: &[WOp]) -> Vec<Snap> {
    let mut ws: Vec<ShardReplicaState> = (0..3)
        .map(|i| ShardReplicaState::new(ReplicaId::new(i + 1), ConsistencyLevel::Eventual))
        .collect();
    let mut snaps = Vec::new();
    for op in ops {
        let touched: Option<(usize, String)> = match op {
            WOp::Write { w, key, p, exp } => {
                let (w, k) = (*w as usize % 3, key_name(*key % 14));
                ws[w].record_write(
                    k.clone(),
                    SDS::from_str(PAYLOADS[*p as usize % 4]),
                    EXPIRY[*exp as usize % 3],
                );
                Some((w, k))
            }
            WOp::Delete { w, key } => {
                let (w, k) = (*w as usize % 3, key_name(*key % 14));
                ws[w].record_delete(k.clone());
                Some((w, k))
            }
            WOp::HSet { w, key, f, p } => {
                let (w, k) = (*w as usize % 3, key_name(*key % 14));
                ws[w].record_hash_write(
                    k.clone(),
                    vec![(
                        FIELDS[*f as usize % 3].to_string(),
                        SDS::from_str(PAYLOADS[*p as usize % 4]),
                    )],
                );
                Some((w, k))
            }
            WOp::HDel { w, key, f } => {
                let (w, k) = (*w as usize % 3, key_name(*key % 14));
                ws[w].record_hash_delete(k.clone(), vec![FIELDS[*f as usize % 3].to_string()]);
                Some((w, k))
            }
            WOp::Crdt { w, key, act, stamp } => {
                let w = *w as usize % 3;
                let kk = 14 + *key % 6;
                let k = key_name(kk);
                let rid = ws[w].replica_id;
                let mut rv = ws[w].replicated_keys.remove(&k).unwrap_or_else(|| {
                    ReplicatedValue::with_crdt(
                        if kk <= 16 {
                            CrdtValue::new_gcounter()
                        } else {
                            CrdtValue::new_orset()
                        },
                        rid,
                    )
                });
                match rv.crdt_mut() {
                    CrdtValue::GCounter(g) => g.increment(rid),
                    CrdtValue::ORSet(s) => {
                        let e = format!("e{}", act % 2);
                        if *act % 3 == 2 {
                            s.remove(&e);
                        } else {
                            s.add(e, rid);
                        }
                    }
                    _ => {}
                }
                if *stamp {
                    rv.timestamp = ws[w].lamport_clock.tick();
                }
                ws[w].replicated_keys.insert(k.clone(), rv);
                Some((w, k))
            }
            WOp::Gossip { to, from, key } => {
                let (to, from, k) = (*to as usize % 3, *from as usize % 3, key_name(*key));
                if to == from {
                    None
                } else if let Some(v) = ws[from].replicated_keys.get(&k).cloned() {
                    let src = ws[from].replica_id;
                    ws[to].apply_remote_delta(ReplicationDelta::new(k.clone(), v, src));
                    Some((to, k))
                } else {
                    None
                }
            }
        };
        if let Some((w, k)) = touched {
            if let Some(v) = ws[w].replicated_keys.get(&k) {
                snaps.push(Snap {
                    key: k,
                    holder: w as u8,
                    value: v.clone(),
                });
            }
        }
    }
    snaps
}

#[derive(Clone, Debug, Serialize, Deserialize)]
struct Case {
    world: Vec<WOp>,
    /// deliveries both followers receive (indices into the world's snapshots, monotone)
    base: Vec<u16>,
    /// sort keys: B receives `base` in the order given by (perm[i], i)
    perm: Vec<u16>,
    /// deliveries only A / only B receive (after the common ones)
    extra_a: Vec<u16>,
    extra_b: Vec<u16>,
    /// index into DEPTHS / LIMITS
    depth: u8,
    limit: u8,
}

struct Built {
    a: ShardReplicaState,
    b: ShardReplicaState,
    /// per key: kinds (crdt type names) of every snapshot delivered to either side
    kinds: BTreeMap<String, BTreeSet<&'static str>>,
    permuted: bool,
}

fn follower(id: u64) -> ShardReplicaState {
    ShardReplicaState::new(ReplicaId::new(id), ConsistencyLevel::Eventual)
}

fn build(case: &Case) -> Built {
    let snaps = run_world(&case.world);
    let mut a = follower(10);
    let mut b = follower(11);
    let mut kinds: BTreeMap<String, BTreeSet<&'static str>> = BTreeMap::new();
    let mut permuted = false;
    if !snaps.is_empty() {
        let n = snaps.len();
        let at = |i: u16| &snaps[(i as usize * n) >> 16];
        let mut deliver = |st: &mut ShardReplicaState, s: &Snap| {
            kinds
                .entry(s.key.clone())
                .or_default()
                .insert(s.value.crdt.type_name());
            st.apply_remote_delta(ReplicationDelta::new(
                s.key.clone(),
                s.value.clone(),
                ReplicaId::new(s.holder as u64 + 1),
            ));
        };
        for i in &case.base {
            deliver(&mut a, at(*i));
        }
        let mut order: Vec<usize> = (0..case.base.len()).collect();
        order.sort_by_key(|i| (case.perm.get(*i).copied().unwrap_or(0), *i));
        permuted = order.iter().enumerate().any(|(p, i)| p != *i);
        for i in order {
            deliver(&mut b, at(case.base[i]));
        }
        for i in &case.extra_a {
            deliver(&mut a, at(*i));
        }
        for i in &case.extra_b {
            deliver(&mut b, at(*i));
        }
    }
    Built {
        a,
        b,
        kinds,
        permuted,
    }
}

// ---------------------------------------------------------------------------------------
// projections and order-independent digest analysis
// ---------------------------------------------------------------------------------------

/// What a client can see: body, and the expiry only if there is a body.
fn cv(v: Option<&ReplicatedValue>) -> J {
    match v {
        None => json!({"type": "none"}),
        Some(v) => {
            let c = client_view(v);
            if c["body"]["type"] == "none" {
                json!({"type": "none"})
            } else {
                c
            }
        }
    }
}

fn pv(v: Option<&ReplicatedValue>) -> J {
    v.map(peer_view).unwrap_or(J::Null)
}

fn bucket_of(key: &str, v: &ReplicatedValue, depth: usize) -> usize {
    KeyDigest::new(key, v).bucket(depth)
}

/// Sorted key digests per bucket — what an order-independent digest would be built from.
fn ideal(map: &Map, depth: usize) -> Vec<Vec<(u64, u64, u64)>> {
    let mut v = vec![Vec::new(); 1 << depth];
    for (k, val) in map {
        let d = KeyDigest::new(k, val);
        v[d.bucket(depth)].push((d.key_hash, d.value_hash, d.timestamp));
    }
    for b in &mut v {
        b.sort();
    }
    v
}

/// Independent maps with the same content: different insertion orders, capacities and churn
/// (each `HashMap::new()` also draws a fresh `RandomState`).
fn copies(map: &Map, n: usize) -> Vec<Map> {
    let mut keys: Vec<&String> = map.keys().collect();
    keys.sort();
    let len = keys.len();
    (0..n)
        .map(|i| {
            let mut order = keys.clone();
            if len > 0 {
                order.rotate_left((i * 7 + i / 2) % len);
            }
            if i % 2 == 1 {
                order.reverse();
            }
            if i % 5 == 4 && len > 2 {
                order.swap(0, len / 2);
            }
            let cap = [0, len, 2 * len + 3, 64, 1024][i % 5];
            let mut m: Map = HashMap::with_capacity(cap);
            if i % 3 == 2 {
                for d in 0..11 {
                    m.insert(format!("~dummy{}", d), ReplicatedValue::new(ReplicaId::new(99)));
                }
            }
            for k in order {
                m.insert(k.clone(), map[k].clone());
            }
            if i % 3 == 2 {
                for d in 0..11 {
                    m.remove(&format!("~dummy{}", d));
                }
            }
            m
        })
        .collect()
}

fn digest_of(map: &Map, rid: u64, depth: usize) -> StateDigest {
    let mgr = AntiEntropyManager::new(
        ReplicaId::new(rid),
        AntiEntropyConfig {
            merkle_tree_depth: depth,
            ..AntiEntropyConfig::default()
        },
    );
    mgr.generate_digest(map)
}

/// Counts a tolerated finding once per case.
#[derive(Default)]
struct Tol {
    seen: BTreeSet<&'static str>,
}

impl Tol {
    fn tolerate(&mut self, ctx: &mut CaseCtx<'_>, id: &'static str) -> bool {
        if self.seen.contains(id) {
            return true;
        }
        let t = ctx.tolerate(id);
        if t {
            self.seen.insert(id);
        }
        t
    }
}

/// Digests of two maps with EQUAL content (equal peer view for every key) must be equal.
/// Buckets holding >= 2 keys are exposed to KF-C18-01 (fold in map iteration order): while that
/// finding is open only `count` and `max_timestamp` are compared there.
fn check_equal_content_digests(
    what: &str,
    content: &Map,
    da: &StateDigest,
    db: &StateDigest,
    depth: usize,
    ctx: &mut CaseCtx<'_>,
    tol: &mut Tol,
) -> Result<(), String> {
    let id = ideal(content, depth);
    let mut any_multi = false;
    for (i, keys) in id.iter().enumerate() {
        let (na, nb) = (&da.buckets[i], &db.buckets[i]);
        if keys.len() >= 2 {
            any_multi = true;
            if na != nb {
                if na.count == nb.count
                    && na.max_timestamp == nb.max_timestamp
                    && tol.tolerate(ctx, KF_FOLD)
                {
                    continue;
                }
                return Err(format!(
                    "{}: two maps with equal content give different digests for bucket {} ({} keys, depth {}): {:?} vs {:?}",
                    what, i, keys.len(), depth, na, nb
                ));
            }
        } else if na != nb {
            return Err(format!(
                "{}: two maps with equal content give different digests for bucket {} holding {} key(s) (depth {}): {:?} vs {:?}",
                what, i, keys.len(), depth, na, nb
            ));
        }
    }
    let div = da.divergent_buckets(db);
    for i in &div {
        if id[*i].len() < 2 || !tol.tolerate(ctx, KF_FOLD) {
            return Err(format!(
                "{}: divergent_buckets reports bucket {} ({} keys) although both maps have equal content (depth {})",
                what, i, id[*i].len(), depth
            ));
        }
    }
    if da.differs_from(db) && !(any_multi && tol.tolerate(ctx, KF_FOLD)) {
        return Err(format!(
            "{}: differs_from is true for two maps with equal content (no bucket holds more than one key; depth {})",
            what, depth
        ));
    }
    if da.key_count != db.key_count || da.max_timestamp != db.max_timestamp {
        return Err(format!(
            "{}: key_count/max_timestamp differ for equal content: {}/{} vs {}/{}",
            what, da.key_count, da.max_timestamp, db.key_count, db.max_timestamp
        ));
    }
    Ok(())
}

/// The digest defect signature of KF-C18-02: the two values hash to the same KeyDigest because
/// everything KeyDigest::new reads (outer stamp, LWW bytes via get()) is equal.
fn blind_signature(key: &str, a: &ReplicatedValue, b: &ReplicatedValue) -> bool {
    KeyDigest::new(key, a) == KeyDigest::new(key, b)
        && a.timestamp == b.timestamp
        && a.get().map(|s| s.as_bytes().to_vec()) == b.get().map(|s| s.as_bytes().to_vec())
}

struct PairAnalysis {
    /// buckets whose sorted key-digest lists differ
    ideal_div: BTreeSet<usize>,
    all_peer_equal: bool,
}

/// Compare the digests of A and B (several independent maps each) with the states themselves.
fn check_digest_pair(
    a: &Map,
    b: &Map,
    depth: usize,
    ncopies: usize,
    ctx: &mut CaseCtx<'_>,
    tol: &mut Tol,
) -> Result<PairAnalysis, String> {
    let nb = 1usize << depth;
    let (ia, ib) = (ideal(a, depth), ideal(b, depth));
    let ideal_div: BTreeSet<usize> = (0..nb).filter(|i| ia[*i] != ib[*i]).collect();

    // per key classification
    let keys: BTreeSet<&String> = a.keys().chain(b.keys()).collect();
    let mut all_peer_equal = true;
    let mut client_diff_buckets: BTreeSet<usize> = BTreeSet::new();
    for k in &keys {
        let (va, vb) = (a.get(*k), b.get(*k));
        if pv(va) == pv(vb) {
            continue;
        }
        all_peer_equal = false;
        if cv(va) == cv(vb) {
            // peer-level difference only (stamps, tombstone vs absent, vector clock, …): the
            // design asserts nothing here
            ctx.abstain();
            ctx.label("peer_only_difference");
            continue;
        }
        ctx.label("client_visible_difference");
        match (va, vb) {
            (Some(x), Some(y)) => {
                let bx = bucket_of(k, x, depth);
                if KeyDigest::new(k, x) == KeyDigest::new(k, y) {
                    // a false "in sync" for this key: confirm through the API on single-key
                    // maps (no iteration-order effect) and match the signature
                    let mut m1: Map = HashMap::new();
                    m1.insert((*k).clone(), x.clone());
                    let mut m2: Map = HashMap::new();
                    m2.insert((*k).clone(), y.clone());
                    let (d1, d2) = (digest_of(&m1, 10, depth), digest_of(&m2, 11, depth));
                    let api_in_sync = !d1.differs_from(&d2) && d1.divergent_buckets(&d2).is_empty();
                    if api_in_sync && blind_signature(k, x, y) && tol.tolerate(ctx, KF_BLIND) {
                        ctx.label("digest_blind_difference");
                        if client_view(x)["body"] == client_view(y)["body"] {
                            ctx.label("digest_blind:expiry_only");
                        } else {
                            ctx.label(&format!("digest_blind:{}", x.crdt.type_name()));
                        }
                        continue;
                    }
                    return Err(format!(
                        "false 'in sync': key {:?} differs for a client but both values have the same key digest (single-key maps: differs_from = {}):\n  A: {}\n  B: {}",
                        k, !api_in_sync, peer_view(x), peer_view(y)
                    ));
                }
                client_diff_buckets.insert(bx);
            }
            (Some(x), None) | (None, Some(x)) => {
                client_diff_buckets.insert(bucket_of(k, x, depth));
            }
            (None, None) => {}
        }
    }
    for bkt in &client_diff_buckets {
        if !ideal_div.contains(bkt) {
            return Err(format!(
                "internal: bucket {} holds a client-visible difference with different key digests but equal sorted digest lists",
                bkt
            ));
        }
    }

    // the API's answers on independently built maps
    let ca = copies(a, ncopies);
    let cb = copies(b, ncopies);
    let da: Vec<StateDigest> = ca.iter().map(|m| digest_of(m, 10, depth)).collect();
    let db: Vec<StateDigest> = cb.iter().map(|m| digest_of(m, 11, depth)).collect();
    ctx.add_evaluations((2 * ncopies) as u64);

    // (1) same side, different maps: equal content
    for i in 1..ncopies {
        check_equal_content_digests("A vs an independently built copy of A", a, &da[0], &da[i], depth, ctx, tol)?;
        check_equal_content_digests("B vs an independently built copy of B", b, &db[0], &db[i], depth, ctx, tol)?;
    }

    // (2) A vs B
    let multi = |i: usize| ia[i].len() >= 2 || ib[i].len() >= 2;
    for i in 0..ncopies {
        let (x, y) = (&da[i], &db[(i + 1) % ncopies]);
        if all_peer_equal {
            check_equal_content_digests("A vs B (equal states)", a, x, y, depth, ctx, tol)?;
            continue;
        }
        let div: BTreeSet<usize> = x.divergent_buckets(y).into_iter().collect();
        for bkt in 0..nb {
            let differs = x.buckets[bkt] != y.buckets[bkt];
            if ideal_div.contains(&bkt) {
                if !differs || !div.contains(&bkt) {
                    return Err(format!(
                        "false 'in sync': bucket {} (depth {}) holds different key digests on the two sides (A {:?} / B {:?}) but its merkle nodes are equal ({:?}) / divergent_buckets = {:?}",
                        bkt, depth, ia[bkt], ib[bkt], x.buckets[bkt], div
                    ));
                }
            } else if differs || div.contains(&bkt) {
                // same key digests on both sides: only the fold order can tell them apart
                if multi(bkt)
                    && x.buckets[bkt].count == y.buckets[bkt].count
                    && x.buckets[bkt].max_timestamp == y.buckets[bkt].max_timestamp
                    && tol.tolerate(ctx, KF_FOLD)
                {
                    continue;
                }
                return Err(format!(
                    "false 'divergent': bucket {} (depth {}) holds the same key digests on both sides ({} keys) but is reported different: {:?} vs {:?}",
                    bkt, depth, ia[bkt].len(), x.buckets[bkt], y.buckets[bkt]
                ));
            }
        }
        if !ideal_div.is_empty() && !x.differs_from(y) {
            return Err(format!(
                "false 'in sync': differs_from is false although buckets {:?} hold different key digests (depth {})",
                ideal_div, depth
            ));
        }
        if ideal_div.is_empty() && x.differs_from(y) {
            let any_multi = (0..nb).any(multi);
            if !(any_multi && tol.tolerate(ctx, KF_FOLD)) {
                return Err(format!(
                    "false 'divergent': differs_from is true although every bucket holds the same key digests on both sides (depth {})",
                    depth
                ));
            }
        }
    }
    Ok(PairAnalysis {
        ideal_div,
        all_peer_equal,
    })
}

/// Same deliveries in a different order must give the same state (this is C07 at the level of
/// whole replicas; its two listed findings are recognised by their signatures).
fn check_order_independence(
    built: &Built,
    ctx: &mut CaseCtx<'_>,
    tol: &mut Tol,
) -> Result<(), String> {
    let (a, b) = (&built.a.replicated_keys, &built.b.replicated_keys);
    let keys: BTreeSet<&String> = a.keys().chain(b.keys()).collect();
    for k in keys {
        match (a.get(k), b.get(k)) {
            (Some(x), Some(y)) => {
                for comp in diff_components(x, y) {
                    let ok = match comp {
                        "timestamp" => {
                            x.timestamp.time == y.timestamp.time
                                && x.timestamp.replica_id != y.timestamp.replica_id
                                && tol.tolerate(ctx, KF_STAMP)
                        }
                        "crdt" => {
                            built.kinds.get(k).map(|s| s.len() > 1).unwrap_or(false)
                                && tol.tolerate(ctx, KF_MISMATCH)
                        }
                        _ => false,
                    };
                    if !ok {
                        return Err(format!(
                            "the same deltas applied in two orders give different values for key {:?} in component '{}':\n  A: {}\n  B: {}",
                            k, comp, peer_view(x), peer_view(y)
                        ));
                    }
                    ctx.label(&format!("order_dependent:{}", comp));
                }
            }
            (x, y) => {
                return Err(format!(
                    "the same deltas applied in two orders: key {:?} present on one side only (A {}, B {})",
                    k, x.is_some(), y.is_some()
                ))
            }
        }
    }
    Ok(())
}

fn check_digest_case(case: &Case, ctx: &mut CaseCtx<'_>) -> Result<(), String> {
    let built = build(case);
    let depth = DEPTHS[case.depth as usize % DEPTHS.len()];
    let mut tol = Tol::default();
    ctx.label(&format!("depth:{}", depth));
    let same_deliveries = case.extra_a.is_empty() && case.extra_b.is_empty();
    if same_deliveries {
        ctx.label("same_deliveries_two_orders");
        check_order_independence(&built, ctx, &mut tol)?;
    } else if case.extra_a.len() + case.extra_b.len() == 1 {
        ctx.label("one_extra_delivery");
    } else {
        ctx.label("independent_states");
    }
    let (a, b) = (&built.a.replicated_keys, &built.b.replicated_keys);
    // measured, not asserted: a live string whose outer stamp is not its register's stamp (the only
    // way two different strings could share an outer stamp, i.e. the only way KeyDigest's bytes matter)
    for v in a.values().chain(b.values()) {
        if let CrdtValue::Lww(l) = &v.crdt {
            if l.get().is_some() {
                ctx.label(if l.timestamp == v.timestamp {
                    "live_string_outer_stamp_is_register_stamp"
                } else {
                    "live_string_outer_stamp_differs_from_register_stamp"
                });
            }
        }
    }
    let an = check_digest_pair(a, b, depth, 6, ctx, &mut tol)?;
    if an.all_peer_equal {
        ctx.label("equal_states");
    } else if an.ideal_div.is_empty() {
        ctx.label("unequal_states_equal_key_digests");
    } else {
        ctx.label("unequal_states");
    }
    let shared = ideal(a, depth).iter().any(|v| v.len() >= 2)
        || ideal(b, depth).iter().any(|v| v.len() >= 2);
    if shared {
        ctx.label("keys_share_a_bucket");
    }
    if shared || (built.permuted && !a.is_empty()) {
        ctx.nontrivial(&(depth, state_fp(a), state_fp(b)));
    }
    Ok(())
}

fn state_fp(m: &Map) -> String {
    let mut v: Vec<(String, String)> = m
        .iter()
        .map(|(k, v)| (k.clone(), peer_view(v).to_string()))
        .collect();
    v.sort();
    format!("{:?}", v)
}

// ---------------------------------------------------------------------------------------
// sync
// ---------------------------------------------------------------------------------------

struct Plan {
    /// keys of the buckets that are divergent by their key digests (initially)
    k0: BTreeSet<String>,
    rounds: usize,
    /// a side holds more keys in possibly-divergent buckets than one round may carry
    over_limit: bool,
}

fn plan(a: &Map, b: &Map, depth: usize, limit: usize, fold_open: bool) -> Plan {
    let (ia, ib) = (ideal(a, depth), ideal(b, depth));
    let nb = 1usize << depth;
    let ideal_div: BTreeSet<usize> = (0..nb).filter(|i| ia[*i] != ib[*i]).collect();
    // buckets the implementation may report divergent: the really divergent ones and, while the
    // fold-order finding is open, every bucket with >= 2 keys on a side
    let possibly: BTreeSet<usize> = (0..nb)
        .filter(|i| {
            ideal_div.contains(i) || (fold_open && (ia[*i].len() >= 2 || ib[*i].len() >= 2))
        })
        .collect();
    let count = |id: &Vec<Vec<(u64, u64, u64)>>| possibly.iter().map(|i| id[*i].len()).sum::<usize>();
    let (na, nbk) = (count(&ia), count(&ib));
    let n = na.max(nbk);
    let mut k0 = BTreeSet::new();
    for (m, _) in [(a, 0), (b, 1)] {
        for (k, v) in m {
            if ideal_div.contains(&bucket_of(k, v, depth)) {
                k0.insert(k.clone());
            }
        }
    }
    Plan {
        k0,
        rounds: (n + limit - 1) / limit + 2,
        over_limit: na > limit || nbk > limit,
    }
}

fn merge_opt(x: Option<&ReplicatedValue>, y: Option<&ReplicatedValue>) -> Option<ReplicatedValue> {
    match (x, y) {
        (Some(x), Some(y)) => Some(x.merge(y)),
        (Some(x), None) => Some(x.clone()),
        (None, Some(y)) => Some(y.clone()),
        (None, None) => None,
    }
}

/// `got` must be `want` (the merge of the two prior values), up to the listed C07 findings.
fn same_up_to_c07(
    got: &ReplicatedValue,
    want: &ReplicatedValue,
    mixed_kinds: bool,
    ctx: &mut CaseCtx<'_>,
    tol: &mut Tol,
) -> Option<&'static str> {
    for comp in diff_components(got, want) {
        let ok = match comp {
            "timestamp" => {
                got.timestamp.time == want.timestamp.time
                    && got.timestamp.replica_id != want.timestamp.replica_id
                    && tol.tolerate(ctx, KF_STAMP)
            }
            "crdt" => mixed_kinds && tol.tolerate(ctx, KF_MISMATCH),
            _ => false,
        };
        if !ok {
            return Some(comp);
        }
    }
    None
}

/// After the sync rounds: safety for every key, and (if `liveness`) convergence of every key of
/// the initially divergent buckets to the merge of the two prior values.
#[allow(clippy::too_many_arguments)]
fn check_after_sync(
    how: &str,
    a0: &Map,
    b0: &Map,
    a: &Map,
    b: &Map,
    p: &Plan,
    liveness: bool,
    depth: usize,
    limit: usize,
    ctx: &mut CaseCtx<'_>,
    tol: &mut Tol,
) -> Result<(), String> {
    let keys: BTreeSet<&String> = a0.keys().chain(b0.keys()).chain(a.keys()).chain(b.keys()).collect();
    let mut all_equal = true;
    for k in keys {
        let (x0, y0) = (a0.get(k), b0.get(k));
        let mixed = match (x0, y0) {
            (Some(x), Some(y)) => x.crdt.type_name() != y.crdt.type_name(),
            _ => false,
        };
        let want_a = merge_opt(x0, y0);
        let want_b = merge_opt(y0, x0);
        for (side, now, prior, want) in [("A", a.get(k), x0, &want_a), ("B", b.get(k), y0, &want_b)] {
            // safety: a replica holds its prior value or the merge of the two prior values
            let is_prior = pv(now) == pv(prior);
            let is_merge = pv(now) == pv(want.as_ref())
                || (!is_prior
                    && match (now, want) {
                        (Some(n), Some(w)) => same_up_to_c07(n, w, mixed, ctx, tol).is_none(),
                        _ => false,
                    });
            if !is_prior && !is_merge {
                return Err(format!(
                    "{}: after sync replica {} holds for key {:?} neither its prior value nor the merge of the two prior values:\n  now:   {}\n  prior: {}\n  merge: {}",
                    how, side, k, pv(now), pv(prior), pv(want.as_ref())
                ));
            }
            if liveness && p.k0.contains(k) && !is_merge {
                return Err(format!(
                    "{}: no progress: after {} rounds (depth {}, max_keys_per_sync {}, bound = ceil(keys/limit)+2) replica {} still does not hold the merge for key {:?} of an initially divergent bucket:\n  now:   {}\n  merge: {}",
                    how, p.rounds, depth, limit, side, k, pv(now), pv(want.as_ref())
                ));
            }
        }
        if pv(a.get(k)) != pv(b.get(k)) {
            all_equal = false;
            if liveness && p.k0.contains(k) {
                // both hold "the merge" up to the C07 findings (checked above); what may remain
                // is exactly the stamp asymmetry of KF-C07-01
                match (a.get(k), b.get(k)) {
                    (Some(x), Some(y)) if same_up_to_c07(x, y, mixed, ctx, tol).is_none() => {
                        ctx.label("converged_up_to_stamp_replica");
                    }
                    _ => {
                        return Err(format!(
                            "{}: replicas did not converge on key {:?}:\n  A: {}\n  B: {}",
                            how, k, pv(a.get(k)), pv(b.get(k))
                        ))
                    }
                }
            }
        }
    }
    if all_equal {
        ctx.label("fully_converged");
        // equal states: digests must be equal
        let (da, db) = (digest_of(a, 10, depth), digest_of(b, 11, depth));
        check_equal_content_digests(
            &format!("{}: after sync, equal states", how),
            a,
            &da,
            &db,
            depth,
            ctx,
            tol,
        )?;
    }
    Ok(())
}

fn sync_direct(
    a: &mut ShardReplicaState,
    b: &mut ShardReplicaState,
    depth: usize,
    limit: usize,
    rounds: usize,
) -> Result<(), String> {
    let cfg = AntiEntropyConfig {
        merkle_tree_depth: depth,
        max_keys_per_sync: limit,
        ..AntiEntropyConfig::default()
    };
    let (ra, rb) = (a.replica_id, b.replica_id);
    let mut ma = AntiEntropyManager::new(ra, cfg.clone());
    let mut mb = AntiEntropyManager::new(rb, cfg);
    for round in 0..rounds {
        let da = ma.generate_digest(&a.replicated_keys);
        let db = mb.generate_digest(&b.replicated_keys);
        let buckets = match ma.process_peer_digest(db, &da) {
            None => continue, // digests agree: nothing to do this round
            Some(v) => v,
        };
        let req = ma.create_sync_request(rb, da, Some(buckets.clone()), round as u64 * 1000);
        let resp = mb.handle_sync_request(req, &b.replicated_keys);
        if resp.deltas.len() > limit {
            return Err(format!(
                "handle_sync_request returned {} deltas with max_keys_per_sync = {}",
                resp.deltas.len(),
                limit
            ));
        }
        for d in &resp.deltas {
            let bk = bucket_of(&d.key, &d.value, depth);
            if !buckets.contains(&bk) {
                return Err(format!(
                    "handle_sync_request sent key {:?} of bucket {} which was not requested ({:?})",
                    d.key, bk, buckets
                ));
            }
        }
        // the requester pushes its own keys of the same buckets (as run_anti_entropy_sync does)
        let push = ma.get_keys_in_buckets(&a.replicated_keys, &buckets);
        if push.len() > limit {
            return Err(format!(
                "get_keys_in_buckets returned {} deltas with max_keys_per_sync = {}",
                push.len(),
                limit
            ));
        }
        for d in resp.deltas {
            a.apply_remote_delta(d);
        }
        for d in push {
            b.apply_remote_delta(d);
        }
    }
    Ok(())
}

fn sync_sim(a0: &Map, b0: &Map, depth: usize, limit: usize, rounds: usize) -> (Map, Map) {
    let mut sim = MultiNodeSimulation::new(2, 1);
    for (node, m) in [(0usize, a0), (1usize, b0)] {
        sim.nodes[node].anti_entropy.config.merkle_tree_depth = depth;
        sim.nodes[node].anti_entropy.config.max_keys_per_sync = limit;
        let mut keys: Vec<&String> = m.keys().collect();
        keys.sort();
        for k in keys {
            // a fresh replica stores a received value as it is
            sim.nodes[node].replica_state.apply_remote_delta(ReplicationDelta::new(
                k.clone(),
                m[k].clone(),
                ReplicaId::new(9),
            ));
        }
    }
    for _ in 0..rounds {
        sim.run_anti_entropy_sync(0, 1);
    }
    (
        sim.nodes[0].replica_state.replicated_keys.clone(),
        sim.nodes[1].replica_state.replicated_keys.clone(),
    )
}

/// The code under test iterates `RandomState` maps (which buckets are falsely reported divergent,
/// which keys a limited round carries), so a failure that needs a particular order may not show
/// on every evaluation: each case is evaluated `reps` times on freshly built replicas (2 during
/// search, 32 on replay) and fails if any evaluation fails.
fn check_sync_reps(case: &Case, via_sim: bool, reps: usize, ctx: &mut CaseCtx<'_>) -> Result<(), String> {
    let mut tol = Tol::default();
    for _ in 0..reps {
        check_sync_case(case, via_sim, ctx, &mut tol)?;
    }
    Ok(())
}

fn check_sync_case(
    case: &Case,
    via_sim: bool,
    ctx: &mut CaseCtx<'_>,
    tol: &mut Tol,
) -> Result<(), String> {
    let built = build(case);
    let depth = DEPTHS[case.depth as usize % DEPTHS.len()];
    let limit = LIMITS[case.limit as usize % LIMITS.len()];
    ctx.label(&format!("depth:{}", depth));
    ctx.label(&format!("limit:{}", limit));
    let (a0, b0) = (built.a.replicated_keys.clone(), built.b.replicated_keys.clone());
    let fold_open = ctx.finding_open(KF_FOLD);
    let p = plan(&a0, &b0, depth, limit, fold_open);
    if p.k0.is_empty() {
        ctx.label("nothing_divergent");
    }
    // liveness is claimed for every case; while KF-C18-03 is open the class "a side holds more
    // keys in the divergent buckets than one round carries" is excluded (and counted)
    let liveness = if p.k0.is_empty() {
        true // nothing is claimed to move
    } else if p.over_limit {
        ctx.label("divergent_more_keys_than_limit");
        !tol.tolerate(ctx, KF_STUCK)
    } else {
        ctx.label("divergent_within_limit_liveness_asserted");
        true
    };
    let how = if via_sim { "run_anti_entropy_sync" } else { "manager-driven sync" };
    let (a, b) = if via_sim {
        sync_sim(&a0, &b0, depth, limit, p.rounds)
    } else {
        let (mut sa, mut sb) = (built.a, built.b);
        sync_direct(&mut sa, &mut sb, depth, limit, p.rounds)?;
        (sa.replicated_keys, sb.replicated_keys)
    };
    ctx.add_evaluations(p.rounds as u64);
    check_after_sync(how, &a0, &b0, &a, &b, &p, liveness, depth, limit, ctx, tol)?;
    let shared = ideal(&a0, depth).iter().any(|v| v.len() >= 2)
        || ideal(&b0, depth).iter().any(|v| v.len() >= 2);
    if !p.k0.is_empty() && (shared || built.permuted) {
        ctx.nontrivial(&(depth, limit, state_fp(&a0), state_fp(&b0)));
    }
    Ok(())
}

// ---------------------------------------------------------------------------------------
// manager sessions: long-lived AntiEntropyManagers driven through sequences of events
// ---------------------------------------------------------------------------------------
//
// The manager is stateful across exchanges: `generation` (advanced only by on_local_write),
// `peer_digests` (last digest per peer), `divergent_peers` (flags, also set by
// on_partition_healed), `last_sync_time` (set by create_sync_request, cleared by
// on_partition_healed), `pending_requests` / `pending_responses` (queues drained by the
// transport). No production code calls these entry points (only the simulator uses
// generate_digest / get_keys_in_buckets), so the call pattern is the documented one:
// on_local_write once per local write ("Increment generation on local write", as the
// stateright model's LocalWrite does), never for state changes that arrive by replication;
// digest exchange = both sides process_peer_digest the other's fresh digest (stateright
// ExchangeDigest); a divergent verdict is followed by create_sync_request ->
// handle_sync_request -> apply the response deltas -> process_peer_digest(response.digest)
// ("for bidirectional sync"), with the requester's keys of the same buckets pushed back as
// run_anti_entropy_sync does.

#[derive(Clone, Debug, Serialize, Deserialize)]
enum MEv {
    Write { n: u8, key: u8, p: u8, exp: u8 },
    Delete { n: u8, key: u8 },
    HSet { n: u8, key: u8, f: u8, p: u8 },
    /// replication of one key / of everything `from` holds: the receiver's state changes
    /// WITHOUT on_local_write
    Gossip { from: u8, to: u8, key: u8 },
    GossipAll { from: u8, to: u8 },
    /// digest exchange between a and b; `complete`: a divergent verdict at a is followed by the
    /// request / response round trip
    Exchange { a: u8, b: u8, complete: bool },
    Heal { a: u8, b: u8 },
    Tick { ms: u16 },
}

#[derive(Clone, Debug, Serialize, Deserialize)]
struct MCase {
    /// 2 or 3 replicas
    nodes: u8,
    depth: u8,
    limit: u8,
    events: Vec<MEv>,
}

struct MNode {
    st: ShardReplicaState,
    mgr: AntiEntropyManager,
    /// harness model of last_sync_time (time of the last sync request per peer)
    last_req: BTreeMap<u64, u64>,
    /// our own root hash at the last digest exchange with each peer (labels only)
    our_root_at: BTreeMap<u64, u64>,
}

/// The verdict of `process_peer_digest` against the states themselves.
#[allow(clippy::too_many_arguments)]
fn expect_verdict(
    what: &str,
    verdict: &Option<Vec<usize>>,
    ours: &Map,
    theirs: &Map,
    depth: usize,
    ctx: &mut CaseCtx<'_>,
    tol: &mut Tol,
) -> Result<(), String> {
    let (io, it) = (ideal(ours, depth), ideal(theirs, depth));
    let nb = 1usize << depth;
    let div: BTreeSet<usize> = (0..nb).filter(|i| io[*i] != it[*i]).collect();
    let fold_open = ctx.finding_open(KF_FOLD);
    let multi = |i: usize| io[i].len() >= 2 || it[i].len() >= 2;
    if !div.is_empty() {
        ctx.label("verdict_expected:divergent");
        match verdict {
            None => {
                let keys: BTreeSet<&String> = ours.keys().chain(theirs.keys()).collect();
                let client: Vec<&String> = keys
                    .into_iter()
                    .filter(|k| cv(ours.get(*k)) != cv(theirs.get(*k)))
                    .collect();
                return Err(format!(
                    "false 'in sync': {}: process_peer_digest returned None (no sync request is built) although buckets {:?} hold different key digests (depth {}); keys that differ for a client: {:?}",
                    what, div, depth, client
                ));
            }
            Some(v) => {
                for b in &div {
                    if !v.contains(b) {
                        return Err(format!(
                            "{}: process_peer_digest reported buckets {:?} but bucket {} holds different key digests too (depth {})",
                            what, v, b, depth
                        ));
                    }
                }
                for b in v {
                    if !div.contains(b) && !(fold_open && multi(*b) && tol.tolerate(ctx, KF_FOLD)) {
                        return Err(format!(
                            "false 'divergent': {}: process_peer_digest reported bucket {} which holds the same key digests on both sides (depth {})",
                            what, b, depth
                        ));
                    }
                }
            }
        }
    } else {
        ctx.label("verdict_expected:in_sync");
        let keys: BTreeSet<&String> = ours.keys().chain(theirs.keys()).collect();
        for k in keys {
            let (x, y) = (ours.get(k), theirs.get(k));
            if cv(x) != cv(y) {
                match (x, y) {
                    (Some(x), Some(y)) if blind_signature(k, x, y) && tol.tolerate(ctx, KF_BLIND) => {
                        ctx.label("digest_blind_difference");
                    }
                    _ => {
                        return Err(format!(
                            "false 'in sync': {}: key {:?} differs for a client but the two states have equal key digests:\n  ours:   {}\n  theirs: {}",
                            what, k, pv(x), pv(y)
                        ))
                    }
                }
            }
        }
        if let Some(v) = verdict {
            let any_multi = (0..nb).any(multi);
            if !(fold_open && any_multi && tol.tolerate(ctx, KF_FOLD)) {
                return Err(format!(
                    "false 'divergent': {}: process_peer_digest returned {:?} although every bucket holds the same key digests on both sides (depth {})",
                    what, v, depth
                ));
            }
        }
    }
    Ok(())
}

/// Which path through the manager's cached state this digest takes (evidence labels).
fn label_cache_path(node: &MNode, incoming: &StateDigest, our: &StateDigest, ctx: &mut CaseCtx<'_>) -> bool {
    let peer = incoming.replica_id;
    let flagged = node.mgr.divergent_peers.contains(&peer);
    ctx.label(if flagged { "path:peer_flagged_divergent" } else { "path:peer_not_flagged" });
    let our_changed = node
        .our_root_at
        .get(&peer.0)
        .map(|r| *r != our.root_hash)
        .unwrap_or(false);
    match node.mgr.peer_digests.get(&peer) {
        None => {
            ctx.label("path:cache_miss_first_contact");
            false
        }
        Some(k) => {
            let same_gen = k.generation == incoming.generation;
            let same_state = k.root_hash == incoming.root_hash;
            ctx.label(match (same_gen, same_state) {
                (true, true) => "path:cache_hit_same_generation_peer_unchanged",
                (true, false) => "path:cache_hit_same_generation_peer_changed_by_replication",
                (false, true) => "path:cache_hit_generation_advanced_same_state",
                (false, false) => "path:cache_hit_generation_advanced_peer_changed",
            });
            if our_changed {
                ctx.label(if same_state {
                    "path:only_our_side_changed"
                } else {
                    "path:both_sides_changed"
                });
            } else if !same_state {
                ctx.label("path:only_peer_changed");
            } else {
                ctx.label("path:nothing_changed_since_last_exchange");
            }
            true
        }
    }
}

/// `peers_needing_sync` = flagged peers + peers whose last sync request is older than the interval.
fn check_needs_sync(
    what: &str,
    node: &MNode,
    peer: ReplicaId,
    flagged: bool,
    now: u64,
    ctx: &mut CaseCtx<'_>,
) -> Result<(), String> {
    let interval = node.mgr.config.sync_interval_ms;
    let elapsed = node
        .last_req
        .get(&peer.0)
        .map(|t| now - *t >= interval)
        .unwrap_or(false);
    let listed = node.mgr.peers_needing_sync(now).contains(&peer);
    if elapsed {
        ctx.label("needs_sync:interval_elapsed");
    }
    if listed != (flagged || elapsed) {
        return Err(format!(
            "{}: peers_needing_sync({}) {} r{} although the peer is {}flagged divergent and the last sync request was {}",
            what,
            now,
            if listed { "lists" } else { "does not list" },
            peer.0,
            if flagged { "" } else { "not " },
            match node.last_req.get(&peer.0) {
                Some(t) => format!("at {} (interval {})", t, interval),
                None => "never made".to_string(),
            }
        ));
    }
    let never = !node.last_req.contains_key(&peer.0);
    if node.mgr.should_sync(peer, now) != (never || elapsed) {
        return Err(format!(
            "{}: should_sync(r{}, {}) = {} but the last sync request was {:?} (interval {})",
            what,
            peer.0,
            now,
            node.mgr.should_sync(peer, now),
            node.last_req.get(&peer.0),
            interval
        ));
    }
    Ok(())
}

#[allow(clippy::too_many_arguments)]
fn session_exchange(
    nodes: &mut [MNode],
    a: usize,
    b: usize,
    complete: bool,
    now: u64,
    depth: usize,
    limit: usize,
    idx: usize,
    ctx: &mut CaseCtx<'_>,
    tol: &mut Tol,
) -> Result<bool, String> {
    let (ra, rb) = (nodes[a].st.replica_id, nodes[b].st.replica_id);
    let a0 = nodes[a].st.replicated_keys.clone();
    let b0 = nodes[b].st.replicated_keys.clone();
    let da = nodes[a].mgr.generate_digest(&a0);
    let db = nodes[b].mgr.generate_digest(&b0);
    let hit_a = label_cache_path(&nodes[a], &db, &da, ctx);
    let hit_b = label_cache_path(&nodes[b], &da, &db, ctx);
    // the combination a generation-based shortcut would get wrong: the cached digest of the peer
    // has the incoming generation, the peer is not flagged, and the two states differ
    for (node, incoming) in [(&nodes[a], &db), (&nodes[b], &da)] {
        let peer = incoming.replica_id;
        if let Some(k) = node.mgr.peer_digests.get(&peer) {
            if k.generation == incoming.generation
                && !node.mgr.divergent_peers.contains(&peer)
                && da.root_hash != db.root_hash
            {
                ctx.label("path:same_generation_not_flagged_but_states_differ");
            }
        }
    }
    let va = nodes[a].mgr.process_peer_digest(db.clone(), &da);
    let vb = nodes[b].mgr.process_peer_digest(da.clone(), &db);
    nodes[a].our_root_at.insert(rb.0, da.root_hash);
    nodes[b].our_root_at.insert(ra.0, db.root_hash);
    expect_verdict(
        &format!("event #{}: r{} processes the digest of r{}", idx, ra.0, rb.0),
        &va, &a0, &b0, depth, ctx, tol,
    )?;
    expect_verdict(
        &format!("event #{}: r{} processes the digest of r{}", idx, rb.0, ra.0),
        &vb, &b0, &a0, depth, ctx, tol,
    )?;
    check_needs_sync(&format!("event #{}: r{}", idx, ra.0), &nodes[a], rb, va.is_some(), now, ctx)?;
    check_needs_sync(&format!("event #{}: r{}", idx, rb.0), &nodes[b], ra, vb.is_some(), now, ctx)?;
    ctx.add_evaluations(2);
    let buckets = match (&va, complete) {
        (Some(v), true) => v.clone(),
        _ => return Ok(hit_a || hit_b),
    };
    ctx.label("round_trip");

    // request, carried by the manager's own queues
    let req = nodes[a].mgr.create_sync_request(rb, da, Some(buckets.clone()), now);
    nodes[a].last_req.insert(rb.0, now);
    nodes[a].mgr.pending_requests.push(req);
    let mut reqs = nodes[a].mgr.drain_requests();
    if reqs.len() != 1 || !nodes[a].mgr.drain_requests().is_empty() {
        return Err(format!("event #{}: drain_requests returned {} requests for 1 queued (or did not empty the queue)", idx, reqs.len()));
    }
    let req = reqs.pop().unwrap();
    if req.from_replica != ra || req.to_replica != rb || req.requested_buckets.as_deref() != Some(&buckets[..]) {
        return Err(format!("event #{}: create_sync_request built {:?} -> {:?} buckets {:?}, expected r{} -> r{} buckets {:?}", idx, req.from_replica, req.to_replica, req.requested_buckets, ra.0, rb.0, buckets));
    }
    check_needs_sync(&format!("event #{}: r{} after create_sync_request", idx, ra.0), &nodes[a], rb, true, now, ctx)?;

    let resp = nodes[b].mgr.handle_sync_request(req, &b0);
    if resp.deltas.len() > limit {
        return Err(format!("event #{}: handle_sync_request returned {} deltas with max_keys_per_sync = {}", idx, resp.deltas.len(), limit));
    }
    for d in &resp.deltas {
        let bk = bucket_of(&d.key, &d.value, depth);
        if !buckets.contains(&bk) {
            return Err(format!("event #{}: handle_sync_request sent key {:?} of bucket {} which was not requested ({:?})", idx, d.key, bk, buckets));
        }
    }
    // the responder has seen a digest that differs from its own: it must know the peer diverges
    check_needs_sync(&format!("event #{}: responder r{} after handle_sync_request", idx, rb.0), &nodes[b], ra, true, now, ctx)?;
    let push = nodes[a].mgr.get_keys_in_buckets(&a0, &buckets);
    if push.len() > limit {
        return Err(format!("event #{}: get_keys_in_buckets returned {} deltas with max_keys_per_sync = {}", idx, push.len(), limit));
    }
    nodes[b].mgr.pending_responses.push(resp);
    let mut resps = nodes[b].mgr.drain_responses();
    if resps.len() != 1 || !nodes[b].mgr.drain_responses().is_empty() {
        return Err(format!("event #{}: drain_responses returned {} responses for 1 queued (or did not empty the queue)", idx, resps.len()));
    }
    let resp = resps.pop().unwrap();
    for d in resp.deltas {
        nodes[a].st.apply_remote_delta(d);
    }
    // bidirectional: the requester compares its new state with the responder's digest
    let a1 = nodes[a].st.replicated_keys.clone();
    let da1 = nodes[a].mgr.generate_digest(&a1);
    label_cache_path(&nodes[a], &resp.digest, &da1, ctx);
    let v3 = nodes[a].mgr.process_peer_digest(resp.digest, &da1);
    nodes[a].our_root_at.insert(rb.0, da1.root_hash);
    expect_verdict(
        &format!("event #{}: r{} processes the response digest of r{} after applying its deltas", idx, ra.0, rb.0),
        &v3, &a1, &b0, depth, ctx, tol,
    )?;
    check_needs_sync(&format!("event #{}: r{} after the response", idx, ra.0), &nodes[a], rb, v3.is_some(), now, ctx)?;
    for d in push {
        nodes[b].st.apply_remote_delta(d);
    }
    ctx.add_evaluations(2);

    let mut p = plan(&a0, &b0, depth, limit, ctx.finding_open(KF_FOLD));
    p.rounds = 1;
    let liveness = if p.over_limit {
        ctx.label("round_trip:more_keys_than_limit");
        !tol.tolerate(ctx, KF_STUCK)
    } else {
        ctx.label("round_trip:within_limit_merge_asserted");
        true
    };
    check_after_sync(
        &format!("event #{}: manager round trip r{} <-> r{}", idx, ra.0, rb.0),
        &a0, &b0,
        &nodes[a].st.replicated_keys, &nodes[b].st.replicated_keys,
        &p, liveness, depth, limit, ctx, tol,
    )?;
    Ok(true)
}

fn check_session(case: &MCase, ctx: &mut CaseCtx<'_>) -> Result<(), String> {
    let n = if case.nodes % 2 == 0 { 2usize } else { 3 };
    let depth = DEPTHS[case.depth as usize % DEPTHS.len()];
    let limit = LIMITS[case.limit as usize % LIMITS.len()];
    ctx.label(&format!("depth:{}", depth));
    ctx.label(&format!("limit:{}", limit));
    let mut tol = Tol::default();
    let mut nodes: Vec<MNode> = (0..n)
        .map(|i| {
            let rid = ReplicaId::new(i as u64 + 1);
            MNode {
                st: ShardReplicaState::new(rid, ConsistencyLevel::Eventual),
                mgr: AntiEntropyManager::new(
                    rid,
                    AntiEntropyConfig {
                        merkle_tree_depth: depth,
                        max_keys_per_sync: limit,
                        ..AntiEntropyConfig::default()
                    },
                ),
                last_req: BTreeMap::new(),
                our_root_at: BTreeMap::new(),
            }
        })
        .collect();
    let mut now: u64 = 0;
    let mut cached_exchanges = 0usize;
    for (idx, ev) in case.events.iter().enumerate() {
        match ev {
            MEv::Write { n: i, key, p, exp } => {
                let i = *i as usize % n;
                nodes[i].st.record_write(
                    format!("k{}", key % 6),
                    SDS::from_str(PAYLOADS[*p as usize % 4]),
                    EXPIRY[*exp as usize % 3],
                );
                nodes[i].mgr.on_local_write();
            }
            MEv::Delete { n: i, key } => {
                let i = *i as usize % n;
                if nodes[i].st.record_delete(format!("k{}", key % 6)).is_some() {
                    nodes[i].mgr.on_local_write();
                }
            }
            MEv::HSet { n: i, key, f, p } => {
                let i = *i as usize % n;
                nodes[i].st.record_hash_write(
                    format!("k{}", key % 6),
                    vec![(FIELDS[*f as usize % 3].to_string(), SDS::from_str(PAYLOADS[*p as usize % 4]))],
                );
                nodes[i].mgr.on_local_write();
            }
            MEv::Gossip { from, to, key } => {
                let (from, to) = (*from as usize % n, *to as usize % n);
                let k = format!("k{}", key % 6);
                if from != to {
                    if let Some(v) = nodes[from].st.replicated_keys.get(&k).cloned() {
                        let src = nodes[from].st.replica_id;
                        nodes[to].st.apply_remote_delta(ReplicationDelta::new(k, v, src));
                    }
                }
            }
            MEv::GossipAll { from, to } => {
                let (from, to) = (*from as usize % n, *to as usize % n);
                if from != to {
                    let src = nodes[from].st.replica_id;
                    let mut all: Vec<(String, ReplicatedValue)> = nodes[from]
                        .st
                        .replicated_keys
                        .iter()
                        .map(|(k, v)| (k.clone(), v.clone()))
                        .collect();
                    all.sort_by(|x, y| x.0.cmp(&y.0));
                    for (k, v) in all {
                        nodes[to].st.apply_remote_delta(ReplicationDelta::new(k, v, src));
                    }
                }
            }
            MEv::Exchange { a, b, complete } => {
                let (a, b) = (*a as usize % n, *b as usize % n);
                if a != b
                    && session_exchange(&mut nodes, a, b, *complete, now, depth, limit, idx, ctx, &mut tol)?
                {
                    cached_exchanges += 1;
                }
            }
            MEv::Heal { a, b } => {
                let (a, b) = (*a as usize % n, *b as usize % n);
                if a != b {
                    let (ra, rb) = (nodes[a].st.replica_id, nodes[b].st.replica_id);
                    nodes[a].mgr.on_partition_healed(rb);
                    nodes[b].mgr.on_partition_healed(ra);
                    // auto_sync_on_heal (default): flagged, and the last sync time is forgotten
                    nodes[a].last_req.remove(&rb.0);
                    nodes[b].last_req.remove(&ra.0);
                    ctx.label("partition_healed");
                    check_needs_sync(&format!("event #{}: r{} after on_partition_healed", idx, ra.0), &nodes[a], rb, true, now, ctx)?;
                    check_needs_sync(&format!("event #{}: r{} after on_partition_healed", idx, rb.0), &nodes[b], ra, true, now, ctx)?;
                }
            }
            MEv::Tick { ms } => now += *ms as u64,
        }
    }
    // non-trivial: some exchange met a manager that already held a cached digest of the peer
    if cached_exchanges > 0 {
        ctx.nontrivial(&format!("{:?}", case));
    }
    Ok(())
}

fn mev() -> impl Strategy<Value = MEv> {
    let n = || 0u8..3;
    prop_oneof![
        4 => (n(), 0u8..6, 0u8..4, 0u8..3).prop_map(|(n, key, p, exp)| MEv::Write { n, key, p, exp }),
        1 => (n(), 0u8..6).prop_map(|(n, key)| MEv::Delete { n, key }),
        2 => (n(), 0u8..6, 0u8..3, 0u8..4).prop_map(|(n, key, f, p)| MEv::HSet { n, key, f, p }),
        3 => (n(), n(), 0u8..6).prop_map(|(from, to, key)| MEv::Gossip { from, to, key }),
        2 => (n(), n()).prop_map(|(from, to)| MEv::GossipAll { from, to }),
        7 => (n(), n(), prop::bool::weighted(0.6)).prop_map(|(a, b, complete)| MEv::Exchange { a, b, complete }),
        1 => (n(), n()).prop_map(|(a, b)| MEv::Heal { a, b }),
        2 => prop_oneof![Just(0u16), 1u16..600, 900u16..2500].prop_map(|ms| MEv::Tick { ms }),
    ]
}

fn mcase_strategy() -> impl Strategy<Value = MCase> {
    (0u8..2, 0u8..5, 0u8..4, proptest::collection::vec(mev(), 2..28))
        .prop_map(|(nodes, depth, limit, events)| MCase { nodes, depth, limit, events })
}

// ---------------------------------------------------------------------------------------
// sim sessions: long-lived SimulatedNodes through several anti-entropy passes
// ---------------------------------------------------------------------------------------
//
// `sync_sim` builds two fresh nodes, fills them and syncs them: every node digest there is the
// node's FIRST digest, or a digest taken after a pass that already completed everything. A node
// of a running cluster lives on: it takes part in an anti-entropy pass (periodic, or on heal),
// then its state changes — by a local write (`SimulatedNode::execute`), by gossip delivery or
// by the deltas of an earlier anti-entropy exchange (`SimulatedNode::apply_remote_deltas`, no
// local write) — and then it takes part in the next pass with another peer. Whatever the node
// answers with at that point (`SimulatedNode::generate_digest`, which is what
// `run_anti_entropy_sync` compares) must be the digest of its state NOW.
//
// A session is one `MultiNodeSimulation` (2–3 nodes, one depth/limit, generated seed, packet
// loss and auto-sync-on-heal setting) driven through generated events using only its public
// entry points. Oracles (all from the property text):
//   * at every digest observation: the digest a node computes equals the digest an independent
//     replica with equal state computes (fresh manager on an independently built map), and the
//     pair verdict `differs_from` / `divergent_buckets` matches the two states themselves;
//   * after every pair sync between connected nodes (`run_anti_entropy_sync`, or the one
//     `heal_partition` triggers): safety for every key, merge of every key of the divergent
//     buckets where both sides fit the per-round limit;
//   * after `run_full_anti_entropy`: every value is the merge of a set of prior values that
//     includes the node's own; where nothing exceeds the limit the result is exactly that of
//     pairwise merges over the connected pairs (each pair once, any order of the pairs).

#[derive(Clone, Debug, Serialize, Deserialize)]
enum SEv {
    /// local SET through `MultiNodeSimulation::execute` (ex: 0 = no expiry, else EX seconds)
    Set { n: u8, key: u8, p: u8, ex: u8 },
    /// local DEL of one or two keys
    Del { n: u8, key: u8, key2: u8 },
    /// `converge(rounds)`: gossip rounds with the simulation's own delays / loss / partitions
    GossipRounds { rounds: u8 },
    /// one replication message delivered directly (`apply_remote_deltas` of `from`'s value)
    Deliver { from: u8, to: u8, key: u8 },
    Partition { a: u8, b: u8 },
    /// `heal_partition` (runs a pair sync if the pair was partitioned and auto sync is on)
    Heal { a: u8, b: u8, observe: bool },
    /// `run_anti_entropy_sync(a, b)` if the two can communicate
    Sync { a: u8, b: u8, observe: bool },
    /// `run_full_anti_entropy()` (the periodic pass)
    FullSync { observe: bool },
    /// both nodes compute their digest; nothing else happens
    Compare { a: u8, b: u8 },
}

#[derive(Clone, Debug, Serialize, Deserialize)]
struct SCase {
    nodes: u8,
    depth: u8,
    limit: u8,
    seed: u8,
    /// 0: no loss, 1: 30 % loss, 2: 60 % loss
    loss: u8,
    auto_sync_on_heal: bool,
    events: Vec<SEv>,
}

type Ideal = Vec<Vec<(u64, u64, u64)>>;

/// What the harness knows about a node's digest history (labels and the NT rule only; no
/// verdict depends on it).
struct NodeTrack {
    fp: String,
    digested: bool,
    /// sorted key digests per bucket when the node last computed a digest (None: the state
    /// changed inside a multi-pair pass, so the state at its last digest was not observed)
    at_digest: Option<Ideal>,
    local_since: bool,
    remote_since: bool,
    /// changed somewhere between its digests inside a multi-pair pass
    unknown_since: bool,
}

fn node_map(sim: &MultiNodeSimulation, i: usize) -> Map {
    sim.nodes[i].replica_state.replicated_keys.clone()
}

/// Labels the life-cycle class of the digest node `x` is about to compute for a comparison with
/// `peer`; returns true if the node has computed a digest before and its state changed since.
fn label_digest_point(t: &NodeTrack, mine: &Map, peer: &Map, depth: usize, ctx: &mut CaseCtx<'_>) -> bool {
    if !t.digested {
        ctx.label("node_digest:first_of_this_node");
        return false;
    }
    let changed = t.local_since || t.remote_since;
    ctx.label(match (t.local_since, t.remote_since) {
        (false, false) if t.unknown_since => "node_digest:changed_inside_the_last_full_pass_only",
        (false, false) => "node_digest:state_unchanged_since_last_digest",
        (true, false) => "node_digest:changed_by_local_write_only",
        (false, true) => "node_digest:changed_by_remote_apply_only",
        (true, true) => "node_digest:changed_by_local_write_and_remote_apply",
    });
    if let Some(old) = &t.at_digest {
        let (now, p) = (ideal(mine, depth), ideal(peer, depth));
        if *old != now {
            // what answering with the digest of the EARLIER state would do to this comparison
            let class = if *old == p {
                "false_in_sync"
            } else if now == p {
                "false_divergent"
            } else {
                let nb = 1usize << depth;
                let d_old: Vec<usize> = (0..nb).filter(|i| old[*i] != p[*i]).collect();
                let d_now: Vec<usize> = (0..nb).filter(|i| now[*i] != p[*i]).collect();
                if d_old == d_now {
                    "same_buckets"
                } else {
                    "other_buckets"
                }
            };
            ctx.label(&format!("trap:digest_of_earlier_state_would_give:{}", class));
            if !t.local_since && class != "same_buckets" {
                ctx.label("trap:verdict_depends_on_remote_apply_since_last_digest");
            }
        }
    }
    changed
}

/// The digests two live nodes compute, against their states: each must be what an independent
/// replica with equal state computes, and the pair verdict must match the states.
#[allow(clippy::too_many_arguments)]
fn observe_node_digests(
    what: &str,
    sim: &MultiNodeSimulation,
    a: usize,
    b: usize,
    depth: usize,
    ctx: &mut CaseCtx<'_>,
    tol: &mut Tol,
) -> Result<(), String> {
    let (ma, mb) = (node_map(sim, a), node_map(sim, b));
    let (da, db) = (sim.nodes[a].generate_digest(), sim.nodes[b].generate_digest());
    for (i, m, d) in [(a, &ma, &da), (b, &mb, &db)] {
        let twin = copies(m, 2).pop().expect("two copies");
        let dt = digest_of(&twin, 20 + i as u64, depth);
        check_equal_content_digests(
            &format!(
                "{}: the digest node {} computes (SimulatedNode::generate_digest) vs the digest of an independent replica holding the same state",
                what, i
            ),
            m, d, &dt, depth, ctx, tol,
        )?;
    }
    // what run_anti_entropy_sync derives from the two digests
    let verdict = if da.differs_from(&db) {
        Some(da.divergent_buckets(&db))
    } else {
        None
    };
    expect_verdict(
        &format!("{}: digests of node {} and node {} (differs_from / divergent_buckets)", what, a, b),
        &verdict, &ma, &mb, depth, ctx, tol,
    )?;
    ctx.add_evaluations(2);
    Ok(())
}

/// Reference for one pair sync where nothing exceeds the per-round limit: every key of a bucket
/// whose sorted key-digest lists differ ends as the merge on both sides.
fn model_pair_sync(mi: &mut Map, mj: &mut Map, depth: usize) {
    let (ii, ij) = (ideal(mi, depth), ideal(mj, depth));
    let keys: BTreeSet<String> = mi
        .iter()
        .chain(mj.iter())
        .filter(|(k, v)| {
            let b = bucket_of(k, v, depth);
            ii[b] != ij[b]
        })
        .map(|(k, _)| k.clone())
        .collect();
    for k in keys {
        let ni = merge_opt(mi.get(&k), mj.get(&k));
        let nj = merge_opt(mj.get(&k), mi.get(&k));
        if let Some(v) = ni {
            mi.insert(k.clone(), v);
        }
        if let Some(v) = nj {
            mj.insert(k, v);
        }
    }
}

/// All orders of a short list (first: the list itself).
fn permutations<T: Clone>(v: &[T]) -> Vec<Vec<T>> {
    if v.len() <= 1 {
        return vec![v.to_vec()];
    }
    let mut out = Vec::new();
    for i in 0..v.len() {
        let mut rest = v.to_vec();
        let x = rest.remove(i);
        for mut p in permutations(&rest) {
            p.insert(0, x.clone());
            out.push(p);
        }
    }
    out
}

#[allow(clippy::too_many_arguments)]
fn check_full_pass(
    what: &str,
    before: &[Map],
    after: &[Map],
    connected: &[(usize, usize)],
    depth: usize,
    limit: usize,
    ctx: &mut CaseCtx<'_>,
    tol: &mut Tol,
) -> Result<(), String> {
    let n = before.len();
    let all_keys: BTreeSet<&String> = before.iter().chain(after.iter()).flat_map(|m| m.keys()).collect();
    // safety: merge of a set of prior values that includes the node's own
    for i in 0..n {
        for k in &all_keys {
            let now = after[i].get(*k);
            let others: Vec<usize> = (0..n).filter(|j| *j != i).collect();
            let mut explained = false;
            'subsets: for mask in 0..(1usize << others.len()) {
                let sel: Vec<usize> = others
                    .iter()
                    .enumerate()
                    .filter(|(bit, _)| mask & (1 << bit) != 0)
                    .map(|(_, j)| *j)
                    .collect();
                for rev in [false, true] {
                    let mut acc = before[i].get(*k).cloned();
                    let order: Vec<usize> = if rev { sel.iter().rev().copied().collect() } else { sel.clone() };
                    for j in order {
                        acc = merge_opt(acc.as_ref(), before[j].get(*k));
                    }
                    let ok = pv(now) == pv(acc.as_ref())
                        || match (now, &acc) {
                            (Some(x), Some(w)) => same_up_to_c07(x, w, false, ctx, tol).is_none(),
                            _ => false,
                        };
                    if ok {
                        explained = true;
                        break 'subsets;
                    }
                }
            }
            if !explained {
                return Err(format!(
                    "{}: node {} holds for key {:?} a value that is not the merge of its prior value with prior values of other nodes:\n  now:    {}\n  priors: {:?}",
                    what, i, k, pv(now),
                    (0..n).map(|j| pv(before[j].get(*k)).to_string()).collect::<Vec<_>>()
                ));
            }
        }
    }
    // exact result where no round is cut by the limit (and no bucket is falsely divergent): the
    // pass syncs every connected pair once; the order of the pairs is not part of any contract, so
    // the result of ANY order is accepted
    if all_keys.len() <= limit && !ctx.finding_open(KF_FOLD) {
        ctx.label("full_pass:within_limit_exact_result_asserted");
        let mut first_err: Option<String> = None;
        let mut matched = false;
        for order in permutations(connected) {
            let mut model: Vec<Map> = before.to_vec();
            for (i, j) in &order {
                let (lo, hi) = model.split_at_mut(*j);
                model_pair_sync(&mut lo[*i], &mut hi[0], depth);
            }
            let mut err = None;
            'cmp: for i in 0..n {
                for k in &all_keys {
                    let (now, want) = (after[i].get(*k), model[i].get(*k));
                    let ok = pv(now) == pv(want)
                        || match (now, want) {
                            (Some(x), Some(w)) => same_up_to_c07(x, w, false, ctx, tol).is_none(),
                            _ => false,
                        };
                    if !ok {
                        err = Some(format!(
                            "{}: after the pass over the connected pairs {:?} (depth {}, max_keys_per_sync {}, {} keys in all) node {} does not hold for key {:?} what pairwise digest-driven merges over these pairs give (in this or any other order of the pairs):\n  now:      {}\n  expected: {}\n  before:   {}",
                            what, connected, depth, limit, all_keys.len(), i, k, pv(now), pv(want), pv(before[i].get(*k))
                        ));
                        break 'cmp;
                    }
                }
            }
            match err {
                None => {
                    matched = true;
                    break;
                }
                Some(e) => {
                    first_err.get_or_insert(e);
                }
            }
        }
        if !matched {
            return Err(first_err.unwrap_or_else(|| format!("{}: internal: no pair order evaluated", what)));
        }
    } else {
        ctx.label("full_pass:more_keys_than_limit_safety_only");
    }
    Ok(())
}

/// Updates the change flags of node `i` from its current state (`local`: the event was a local
/// write on this node).
fn attribute_change(track: &mut [NodeTrack], sim: &MultiNodeSimulation, i: usize, local: bool) {
    let fp = state_fp(&sim.nodes[i].replica_state.replicated_keys);
    if fp != track[i].fp {
        track[i].fp = fp;
        if local {
            track[i].local_since = true;
        } else {
            track[i].remote_since = true;
        }
    }
}

/// Bookkeeping for the digests nodes `a` and `b` are about to compute for a comparison with
/// each other; returns the life-cycle reach (see `label_digest_point`).
fn digest_point(
    track: &mut [NodeTrack],
    sim: &MultiNodeSimulation,
    a: usize,
    b: usize,
    depth: usize,
    ctx: &mut CaseCtx<'_>,
) -> bool {
    let (ma, mb) = (node_map(sim, a), node_map(sim, b));
    let ra = label_digest_point(&track[a], &ma, &mb, depth, ctx);
    let rb = label_digest_point(&track[b], &mb, &ma, depth, ctx);
    for (i, m) in [(a, &ma), (b, &mb)] {
        track[i].digested = true;
        track[i].at_digest = Some(ideal(m, depth));
        track[i].local_since = false;
        track[i].remote_since = false;
        track[i].unknown_since = false;
    }
    ra || rb
}

fn check_sim_session(case: &SCase, ctx: &mut CaseCtx<'_>) -> Result<(), String> {
    use redis_sim::redis::Command;
    let n = if case.nodes % 4 == 0 { 2usize } else { 3 };
    let depth = DEPTHS[case.depth as usize % DEPTHS.len()];
    let limit = LIMITS[case.limit as usize % LIMITS.len()];
    ctx.label(&format!("depth:{}", depth));
    ctx.label(&format!("limit:{}", limit));
    ctx.label(&format!("nodes:{}", n));
    let mut tol = Tol::default();
    let mut sim = MultiNodeSimulation::new(n, case.seed as u64);
    sim.packet_loss_rate = [0.0, 0.3, 0.6][case.loss as usize % 3];
    sim.auto_anti_entropy = case.auto_sync_on_heal;
    for node in &mut sim.nodes {
        node.anti_entropy.config.merkle_tree_depth = depth;
        node.anti_entropy.config.max_keys_per_sync = limit;
    }
    let mut track: Vec<NodeTrack> = (0..n)
        .map(|i| NodeTrack {
            fp: state_fp(&sim.nodes[i].replica_state.replicated_keys),
            digested: false,
            at_digest: None,
            local_since: false,
            remote_since: false,
            unknown_since: false,
        })
        .collect();
    let key = |k: u8| format!("k{}", k % 6);
    let mut reached = false;

    for (idx, ev) in case.events.iter().enumerate() {
        let mut local_writer: Option<usize> = None;
        match ev {
            SEv::Set { n: i, key: k, p, ex } => {
                let i = *i as usize % n;
                let mut cmd = Command::set(key(*k), SDS::from_str(PAYLOADS[*p as usize % 4]));
                if *ex > 0 {
                    if let Command::Set { ex: e, .. } = &mut cmd {
                        *e = Some(*ex as i64 * 100);
                    }
                }
                sim.execute(0, i, cmd);
                local_writer = Some(i);
            }
            SEv::Del { n: i, key: k, key2 } => {
                let i = *i as usize % n;
                let mut keys = vec![key(*k)];
                if key(*key2) != keys[0] {
                    keys.push(key(*key2));
                }
                sim.execute(0, i, Command::Del(keys));
                local_writer = Some(i);
            }
            SEv::GossipRounds { rounds } => {
                sim.converge(1 + *rounds as usize % 3);
            }
            SEv::Deliver { from, to, key: k } => {
                let (from, to) = (*from as usize % n, *to as usize % n);
                let k = key(*k);
                if from != to && sim.can_communicate(from, to) {
                    if let Some(v) = sim.nodes[from].replica_state.replicated_keys.get(&k).cloned() {
                        let src = sim.nodes[from].replica_id;
                        sim.nodes[to].apply_remote_deltas(vec![ReplicationDelta::new(k, v, src)]);
                    }
                }
            }
            SEv::Partition { a, b } => {
                let (a, b) = (*a as usize % n, *b as usize % n);
                if a != b {
                    sim.partition(a, b);
                    ctx.label("partitioned");
                }
            }
            SEv::Heal { a, b, observe } => {
                let (a, b) = (*a as usize % n, *b as usize % n);
                if a != b {
                    let syncs = !sim.can_communicate(a, b) && case.auto_sync_on_heal;
                    if syncs {
                        ctx.label("pair_sync:by_heal_partition");
                        reached |= sim_pair_sync(&mut sim, &mut track, a, b, true, *observe, depth, limit, idx, ctx, &mut tol)?;
                    } else {
                        ctx.label("heal_without_sync");
                        sim.heal_partition(a, b);
                    }
                }
            }
            SEv::Sync { a, b, observe } => {
                let (a, b) = (*a as usize % n, *b as usize % n);
                if a != b {
                    if sim.can_communicate(a, b) {
                        ctx.label("pair_sync:run_anti_entropy_sync");
                        reached |= sim_pair_sync(&mut sim, &mut track, a, b, false, *observe, depth, limit, idx, ctx, &mut tol)?;
                    } else {
                        ctx.label("pair_sync_skipped:partitioned");
                    }
                }
            }
            SEv::FullSync { observe } => {
                let connected: Vec<(usize, usize)> = (0..n)
                    .flat_map(|i| ((i + 1)..n).map(move |j| (i, j)))
                    .filter(|(i, j)| sim.can_communicate(*i, *j))
                    .collect();
                ctx.label(&format!("full_pass:connected_pairs:{}", connected.len()));
                let before: Vec<Map> = (0..n).map(|i| node_map(&sim, i)).collect();
                // labels: each node's first digest of the pass (against its first peer)
                let mut pairs_of: BTreeMap<usize, usize> = BTreeMap::new();
                for (i, j) in &connected {
                    for (x, y) in [(*i, *j), (*j, *i)] {
                        let c = pairs_of.entry(x).or_insert(0);
                        if *c == 0 {
                            reached |= label_digest_point(&track[x], &before[x], &before[y], depth, ctx);
                        }
                        *c += 1;
                    }
                }
                sim.run_full_anti_entropy();
                let after: Vec<Map> = (0..n).map(|i| node_map(&sim, i)).collect();
                check_full_pass(
                    &format!("event #{}: run_full_anti_entropy", idx),
                    &before, &after, &connected, depth, limit, ctx, &mut tol,
                )?;
                ctx.add_evaluations(connected.len() as u64);
                for (x, cnt) in &pairs_of {
                    let x = *x;
                    let changed = state_fp(&after[x]) != state_fp(&before[x]);
                    track[x].digested = true;
                    track[x].local_since = false;
                    track[x].fp = state_fp(&after[x]);
                    if !changed || *cnt == 1 {
                        // its last digest of the pass was taken on the state before the pass
                        // (one pair), or the pass did not change it
                        track[x].at_digest = Some(ideal(&before[x], depth));
                        track[x].remote_since = changed;
                        track[x].unknown_since = false;
                    } else {
                        // changed somewhere between its digests inside the pass
                        track[x].at_digest = None;
                        track[x].remote_since = false;
                        track[x].unknown_since = true;
                    }
                }
                if *observe {
                    for (i, j) in &connected {
                        digest_point(&mut track, &sim, *i, *j, depth, ctx);
                        observe_node_digests(
                            &format!("event #{}: after run_full_anti_entropy", idx),
                            &sim, *i, *j, depth, ctx, &mut tol,
                        )?;
                    }
                }
            }
            SEv::Compare { a, b } => {
                let (a, b) = (*a as usize % n, *b as usize % n);
                if a != b {
                    ctx.label("digest_comparison_only");
                    reached |= digest_point(&mut track, &sim, a, b, depth, ctx);
                    observe_node_digests(&format!("event #{}", idx), &sim, a, b, depth, ctx, &mut tol)?;
                }
            }
        }
        for i in 0..n {
            attribute_change(&mut track, &sim, i, local_writer == Some(i));
        }
    }
    // non-trivial: a node that had computed a digest before, and whose state changed since,
    // took part in a later digest comparison
    if reached {
        ctx.nontrivial(&format!("{:?}", case));
    }
    Ok(())
}

/// One pair sync through the simulator (`run_anti_entropy_sync`, or `heal_partition` of a
/// partitioned pair) with the pair oracle; returns the life-cycle reach of its two digests.
#[allow(clippy::too_many_arguments)]
fn sim_pair_sync(
    sim: &mut MultiNodeSimulation,
    track: &mut [NodeTrack],
    a: usize,
    b: usize,
    by_heal: bool,
    observe: bool,
    depth: usize,
    limit: usize,
    idx: usize,
    ctx: &mut CaseCtx<'_>,
    tol: &mut Tol,
) -> Result<bool, String> {
    let (a0, b0) = (node_map(sim, a), node_map(sim, b));
    let reach = digest_point(track, sim, a, b, depth, ctx);
    if by_heal {
        sim.heal_partition(a, b);
    } else {
        sim.run_anti_entropy_sync(a, b);
    }
    let (a1, b1) = (node_map(sim, a), node_map(sim, b));
    let mut p = plan(&a0, &b0, depth, limit, ctx.finding_open(KF_FOLD));
    p.rounds = 1;
    let liveness = if p.k0.is_empty() {
        ctx.label("pair_sync:nothing_divergent");
        true
    } else if p.over_limit {
        ctx.label("pair_sync:more_keys_than_limit");
        !tol.tolerate(ctx, KF_STUCK)
    } else {
        ctx.label("pair_sync:within_limit_merge_asserted");
        true
    };
    check_after_sync(
        &format!(
            "event #{}: {} between node {} and node {} (long-lived nodes)",
            idx,
            if by_heal { "heal_partition -> anti-entropy sync" } else { "run_anti_entropy_sync" },
            a, b
        ),
        &a0, &b0, &a1, &b1, &p, liveness, depth, limit, ctx, tol,
    )?;
    ctx.add_evaluations(1);
    attribute_change(track, sim, a, false);
    attribute_change(track, sim, b, false);
    if observe {
        digest_point(track, sim, a, b, depth, ctx);
        observe_node_digests(&format!("event #{}: after the sync", idx), sim, a, b, depth, ctx, tol)?;
    }
    Ok(reach)
}

fn sev() -> impl Strategy<Value = SEv> {
    let n = || 0u8..3;
    prop_oneof![
        5 => (n(), 0u8..6, 0u8..4, prop_oneof![5 => Just(0u8), 1 => 1u8..3])
            .prop_map(|(n, key, p, ex)| SEv::Set { n, key, p, ex }),
        1 => (n(), 0u8..6, 0u8..6).prop_map(|(n, key, key2)| SEv::Del { n, key, key2 }),
        3 => (0u8..3).prop_map(|rounds| SEv::GossipRounds { rounds }),
        2 => (n(), n(), 0u8..6).prop_map(|(from, to, key)| SEv::Deliver { from, to, key }),
        2 => (n(), n()).prop_map(|(a, b)| SEv::Partition { a, b }),
        2 => (n(), n(), prop::bool::weighted(0.3)).prop_map(|(a, b, observe)| SEv::Heal { a, b, observe }),
        4 => (n(), n(), prop::bool::weighted(0.3)).prop_map(|(a, b, observe)| SEv::Sync { a, b, observe }),
        1 => prop::bool::weighted(0.3).prop_map(|observe| SEv::FullSync { observe }),
        3 => (n(), n()).prop_map(|(a, b)| SEv::Compare { a, b }),
    ]
}

fn scase_strategy() -> impl Strategy<Value = SCase> {
    (
        0u8..4,
        0u8..5,
        0u8..4,
        any::<u8>(),
        prop_oneof![3 => Just(0u8), 1 => Just(1u8), 1 => Just(2u8)],
        prop::bool::weighted(0.85),
        proptest::collection::vec(sev(), 2..25),
    )
        .prop_map(|(nodes, depth, limit, seed, loss, auto_sync_on_heal, events)| SCase {
            nodes,
            depth,
            limit,
            seed,
            loss,
            auto_sync_on_heal,
            events,
        })
}

// ---------------------------------------------------------------------------------------
// generators
// ---------------------------------------------------------------------------------------

fn wop() -> impl Strategy<Value = WOp> {
    // most keys have one preferred writer (key % 3), so that equal stamps' replica ids agree
    // on both followers in many cases (KF-C07-01 would otherwise dominate)
    let writer = |key: u8, sel: u8| if sel < 6 { key % 3 } else { sel % 3 };
    prop_oneof![
        6 => (0u8..14, 0u8..8, 0u8..4, 0u8..3)
            .prop_map(move |(key, sel, p, exp)| WOp::Write { w: writer(key, sel), key, p, exp }),
        2 => (0u8..14, 0u8..8).prop_map(move |(key, sel)| WOp::Delete { w: writer(key, sel), key }),
        4 => (0u8..14, 0u8..8, 0u8..3, 0u8..4)
            .prop_map(move |(key, sel, f, p)| WOp::HSet { w: writer(key, sel), key, f, p }),
        1 => (0u8..14, 0u8..8, 0u8..3)
            .prop_map(move |(key, sel, f)| WOp::HDel { w: writer(key, sel), key, f }),
        3 => (0u8..6, 0u8..8, 0u8..3, any::<bool>())
            .prop_map(move |(key, sel, act, stamp)| WOp::Crdt { w: writer(key, sel), key, act, stamp }),
        3 => (0u8..3, 0u8..3, 0u8..NKEYS).prop_map(|(to, from, key)| WOp::Gossip { to, from, key }),
    ]
}

fn case_strategy(sync: bool) -> impl Strategy<Value = Case> {
    let idx = || proptest::collection::vec(any::<u16>(), 0..40);
    // digest pairs: 40 % same deliveries, 30 % one extra, 30 % independent; sync: mostly unequal
    let (w_same, w_one, w_many) = if sync { (1, 3, 8) } else { (4, 3, 3) };
    let extras = prop_oneof![
        w_same => Just((Vec::<u16>::new(), Vec::<u16>::new())),
        w_one => any::<u16>().prop_map(|x| (Vec::new(), vec![x])),
        w_many => (
            proptest::collection::vec(any::<u16>(), 0..20),
            proptest::collection::vec(any::<u16>(), 0..20)
        ),
    ];
    (
        proptest::collection::vec(wop(), 1..48),
        idx(),
        proptest::collection::vec(any::<u16>(), 0..40),
        extras,
        0u8..5,
        0u8..4,
    )
        .prop_map(move |(world, base, perm, (extra_a, extra_b), depth, limit)| Case {
            world,
            base,
            perm,
            extra_a,
            extra_b,
            depth,
            limit: if sync { limit } else { 3 },
        })
}

// ---------------------------------------------------------------------------------------
// probes (deterministic reproducers)
// ---------------------------------------------------------------------------------------

fn lww(s: &str, t: u64, r: u64) -> ReplicatedValue {
    // what a follower stores after receiving `record_write` deltas: built through the real API
    let mut st = ShardReplicaState::new(ReplicaId::new(r), ConsistencyLevel::Eventual);
    let mut last = None;
    for _ in 0..t {
        last = Some(st.record_write("p".to_string(), SDS::from_str(s), None));
    }
    last.expect("t >= 1").value
}

fn probe_fold() -> Option<String> {
    // two keys, one bucket (depth 0), 64 independently built maps
    let mut content: Map = HashMap::new();
    content.insert("k1".into(), lww("x", 1, 1));
    content.insert("k2".into(), lww("y", 2, 1));
    let maps = copies(&content, 64);
    let ds: Vec<StateDigest> = maps.iter().map(|m| digest_of(m, 1, 0)).collect();
    let distinct: BTreeSet<u64> = ds.iter().map(|d| d.root_hash).collect();
    if distinct.len() > 1 {
        let j = ds.iter().position(|d| d.root_hash != ds[0].root_hash).unwrap();
        Some(format!(
            "64 maps holding the same two keys (one bucket) give {} different root hashes; differs_from(map0, map{}) = {}, divergent_buckets = {:?}",
            distinct.len(),
            j,
            ds[0].differs_from(&ds[j]),
            ds[0].divergent_buckets(&ds[j])
        ))
    } else {
        None
    }
}

fn probe_blind(s: &Session) -> Option<String> {
    // r1: HSET k f x ; r2: HSET k g y ; A holds r1's value, B holds r1's value merged with r2's
    let case = Case {
        world: vec![
            WOp::HSet { w: 0, key: 0, f: 0, p: 0 },
            WOp::HSet { w: 1, key: 0, f: 1, p: 1 },
        ],
        base: vec![0],
        perm: vec![],
        extra_a: vec![],
        extra_b: vec![40000],
        depth: 4,
        limit: 3,
    };
    s.strict_eval(|ctx| check_digest_case(&case, ctx)).err()
}

fn probe_stuck() -> Option<String> {
    // A holds three keys of one bucket (depth 0), B nothing; B pulls with max_keys_per_sync = 1.
    // Pull only: A's map is never touched, so the verdict does not depend on iteration order.
    let mut a = follower(10);
    for (i, k) in ["k1", "k2", "k3"].iter().enumerate() {
        a.apply_remote_delta(ReplicationDelta::new(
            k.to_string(),
            lww("v", i as u64 + 1, 1),
            ReplicaId::new(1),
        ));
    }
    let mut b = follower(11);
    let cfg = AntiEntropyConfig {
        merkle_tree_depth: 0,
        max_keys_per_sync: 1,
        ..AntiEntropyConfig::default()
    };
    let mut ma = AntiEntropyManager::new(a.replica_id, cfg.clone());
    let mut mb = AntiEntropyManager::new(b.replica_id, cfg);
    let rounds = 3 + 2;
    let mut sent: Vec<String> = Vec::new();
    for round in 0..rounds {
        let da = ma.generate_digest(&a.replicated_keys);
        let db = mb.generate_digest(&b.replicated_keys);
        let Some(buckets) = mb.process_peer_digest(da, &db) else {
            break;
        };
        let req = mb.create_sync_request(a.replica_id, db, Some(buckets), round as u64);
        let resp = ma.handle_sync_request(req, &a.replicated_keys);
        for d in resp.deltas {
            sent.push(d.key.clone());
            b.apply_remote_delta(d);
        }
    }
    if b.replicated_keys.len() < 3 {
        Some(format!(
            "after {} pull rounds (3 keys in the divergent bucket, max_keys_per_sync 1, bound ceil(3/1)+2) the puller holds {} of 3 keys; keys sent per round: {:?}",
            rounds,
            b.replicated_keys.len(),
            sent
        ))
    } else {
        None
    }
}

fn main() {
    let args = vcore::parse_args();
    let s = Session::new(
        "C18",
        Level::Exploration,
        "a case is one consistent world (<= 47 ops of 3 writers over 20 keys: strings, tombstones, hashes, expiries, G-counters, OR-sets, \
         writer gossip) whose deltas are delivered to two followers A and B: a common list in two different orders plus none / one / several \
         extra deliveries per side; merkle_tree_depth in {0,1,2,4,8}, max_keys_per_sync in {1,2,5,1000}. digest_pairs compares 6 independently \
         built maps per side; sync_* run ceil(keys/limit)+2 rounds. non-trivial = >= 2 keys share a bucket, or the followers received the \
         common deliveries in different orders (sync: and some bucket is divergent); distinct by (depth, limit, peer views of both states)",
        &args,
    );
    s.assume("digest divergence is judged by the harness from sorted KeyDigest lists per bucket (order independent); 64-bit hash collisions are ignored");
    s.assume("followers only apply remote deltas; writers are ShardReplicaState instances driven through record_* and apply_remote_delta; counters/OR-sets through with_crdt + crdt_mut()");
    s.assume("the code under test iterates std HashMaps with per-map RandomState: which keys a limited round carries differs between processes, so liveness is asserted only where it does not depend on that order (all keys of the divergent buckets fit into one round, or the finding about it is closed)");
    s.assume("a 'client-visible difference' is a different vcore::proj::client_view body, or a different expiry on a value that has a body");

    s.probe(KF_FOLD, json!({"keys": {"k1": "x@(1,r1)", "k2": "y@(2,r1)"}, "depth": 0, "maps": 64}), probe_fold);
    s.probe(
        KF_BLIND,
        json!({"world": ["r1: HSET k0 f x", "r2: HSET k0 g y"], "A": "r1's value", "B": "r1's value merged with r2's (same outer stamp (1,r1), fields f and g)"}),
        || probe_blind(&s),
    );
    s.probe(
        KF_STUCK,
        json!({"A": ["k1", "k2", "k3"], "B": [], "depth": 0, "max_keys_per_sync": 1, "rounds": 5}),
        probe_stuck,
    );

    s.describe_check(
        "digest_pairs",
        "equal content => equal digests on independently built maps; different key digests in a bucket => that bucket and the root differ; a client-visible difference must show in the key digest",
    );
    let dreps = if s.is_replay() { 8 } else { 1 };
    s.run_cases("digest_pairs", s.scale(40_000, 3_000_000), || case_strategy(false), |c, ctx| {
        for _ in 0..dreps {
            check_digest_case(c, ctx)?;
        }
        Ok(())
    });

    s.describe_check(
        "sync_direct",
        "process_peer_digest / create_sync_request / handle_sync_request / get_keys_in_buckets driven by hand for ceil(keys/limit)+2 rounds: safety for every key, convergence of the initially divergent buckets, equal digests once the states are equal",
    );
    let reps = if s.is_replay() { 32 } else { 2 };
    s.run_cases("sync_direct", s.scale(30_000, 2_000_000), || case_strategy(true), |c, ctx| {
        check_sync_reps(c, false, reps, ctx)
    });

    s.describe_check(
        "sync_sim",
        "the same through MultiNodeSimulation::run_anti_entropy_sync on two simulated nodes",
    );
    s.run_cases("sync_sim", s.scale(20_000, 1_200_000), || case_strategy(true), |c, ctx| {
        check_sync_reps(c, true, reps, ctx)
    });

    s.describe_check(
        "manager_sessions",
        "2-3 replicas, each with ONE long-lived AntiEntropyManager, through generated event sequences (local writes with on_local_write, replication without it, digest exchanges in both directions, request/response round trips over the manager's queues, partition heal, time): every process_peer_digest verdict against the states themselves, peers_needing_sync/should_sync against flags and times, the round trip against the merge",
    );
    s.run_cases("manager_sessions", s.scale(20_000, 3_000_000), mcase_strategy, check_session);

    s.describe_check(
        "sim_sessions",
        "ONE long-lived MultiNodeSimulation (2-3 SimulatedNodes) through generated event sequences using its public entry points only (execute SET/DEL, gossip rounds with delay/loss, direct apply_remote_deltas, partition, heal_partition, run_anti_entropy_sync, run_full_anti_entropy, digest comparison): every digest a node computes (SimulatedNode::generate_digest) - also its 2nd, 3rd ... after local writes and after state that arrived by replication or by an earlier sync - against the digest of an independent replica with equal state and, pairwise, against the two states; every pair sync against the merge; a full pass against pairwise merges over the connected pairs. non-trivial = a node that had computed a digest before and whose state changed since takes part in a later digest comparison",
    );
    s.run_cases("sim_sessions", s.scale(10_000, 1_500_000), scase_strategy, check_sim_session);

    s.finish();
}
