//! `e2e --property <Cxx> --tier quick|thorough --seed N [--replay FILE]`
//!
//! Runs the process-level sub-checks that serve <Cxx> in a vcore Session named <Cxx>, so VIOLATION
//! lines, replay files and `--replay` work as for every other check. ./check merges the evidence
//! this writes (VERIF_EVIDENCE_DIR) into evidence/<Cxx>.json.

use e2e::{budget, pipeline, proc, restart};
use vcore::{Level, Session};

fn property(args: &vcore::Args) -> String {
    let mut it = args.rest.iter();
    while let Some(a) = it.next() {
        if a == "--property" {
            if let Some(p) = it.next() {
                return p.to_uppercase();
            }
        }
    }
    if let Ok(p) = std::env::var("VERIF_E2E_PROPERTY") {
        if !p.is_empty() {
            return p.to_uppercase();
        }
    }
    if let Some(f) = &args.replay {
        if let Ok(t) = std::fs::read_to_string(f) {
            if let Ok(v) = serde_json::from_str::<serde_json::Value>(&t) {
                if let Some(p) = v["property"].as_str() {
                    return p.to_uppercase();
                }
            }
        }
    }
    vcore::runner::fatal("e2e: --property <C04|C15|C09|C11|C08> (or VERIF_E2E_PROPERTY) is required");
}

fn main() {
    let args = vcore::parse_args();
    let prop = property(&args);
    // at most 8 server processes at a time (run_cases reads VERIF_JOBS)
    let jobs = std::env::var("VERIF_JOBS").ok().and_then(|s| s.parse::<u32>().ok()).unwrap_or(8).clamp(1, 8);
    std::env::set_var("VERIF_JOBS", jobs.to_string());
    let _ = proc::server_binary();

    match prop.as_str() {
        "C04" | "C15" => {
            let s = Session::new(
                &prop,
                Level::Exploration,
                "e2e_pipeline: streams of 1-40 frames (valid data commands, frames the command parser rejects, unknown commands, empty and non-array frames, i64 extremes, values up to 20 KB, optionally one protocol violation or truncated frame last) sent to the real server binary whole, in lock-step and in generated fragments; non-trivial = at least 3 frames and (a split strictly inside a frame, or a rejected frame followed by further frames, or a frame longer than one 8192-byte read); distinct by (stream bytes, split points)",
                &args,
            );
            s.assume("the process tier runs harness/spbin/src/main.rs, a verbatim copy of <repo>/src/bin/server_persistent.rs refreshed before every build, compiled with the harness profile (optimised, debug-assertions and overflow-checks off, panic=unwind) against the same redis-sim build as the other checks");
            s.assume("timing never decides a verdict: missing replies are read off the complete output after a half-close (the connection loop ends at EOF); 10 s timeouts only classify 'no bytes', and a case that hits one is counted inconclusive (exit 2 above 3 %)");
            s.assume("value oracle = a fresh in-process ReplicatedShardedState with the ReplicationConfig the binary builds when replication is off, fed the frames RespCodec yields from the same bytes; replies whose order follows hash-map iteration (KEYS, SMEMBERS, HKEYS, HVALS, HGETALL) are compared as multisets; INFO/TIME/expiry/SCAN/SPOP/RANDOMKEY are not generated");
            s.describe_check("e2e_pipeline", "(i) every output decodes as strict RESP2; (ii) whole, lock-step and fragmented delivery give one reply per frame, the same, in order; a protocol violation gets its error reply right after the earlier replies; (iii) every reply is byte-identical to the canonical encoding of the library's reply for the same parsed command");
            if prop == "C15" {
                let probe = pipeline::probe_case();
                s.probe(pipeline::FINDING_CRLF, serde_json::to_value(&probe).unwrap(), || {
                    s.strict_eval(|ctx| pipeline::check(&probe, ctx)).err()
                });
            }
            s.run_cases("e2e_pipeline", s.scale(40_000, 800_000), pipeline::case_strategy, |case, ctx| {
                budget::guarded(case, 300, 120, || pipeline::check(case, ctx))
            });
            proc::inconclusive_gate(&s);
            s.finish();
        }
        "C09" | "C11" | "C08" => {
            restart::run(&prop, &args);
        }
        other => vcore::runner::fatal(&format!("e2e: no process-level sub-check serves {}", other)),
    }
}

