//! `e2e_pipeline` (serves C04 and C15): one byte stream, three deliveries to the real server
//! binary, an in-process library run as the value oracle.
//!
//! Oracles (notes/E2E.md):
//!  (i)   every output is a sequence of well-formed RESP2 replies (strict decoder);
//!  (ii)  whole / lock-step / fragmented delivery give the same reply sequence: exactly one reply
//!        per frame, in order;
//!  (iii) each reply is byte-identical to the harness' canonical encoding of what the library
//!        answers for the same parsed command (the binary's own `encode_resp_into` /
//!        `encode_error_into` are the code under test).

use crate::client::{short, Conn, ReadErr};
use crate::proc::{self, Server, ServerCfg, StartError};
use bytes::BytesMut;
use proptest::prelude::*;
use proptest::strategy::BoxedStrategy;
use redis_sim::production::ReplicatedShardedState;
use redis_sim::redis::{Command, RespCodec};
use redis_sim::replication::{ConsistencyLevel, ReplicationConfig};
use serde::{Deserialize, Serialize};
use std::cell::RefCell;
use std::sync::atomic::Ordering;
use std::time::Duration;
use vcore::gen::GenOpts;
use vcore::resp::{decode_reply, encode_command, Argv, DecodeError, Reply};
use vcore::CaseCtx;

pub const FINDING_CRLF: &str = "KF-C15-05";

fn b(s: &str) -> Vec<u8> {
    s.as_bytes().to_vec()
}

// ---------------------------------------------------------------------------------------------
// case
// ---------------------------------------------------------------------------------------------

#[derive(Clone, Debug, PartialEq, Eq, Hash, Serialize, Deserialize)]
pub enum Frame {
    /// a command: array of bulk strings
    Cmd(Argv),
    /// a command with one long argument of `len` bytes of `fill` (kept compact in replay files)
    Big { name: u8, key: u8, len: u32, fill: u8 },
    /// a complete RESP value that is not an array of bulk strings (`*0`, `+OK`, `:1`, `$3 foo`, …)
    Raw(Vec<u8>),
    /// `PING <pad>` sized so that the stream up to and including this frame is `target` bytes
    /// long (if that is not reachable from the current offset: `PING x`)
    Pad { target: u32 },
}

#[derive(Clone, Debug, PartialEq, Eq, Hash, Serialize, Deserialize)]
pub enum Cut {
    /// uniform position: fraction of the stream length
    At(u16),
    /// aimed at a place of frame `frame` (fraction of the frame count)
    Aim { frame: u16, kind: u8, sub: u8 },
    /// around a multiple of the server's 8192-byte read buffer
    Read8192 { mult: u8, delta: u8 },
}

#[derive(Clone, Debug, PartialEq, Eq, Hash, Serialize, Deserialize)]
pub struct PipeCase {
    pub frames: Vec<Frame>,
    /// bytes after the last frame: ONE protocol violation, or a truncated frame
    pub tail: Option<Vec<u8>>,
    pub cuts: Vec<Cut>,
    /// additionally cut at every frame end
    pub frame_end_cuts: bool,
}

const BIG_NAMES: &[&str] = &["SET", "APPEND", "ECHO", "PING", "GETSET", "LPUSH", "SETNX", "SADD"];
const BIG_KEYS: &[&str] = &["b0", "b1", "k0"];

fn big_argv(name: u8, key: u8, len: u32, fill: u8) -> Argv {
    let n = BIG_NAMES[name as usize % BIG_NAMES.len()];
    let k = BIG_KEYS[key as usize % BIG_KEYS.len()];
    let v = vec![b'a' + fill % 26; len as usize];
    match n {
        "ECHO" | "PING" => vec![b(n), v],
        _ => vec![b(n), b(k), v],
    }
}

fn pad_frame(offset: usize, target: u32) -> Vec<u8> {
    // *2 CRLF $4 CRLF PING CRLF $<d> CRLF <L bytes> CRLF  = 19 + d + L
    let target = target as usize;
    if target > offset + 21 {
        let r = target - offset;
        for d in 1..=6usize {
            if r < 19 + d + 1 {
                break;
            }
            let l = r - 19 - d;
            if l.to_string().len() == d {
                return encode_command(&[b("PING"), vec![b'p'; l]]);
            }
        }
    }
    encode_command(&[b("PING"), b("x")])
}

pub struct Encoded {
    pub bytes: Vec<u8>,
    /// end offset of every frame (tail excluded)
    pub ends: Vec<usize>,
    /// argv of command frames (for normalising hash-ordered replies)
    pub names: Vec<String>,
    pub frames_len: usize,
}

pub fn encode_case(c: &PipeCase) -> Encoded {
    let mut bytes = Vec::new();
    let mut ends = Vec::new();
    let mut names = Vec::new();
    for f in &c.frames {
        match f {
            Frame::Cmd(a) => {
                bytes.extend_from_slice(&encode_command(a));
                names.push(vcore::gen::cmd_name(a));
            }
            Frame::Big { name, key, len, fill } => {
                let a = big_argv(*name, *key, *len, *fill);
                bytes.extend_from_slice(&encode_command(&a));
                names.push(vcore::gen::cmd_name(&a));
            }
            Frame::Raw(r) => {
                bytes.extend_from_slice(r);
                names.push(String::new());
            }
            Frame::Pad { target } => {
                let p = pad_frame(bytes.len(), *target);
                bytes.extend_from_slice(&p);
                names.push("PING".into());
            }
        }
        ends.push(bytes.len());
    }
    let frames_len = bytes.len();
    if let Some(t) = &c.tail {
        bytes.extend_from_slice(t);
    }
    Encoded { bytes, ends, names, frames_len }
}

fn show_frame(f: &Frame) -> String {
    match f {
        Frame::Cmd(a) => {
            let s = vcore::resp::show_argv(a);
            if s.len() > 160 {
                format!("{}… ({} args)", &s[..s.char_indices().take_while(|(i, _)| *i < 160).last().map(|(i, _)| i).unwrap_or(0)], a.len())
            } else {
                s
            }
        }
        Frame::Big { name, key, len, fill } => {
            let a = big_argv(*name, *key, 0, *fill);
            format!("{} <{} x '{}'>", vcore::resp::show_argv(&a[..a.len() - 1]), len, (b'a' + fill % 26) as char)
        }
        Frame::Raw(r) => format!("raw:{}", vcore::show(r)),
        Frame::Pad { target } => format!("PING <pad to offset {}>", target),
    }
}

/// Split points (strictly inside the stream), sorted, at most 24.
pub fn cut_points(c: &PipeCase, e: &Encoded) -> Vec<usize> {
    let total = e.bytes.len();
    let mut v: Vec<usize> = Vec::new();
    let starts: Vec<usize> = std::iter::once(0).chain(e.ends.iter().copied()).collect();
    for cut in &c.cuts {
        match cut {
            Cut::At(f) => v.push((*f as usize * total) >> 16),
            Cut::Read8192 { mult, delta } => {
                let m = 8192 * (1 + *mult as usize % 3);
                v.push((m + (*delta as usize % 3)).saturating_sub(1));
            }
            Cut::Aim { frame, kind, sub } => {
                if e.ends.is_empty() {
                    continue;
                }
                let fi = (*frame as usize * e.ends.len()) >> 16;
                let (s, en) = (starts[fi], e.ends[fi]);
                let fb = &e.bytes[s..en];
                let crs: Vec<usize> = fb.windows(2).enumerate().filter(|(_, w)| w == b"\r\n").map(|(i, _)| i).collect();
                let p = match kind % 8 {
                    0 => s + 1,
                    1 => crs.first().map(|i| s + i + 1).unwrap_or(s + 1),
                    2 => crs.get(*sub as usize % crs.len().max(1)).map(|i| s + i + 1).unwrap_or(s + 1),
                    3 => s + (en - s) / 2,
                    4 => en - 1,
                    5 => en,
                    6 => s + (*sub as usize % (en - s).max(1)),
                    _ => crs.get(1).map(|i| s + i + 2 + (*sub as usize % 3)).unwrap_or(en - 1),
                };
                v.push(p);
            }
        }
    }
    if c.frame_end_cuts {
        v.extend(e.ends.iter().copied());
    }
    v.retain(|p| *p > 0 && *p < total);
    v.sort();
    v.dedup();
    if v.len() > 24 {
        // keep an evenly spread subset (deterministic)
        let n = v.len();
        v = (0..24).map(|i| v[i * n / 24]).collect();
        v.dedup();
    }
    v
}

// ---------------------------------------------------------------------------------------------
// generator
// ---------------------------------------------------------------------------------------------

/// Same exclusions as props/c04/src/gen.rs: nothing whose reply depends on the wall clock
/// (expiry family) or on hash-map order in a way a multiset comparison cannot absorb
/// (SCAN family, SPOP/RANDOMKEY).
pub fn data_opts() -> GenOpts {
    GenOpts {
        binary_names: false,
        flush: true,
        scan: false,
        random: false,
        two_key: true,
        multi_key: true,
        keys_cmd: true,
        expiry: false,
        floats: true,
        key_pool: 8,
    }
}

fn tame(mut a: Argv) -> Argv {
    let name = vcore::gen::cmd_name(&a);
    if (name == "SETRANGE" || name == "SETBIT" || name == "GETBIT") && a.len() >= 3 {
        if let Ok(s) = std::str::from_utf8(&a[2]) {
            if let Ok(n) = s.parse::<u64>() {
                if n > 4096 {
                    a[2] = b("77");
                }
            }
        }
    }
    a
}

fn recase(mut a: Argv, mode: u8) -> Argv {
    if let Some(n) = a.first_mut() {
        match mode % 4 {
            0 => {}
            1 => n.make_ascii_lowercase(),
            2 => {
                for (i, c) in n.iter_mut().enumerate() {
                    if i % 2 == 1 {
                        c.make_ascii_lowercase();
                    }
                }
            }
            _ => {
                if let Some(c) = n.first_mut() {
                    c.make_ascii_lowercase();
                }
            }
        }
    }
    a
}

fn av(parts: &[&str]) -> Argv {
    parts.iter().map(|s| b(s)).collect()
}

/// Well-formed frames the command parser rejects: wrong arity, missing arguments, non-numeric
/// numbers, unsupported options (some error texts quote the client's bytes).
fn rejected_cmd() -> BoxedStrategy<Argv> {
    let fixed: Vec<Argv> = vec![
        av(&["GET"]),
        av(&["get", "a", "b"]),
        av(&["SET", "k0"]),
        av(&["SET"]),
        av(&["INCR"]),
        av(&["LPUSH", "k0"]),
        av(&["HSET", "k0", "f"]),
        av(&["ZADD", "k0", "1"]),
        av(&["SET", "k0", "v", "EX"]),
        av(&["RENAME", "k0"]),
        av(&["MSET", "k0"]),
        av(&["MSET", "k0", "v", "k1"]),
        av(&["DEL"]),
        av(&["EXISTS"]),
        av(&["MGET"]),
        av(&["INCRBY", "k0", "abc"]),
        av(&["INCRBY", "k0", "1.5"]),
        av(&["INCRBY", "k0", "9223372036854775808"]),
        av(&["DECRBY", "k0", ""]),
        av(&["DECRBY", "k0", " 1"]),
        av(&["LRANGE", "k0", "a", "b"]),
        av(&["LINDEX", "k0", "x"]),
        av(&["GETRANGE", "k0", "0", "z"]),
        av(&["SETRANGE", "k0", "-x", "v"]),
        av(&["HINCRBY", "k0", "f", "x"]),
        av(&["ZADD", "k0", "notafloat", "m"]),
        av(&["LTRIM", "k0", "1", "one"]),
        av(&["SET", "k0", "v", "BOGUS"]),
        av(&["SET", "k0", "v", "NX", "XX"]),
        av(&["CONFIG"]),
        av(&["CONFIG", "GET"]),
        av(&["ACL", "NOSUCH"]),
        av(&["SCRIPT", "NOSUCH"]),
        // error texts that quote client bytes containing CR/LF
        av(&["ACL", "x\r\n+OK"]),
        av(&["SCRIPT", "a\r\nb"]),
        av(&["SET", "k0", "v", "E\r\nX"]),
        av(&["SET", "k0", "v", "\n"]),
        av(&["ZRANGEBYSCORE", "k0", "0", "1", "LI\r\nMIT"]),
        av(&["SCAN", "0", "MA\r\nTCH", "x"]),
    ];
    let n = fixed.len();
    let o = data_opts();
    prop_oneof![
        5 => any::<u16>().prop_map(move |i| fixed[(i as usize * n) >> 16].clone()),
        // a valid command with its last argument dropped
        2 => vcore::gen::data_command(&o).prop_map(|mut a| {
            if a.len() > 1 {
                a.pop();
            }
            tame(a)
        }),
    ]
    .boxed()
}

fn unknown_cmd() -> BoxedStrategy<Argv> {
    prop_oneof![
        3 => Just(av(&["NOSUCHCMD", "x"])),
        2 => Just(av(&["FOO\r\n+BAR"])),
        2 => Just(av(&["nosuch", "a\r\nb", "c"])),
        1 => Just(av(&["GETT", "k0"])),
        1 => Just(av(&["\u{00e9}t\u{00e9}"])),
        1 => Just(vec![b("X"), vec![b'y'; 90]]),
        1 => Just(av(&[""])),
        1 => Just(av(&[" "])),
        1 => Just(av(&["MULTI"])),
        1 => Just(av(&["EXEC"])),
        1 => Just(av(&["ECHO", "hello"])),
    ]
    .boxed()
}

fn raw_frame() -> BoxedStrategy<Vec<u8>> {
    prop_oneof![
        4 => Just(b("*0\r\n")),
        2 => Just(b("+OK\r\n")),
        2 => Just(b(":1\r\n")),
        2 => Just(b("$3\r\nfoo\r\n")),
        1 => Just(b("$-1\r\n")),
        1 => Just(b("*-1\r\n")),
        1 => Just(b("-ERR x\r\n")),
        1 => Just(b("$0\r\n\r\n")),
        1 => Just(b(":-9223372036854775808\r\n")),
        1 => Just(b("*1\r\n*1\r\n$4\r\nPING\r\n")),
        1 => Just(b("*2\r\n:1\r\n$1\r\nx\r\n")),
        1 => Just(b("*2\r\n$3\r\nGET\r\n$-1\r\n")),
        1 => Just(b("*2\r\n$3\r\nGET\r\n+k0\r\n")),
        1 => Just(b("*1\r\n$-1\r\n")),
        1 => Just(b("+\r\n")),
    ]
    .boxed()
}

/// Pieces of several frames: integer replies at the ends of the i64 range.
fn extreme_piece() -> BoxedStrategy<Vec<Frame>> {
    let c = |parts: &[&str]| Frame::Cmd(av(parts));
    prop_oneof![
        2 => (0u8..3).prop_map(move |k| {
            let key = format!("n{}", k);
            vec![Frame::Cmd(av(&["DEL", &key])), Frame::Cmd(av(&["INCRBY", &key, "-9223372036854775808"])), Frame::Cmd(av(&["GET", &key]))]
        }),
        2 => (0u8..3).prop_map(move |k| {
            let key = format!("n{}", k);
            vec![Frame::Cmd(av(&["SET", &key, "-9223372036854775807"])), Frame::Cmd(av(&["DECR", &key])), Frame::Cmd(av(&["DECR", &key]))]
        }),
        1 => Just(vec![c(&["SET", "n0", "9223372036854775806"]), c(&["INCR", "n0"]), c(&["INCR", "n0"])]),
        1 => Just(vec![c(&["DEL", "n1"]), c(&["DECRBY", "n1", "9223372036854775807"]), c(&["DECR", "n1"]), c(&["DECR", "n1"])]),
        1 => Just(vec![c(&["DEL", "h9"]), c(&["HINCRBY", "h9", "f", "-9223372036854775808"]), c(&["HGET", "h9", "f"])]),
        1 => Just(vec![c(&["DEL", "n2"]), c(&["INCRBY", "n2", "9223372036854775807"]), c(&["DECRBY", "n2", "-1"])]),
        1 => Just(vec![c(&["SET", "n0", "-9223372036854775808"]), c(&["INCRBY", "n0", "0"]), c(&["STRLEN", "n0"])]),
    ]
    .boxed()
}

fn big_len() -> BoxedStrategy<u32> {
    prop_oneof![
        3 => prop_oneof![Just(4050u32), Just(4096), Just(8150), Just(8160), Just(8192), Just(8200), Just(16384), Just(20000), Just(12000)],
        3 => 8100u32..8260,
        2 => 4000u32..4200,
        2 => 1u32..20000,
    ]
    .boxed()
}

fn big_piece() -> BoxedStrategy<Vec<Frame>> {
    (0u8..BIG_NAMES.len() as u8, 0u8..BIG_KEYS.len() as u8, big_len(), any::<u8>(), 0u8..4)
        .prop_map(|(name, key, len, fill, follow)| {
            let k = BIG_KEYS[key as usize % BIG_KEYS.len()];
            let mut v = vec![Frame::Big { name, key, len, fill }];
            match follow {
                0 => v.push(Frame::Cmd(av(&["GET", k]))),
                1 => v.push(Frame::Cmd(av(&["STRLEN", k]))),
                2 => {
                    v.push(Frame::Cmd(av(&["GET", k])));
                    v.push(Frame::Cmd(av(&["APPEND", k, "tail"])));
                }
                _ => {}
            }
            v
        })
        .boxed()
}

fn sharded_piece() -> BoxedStrategy<Vec<Frame>> {
    // the coordinator's own multi-key / global arms
    let o = data_opts();
    let k = move || vcore::gen::key(&o);
    prop_oneof![
        2 => proptest::collection::vec((k(), vcore::gen::value()), 1..5).prop_map(|kv| {
            let mut a = vec![b("MSET")];
            for (k, v) in kv {
                a.push(k);
                a.push(v);
            }
            vec![Frame::Cmd(a)]
        }),
        2 => proptest::collection::vec(k(), 1..6).prop_map(|ks| {
            let mut a = vec![b("MGET")];
            a.extend(ks);
            vec![Frame::Cmd(a)]
        }),
        2 => proptest::collection::vec(k(), 2..5).prop_map(|ks| {
            let mut a = vec![b("DEL")];
            a.extend(ks);
            vec![Frame::Cmd(a)]
        }),
        1 => proptest::collection::vec(k(), 2..5).prop_map(|ks| {
            let mut a = vec![b("EXISTS")];
            a.extend(ks);
            vec![Frame::Cmd(a)]
        }),
        2 => Just(vec![Frame::Cmd(av(&["PING"]))]),
        1 => vcore::gen::value().prop_map(|v| vec![Frame::Cmd(vec![b("PING"), v])]),
        1 => Just(vec![Frame::Cmd(av(&["DBSIZE"]))]),
        1 => Just(vec![Frame::Cmd(av(&["KEYS", "*"]))]),
        1 => Just(vec![Frame::Cmd(av(&["FLUSHALL"]))]),
    ]
    .boxed()
}

fn piece() -> BoxedStrategy<Vec<Frame>> {
    let o = data_opts();
    prop_oneof![
        40 => (vcore::gen::data_command(&o), 0u8..16)
            .prop_map(|(a, m)| vec![Frame::Cmd(recase(tame(a), if m < 12 { 0 } else { m }))]),
        8 => rejected_cmd().prop_map(|a| vec![Frame::Cmd(a)]),
        4 => unknown_cmd().prop_map(|a| vec![Frame::Cmd(a)]),
        4 => raw_frame().prop_map(|r| vec![Frame::Raw(r)]),
        3 => extreme_piece(),
        4 => big_piece(),
        8 => sharded_piece(),
        2 => prop_oneof![Just(4095u32), Just(4096), Just(4097), Just(8191), Just(8192), Just(8193), Just(16384), Just(16385)]
            .prop_map(|t| vec![Frame::Pad { target: t }]),
    ]
    .boxed()
}

/// ONE protocol violation (or a truncated frame) to close the stream with.
pub fn tail_bytes() -> BoxedStrategy<Vec<u8>> {
    let fixed: Vec<&[u8]> = vec![
        // bad type byte / inline junk
        b"!3\r\nfoo\r\n",
        b"P",
        b"PING\r\n",
        b"GET k0\r\n",
        b"\r\n",
        b"\n",
        b"hello",
        b"\x00\x01\x02",
        b"{\"json\":1}\r\n",
        b"*2\r\n$3\r\nGET\r\n!1\r\nk\r\n",
        b"*1\r\nX",
        b"\xff\xfe",
        // negative lengths other than -1
        b"$-2\r\n",
        b"*-2\r\n",
        b"*2\r\n$3\r\nGET\r\n$-5\r\n",
        // CR without LF
        b"*1\rX$4\r\nPING\r\n",
        b"*1\r\n$4\rXPING\r\n",
        b"+OK\rX\r\n",
        b":1\r\r\n",
        // non-numeric / out of range numbers
        b"$abc\r\n",
        b"*1x\r\n",
        b":12a\r\n",
        b"$\r\n",
        b"*\r\n",
        b"$99999999999999999999\r\n",
        b"*9223372036854775808\r\n",
        b"*2\r\n$3\r\nGET\r\n$ 2\r\nk0\r\n",
        b"$+\r\n",
        // truncated frames (no violation: the server must stay silent and end at EOF)
        b"*2\r\n$3\r\nGET\r\n$2\r\nk",
        b"$5\r\nab",
        b"*3\r\n",
        b"*1\r\n$4\r\nPING\r",
        b"$1000000\r\nabc",
        b"+OK",
    ];
    let n = fixed.len();
    prop_oneof![
        12 => any::<u16>().prop_map(move |i| fixed[(i as usize * n) >> 16].to_vec()),
        // nesting deeper than the decoder's bound
        1 => (65usize..80).prop_map(|d| {
            let mut v = Vec::new();
            for _ in 0..d {
                v.extend_from_slice(b"*1\r\n");
            }
            v.extend_from_slice(b"$1\r\nx\r\n");
            v
        }),
    ]
    .boxed()
}

fn cut() -> BoxedStrategy<Cut> {
    prop_oneof![
        3 => any::<u16>().prop_map(Cut::At),
        8 => (any::<u16>(), 0u8..8, any::<u8>()).prop_map(|(frame, kind, sub)| Cut::Aim { frame, kind, sub }),
        1 => (0u8..3, 0u8..3).prop_map(|(mult, delta)| Cut::Read8192 { mult, delta }),
    ]
    .boxed()
}

pub fn case_strategy() -> BoxedStrategy<PipeCase> {
    (
        prop_oneof![
            4 => proptest::collection::vec(piece(), 1..7),
            3 => proptest::collection::vec(piece(), 7..16),
            1 => proptest::collection::vec(piece(), 16..36),
        ],
        prop_oneof![5 => Just(None), 2 => tail_bytes().prop_map(Some)],
        proptest::collection::vec(cut(), 1..7),
        prop_oneof![4 => Just(false), 1 => Just(true)],
    )
        .prop_map(|(pieces, tail, cuts, frame_end_cuts)| {
            let mut frames: Vec<Frame> = pieces.into_iter().flatten().collect();
            frames.truncate(40);
            // at most two big frames per stream (cost, and socket buffers stay far from full)
            let mut bigs = 0;
            frames.retain(|f| {
                if matches!(f, Frame::Big { .. }) {
                    bigs += 1;
                    bigs <= 2
                } else {
                    true
                }
            });
            PipeCase { frames, tail, cuts, frame_end_cuts }
        })
        .boxed()
}

// ---------------------------------------------------------------------------------------------
// library reference
// ---------------------------------------------------------------------------------------------

/// The ReplicationConfig `ClusterConfig::to_replication_config` builds when REPLICATION_ENABLED
/// is unset and no POD_NAME / REPLICA_ID is given (the child's environment is cleared).
pub fn binary_replication_config() -> ReplicationConfig {
    ReplicationConfig {
        enabled: false,
        replica_id: 1,
        consistency_level: ConsistencyLevel::Eventual,
        gossip_interval_ms: 1000,
        peers: vec![],
        replication_factor: 3,
        partitioned_mode: false,
        selective_gossip: false,
        virtual_nodes_per_physical: 150,
    }
}

#[derive(Clone, Debug, PartialEq, Eq)]
pub enum TailRef {
    None,
    /// the library decoder reports this protocol error for the tail
    Violation(String),
    /// the tail is an incomplete frame: no reply, the connection ends at EOF
    Truncated,
}

/// What the library answers for the stream: one Reply per frame (command parse errors as the
/// `-ERR <text>` line `encode_error_into` builds), and the classification of the tail.
pub fn reference(stream: &[u8]) -> (Vec<Reply>, TailRef) {
    vcore::block_on(async {
        let state = ReplicatedShardedState::new(binary_replication_config());
        let mut buf = BytesMut::from(stream);
        let mut out = Vec::new();
        let tail;
        loop {
            match RespCodec::parse(&mut buf) {
                Ok(Some(v)) => match Command::from_resp_zero_copy(&v) {
                    Ok(cmd) => {
                        let r = state.execute(cmd).await;
                        out.push(Reply::from_resp(&r));
                    }
                    Err(e) => {
                        let mut t = b"ERR ".to_vec();
                        t.extend_from_slice(e.as_bytes());
                        out.push(Reply::Error(t));
                    }
                },
                Ok(None) => {
                    tail = if buf.is_empty() { TailRef::None } else { TailRef::Truncated };
                    break;
                }
                Err(e) => {
                    tail = TailRef::Violation(e);
                    break;
                }
            }
        }
        (out, tail)
    })
}

fn has_crlf_line(r: &Reply) -> bool {
    match r {
        Reply::Simple(s) | Reply::Error(s) => s.iter().any(|c| *c == b'\r' || *c == b'\n'),
        Reply::Array(a) => a.iter().any(has_crlf_line),
        _ => false,
    }
}

fn sanitised(r: &Reply) -> Reply {
    let fix = |s: &Vec<u8>| s.iter().map(|c| if *c == b'\r' || *c == b'\n' { b' ' } else { *c }).collect::<Vec<u8>>();
    match r {
        Reply::Simple(s) => Reply::Simple(fix(s)),
        Reply::Error(s) => Reply::Error(fix(s)),
        Reply::Array(a) => Reply::Array(a.iter().map(sanitised).collect()),
        o => o.clone(),
    }
}

fn enc(r: &Reply) -> Vec<u8> {
    let mut v = Vec::new();
    r.encode(&mut v);
    v
}

/// 0 ordered, 1 multiset, 2 multiset of pairs (order follows hash-map iteration: two processes differ)
fn unordered_class(name: &str) -> u8 {
    match name {
        "KEYS" | "SMEMBERS" | "HKEYS" | "HVALS" => 1,
        "HGETALL" => 2,
        _ => 0,
    }
}

fn normalise(name: &str, r: &Reply) -> Reply {
    match unordered_class(name) {
        1 => r.sorted(),
        2 => r.sorted_pairs(),
        _ => r.clone(),
    }
}

struct Exp {
    reply: Reply,
    bytes: Vec<u8>,
    /// a status/error line of the expected reply contains CR or LF: the binary's encoders write
    /// it verbatim (finding KF-C15-05), such a reply is not strictly decodable
    crlf: bool,
}

// ---------------------------------------------------------------------------------------------
// server per worker thread
// ---------------------------------------------------------------------------------------------

struct Worker {
    server: Server,
    scratch: std::path::PathBuf,
}

impl Drop for Worker {
    fn drop(&mut self) {
        self.server.kill9();
        proc::remove_scratch(&self.scratch);
    }
}

thread_local! {
    static WORKER_SERVER: RefCell<Option<Worker>> = const { RefCell::new(None) };
}

/// Ok(port) of this thread's live memory-store server (spawned / re-spawned on demand).
fn with_server() -> Result<u16, StartError> {
    WORKER_SERVER.with(|w| {
        let mut w = w.borrow_mut();
        if let Some(wk) = w.as_mut() {
            if wk.server.exited().is_none() {
                return Ok(wk.server.port);
            }
            *w = None;
        }
        let scratch = proc::new_scratch();
        match Server::start(&ServerCfg::memory(), &scratch, "mem") {
            Ok(server) => {
                let port = server.port;
                *w = Some(Worker { server, scratch });
                Ok(port)
            }
            Err(e) => {
                proc::remove_scratch(&scratch);
                Err(e)
            }
        }
    })
}

fn server_died() -> Option<(String, String)> {
    WORKER_SERVER.with(|w| {
        let mut w = w.borrow_mut();
        match w.as_mut() {
            Some(wk) => wk.server.exited().map(|st| (st, wk.server.log_tail())),
            None => None,
        }
    })
}

fn drop_server() {
    WORKER_SERVER.with(|w| *w.borrow_mut() = None);
}

// ---------------------------------------------------------------------------------------------
// deliveries
// ---------------------------------------------------------------------------------------------

struct Delivered {
    out: Vec<u8>,
    /// what happened while reading replies on the fly (diagnostics only)
    notes: Vec<String>,
    /// no verdict possible (timeouts)
    inconclusive: Option<String>,
}

fn fresh_conn(port: u16) -> Result<Conn, String> {
    let mut c = Conn::connect(port)?;
    match c.call(&[b("FLUSHALL")]) {
        Ok(Reply::Simple(s)) if s == b"OK" => Ok(c),
        Ok(other) => Err(format!("FLUSHALL answered {}", other.show())),
        Err(e) => Err(format!("FLUSHALL: {}", e)),
    }
}

fn finish(mut c: Conn, mut d: Delivered) -> Delivered {
    c.shutdown_write();
    match c.read_to_eof() {
        Ok(rest) => d.out.extend_from_slice(&rest),
        Err(ReadErr::Timeout(p)) => {
            d.out.extend_from_slice(&p);
            d.inconclusive = Some("no EOF within 10 s after the half-close".into());
        }
        Err(e) => {
            d.notes.push(format!("reading to EOF: {}", short(&e)));
            d.out.extend_from_slice(&c.take_pending());
        }
    }
    d
}

/// (a) one write of everything (from a helper thread, so that a full socket buffer can never
/// dead-lock the test), half-close, read to EOF.
fn deliver_whole(port: u16, stream: &[u8]) -> Result<Delivered, String> {
    let mut c = fresh_conn(port)?;
    let mut w = c.try_clone_stream().map_err(|e| format!("clone: {}", e))?;
    let mut d = Delivered { out: Vec::new(), notes: Vec::new(), inconclusive: None };
    std::thread::scope(|s| {
        let h = s.spawn(move || {
            use std::io::Write;
            let r = w.write_all(stream);
            let _ = w.shutdown(std::net::Shutdown::Write);
            r
        });
        match c.read_to_eof() {
            Ok(rest) => d.out = rest,
            Err(ReadErr::Timeout(p)) => {
                d.out = p;
                d.inconclusive = Some("no EOF within 10 s after the half-close".into());
            }
            Err(e) => {
                d.notes.push(format!("reading to EOF: {}", short(&e)));
                d.out = c.take_pending();
            }
        }
        if let Ok(Err(e)) = h.join() {
            d.notes.push(format!("write: {}", e));
        }
    });
    Ok(d)
}

fn read_expected(c: &mut Conn, e: &Exp, d: &mut Delivered) -> bool {
    let r = if e.crlf {
        // not strictly decodable: the exact length is known from the expectation; a sanitised
        // line has the same length
        c.read_n(e.bytes.len())
    } else {
        c.read_reply().map(|(_, raw)| raw)
    };
    match r {
        Ok(raw) => {
            d.out.extend_from_slice(&raw);
            true
        }
        Err(err) => {
            d.notes.push(short(&err));
            d.out.extend_from_slice(&c.take_pending());
            false
        }
    }
}

/// (b) one frame per write; exactly one reply is read before the next frame is sent.
fn deliver_lockstep(port: u16, enc: &Encoded, exps: &[Exp]) -> Result<Delivered, String> {
    let mut c = fresh_conn(port)?;
    let mut d = Delivered { out: Vec::new(), notes: Vec::new(), inconclusive: None };
    let mut start = 0usize;
    let mut ok = true;
    for (i, end) in enc.ends.iter().enumerate() {
        if c.send(&enc.bytes[start..*end]).is_err() {
            d.notes.push(format!("write of frame {} failed", i));
            ok = false;
            break;
        }
        start = *end;
        if !read_expected(&mut c, &exps[i], &mut d) {
            ok = false;
            break;
        }
    }
    if ok && start < enc.bytes.len() {
        let _ = c.send(&enc.bytes[start..]);
    } else if !ok && start < enc.bytes.len() {
        // keep going structurally: the rest is sent so that the output is complete at EOF
        let _ = c.send(&enc.bytes[start..]);
    }
    Ok(finish(c, d))
}

/// (c) generated fragments; between fragments all replies to frames that are complete in the
/// bytes sent so far are read (this forces the server to have consumed the fragment). When no
/// further frame is complete a 2 ms pause separates the writes (it only influences which
/// interleaving of reads the kernel produces).
fn deliver_fragments(port: u16, enc: &Encoded, exps: &[Exp], cuts: &[usize]) -> Result<Delivered, String> {
    let mut c = fresh_conn(port)?;
    let mut d = Delivered { out: Vec::new(), notes: Vec::new(), inconclusive: None };
    let mut bounds: Vec<usize> = cuts.to_vec();
    bounds.push(enc.bytes.len());
    let mut sent = 0usize;
    let mut read = 0usize;
    let mut ok = true;
    for bnd in bounds {
        if bnd <= sent {
            continue;
        }
        if c.send(&enc.bytes[sent..bnd]).is_err() {
            d.notes.push(format!("write of bytes {}..{} failed", sent, bnd));
            break;
        }
        sent = bnd;
        let complete = enc.ends.iter().filter(|e| **e <= sent).count();
        if ok && complete > read {
            while read < complete {
                if !read_expected(&mut c, &exps[read], &mut d) {
                    ok = false;
                    break;
                }
                read += 1;
            }
        } else {
            std::thread::sleep(Duration::from_millis(2));
        }
    }
    Ok(finish(c, d))
}

// ---------------------------------------------------------------------------------------------
// oracle
// ---------------------------------------------------------------------------------------------

fn clip(bytes: &[u8]) -> String {
    if bytes.len() > 200 {
        format!("{}… ({} bytes)", vcore::show(&bytes[..200]), bytes.len())
    } else {
        vcore::show(bytes)
    }
}

/// Split one delivery's output into per-frame replies: strict decoding, except where the
/// expectation itself is not strictly decodable (known finding), and check the tail clause.
fn split_output(
    what: &str,
    d: &Delivered,
    case: &PipeCase,
    exps: &[Exp],
    tail: &TailRef,
    tail_exp: Option<&Exp>,
    crlf_tolerated: bool,
) -> Result<Vec<Vec<u8>>, String> {
    let out = &d.out;
    let mut pos = 0usize;
    let mut per = Vec::with_capacity(exps.len());
    let notes = if d.notes.is_empty() { String::new() } else { format!(" [while reading: {}]", d.notes.join("; ")) };
    for (i, e) in exps.iter().enumerate() {
        let rest = &out[pos..];
        if e.crlf {
            let san = enc(&sanitised(&e.reply));
            if rest.starts_with(&e.bytes) {
                if !crlf_tolerated {
                    return Err(format!(
                        "{}: reply {} (to {}) carries CR/LF inside a status/error line, written verbatim by the binary's encoder: {} — a client decodes it as more than one frame / a malformed frame",
                        what, i, show_frame(&case.frames[i]), clip(&e.bytes)
                    ));
                }
                per.push(e.bytes.clone());
                pos += e.bytes.len();
                continue;
            }
            if rest.starts_with(&san) {
                per.push(san.clone());
                pos += san.len();
                continue;
            }
            return Err(format!(
                "{}: reply {} (to {}): expected {} (library reply through the binary's encoder) but the output continues with {}{}",
                what, i, show_frame(&case.frames[i]), clip(&e.bytes), clip(rest), notes
            ));
        }
        match decode_reply(rest) {
            Ok((_, n)) => {
                per.push(rest[..n].to_vec());
                pos += n;
            }
            Err(DecodeError::Incomplete) => {
                return Err(format!(
                    "{}: {} complete repl{} for {} frames: the reply to frame {} ({}) is {} (connection read to EOF after the half-close){}; the library answers {}",
                    what,
                    i,
                    if i == 1 { "y" } else { "ies" },
                    exps.len(),
                    i,
                    show_frame(&case.frames[i]),
                    if rest.is_empty() { "missing".to_string() } else { format!("cut short: {}", clip(rest)) },
                    notes,
                    e.reply.show().chars().take(200).collect::<String>()
                ));
            }
            Err(DecodeError::Malformed(m)) => {
                return Err(format!(
                    "{}: (i) reply {} (to {}) does not decode as RESP2: {}: {}{}; the library answers {}",
                    what,
                    i,
                    show_frame(&case.frames[i]),
                    m,
                    clip(rest),
                    notes,
                    e.reply.show().chars().take(200).collect::<String>()
                ));
            }
        }
    }
    let rest = &out[pos..];
    match tail {
        TailRef::None | TailRef::Truncated => {
            if !rest.is_empty() {
                return Err(format!(
                    "{}: {} bytes of output after the reply to the last frame ({} frames{}): {}{}",
                    what,
                    rest.len(),
                    exps.len(),
                    if *tail == TailRef::Truncated { ", then a truncated frame that must get no reply" } else { "" },
                    clip(rest),
                    notes
                ));
            }
        }
        TailRef::Violation(_) => {
            let te = tail_exp.expect("tail expectation");
            let san = enc(&sanitised(&te.reply));
            if te.crlf && rest.starts_with(&te.bytes) {
                if !crlf_tolerated {
                    return Err(format!(
                        "{}: the error reply to the protocol violation carries a raw CR/LF inside its line: {}",
                        what,
                        clip(&te.bytes)
                    ));
                }
            } else if !(rest.starts_with(&te.bytes) || rest.starts_with(&san)) {
                return Err(format!(
                    "{}: the protocol violation {} after {} frames must be answered with {} right after the earlier replies, but the output continues with {}{}",
                    what,
                    clip(case.tail.as_deref().unwrap_or_default()),
                    exps.len(),
                    clip(&te.bytes),
                    if rest.is_empty() { "nothing (silence)".to_string() } else { clip(rest) },
                    notes
                ));
            }
        }
    }
    Ok(per)
}

fn decoded(raw: &[u8]) -> Option<Reply> {
    match decode_reply(raw) {
        Ok((r, n)) if n == raw.len() => Some(r),
        _ => None,
    }
}

fn same_reply(name: &str, a: &[u8], b2: &[u8]) -> bool {
    if a == b2 {
        return true;
    }
    if unordered_class(name) == 0 {
        return false;
    }
    match (decoded(a), decoded(b2)) {
        (Some(x), Some(y)) => normalise(name, &x) == normalise(name, &y),
        _ => false,
    }
}

/// The property closure of `e2e_pipeline`.
pub fn check(case: &PipeCase, ctx: &mut CaseCtx<'_>) -> Result<(), String> {
    proc::CASES.fetch_add(1, Ordering::Relaxed);
    let enc_case = encode_case(case);
    let n = case.frames.len();

    // library reference
    let (ref_replies, tail) = reference(&enc_case.bytes);
    if ref_replies.len() != n {
        return Err(format!(
            "harness generator invariant broken: {} frames generated but the library decoder yields {} values from the stream (tail {:?})",
            n,
            ref_replies.len(),
            tail
        ));
    }
    match (&case.tail, &tail) {
        (None, TailRef::None) | (Some(_), TailRef::Violation(_)) | (Some(_), TailRef::Truncated) => {}
        (t, r) => {
            return Err(format!("harness generator invariant broken: tail {:?} classified {:?}", t.as_ref().map(|t| vcore::show(t)), r));
        }
    }
    let exps: Vec<Exp> = ref_replies
        .iter()
        .map(|r| Exp { reply: r.clone(), bytes: enc(r), crlf: has_crlf_line(r) })
        .collect();
    let tail_exp = match &tail {
        TailRef::Violation(e) => {
            let mut t = b"ERR protocol error: ".to_vec();
            t.extend_from_slice(e.as_bytes());
            let r = Reply::Error(t);
            Some(Exp { bytes: enc(&r), crlf: has_crlf_line(&r), reply: r })
        }
        _ => None,
    };

    // labels
    let cuts = cut_points(case, &enc_case);
    ctx.label(match n {
        0..=5 => "frames:1-5",
        6..=20 => "frames:6-20",
        _ => "frames:21-40",
    });
    let starts: Vec<usize> = std::iter::once(0).chain(enc_case.ends.iter().copied()).collect();
    let inside = cuts.iter().filter(|c| !starts.contains(c)).count();
    if inside > 0 {
        ctx.label("cut:inside_a_frame");
    }
    if cuts.iter().any(|c| *c >= 1 && enc_case.bytes[*c - 1] == b'\r' && enc_case.bytes.get(*c) == Some(&b'\n')) {
        ctx.label("cut:between_CR_and_LF");
    }
    if cuts.iter().any(|c| enc_case.ends.contains(c)) {
        ctx.label("cut:at_frame_end");
    }
    let mut err_followed = false;
    for (i, r) in ref_replies.iter().enumerate() {
        let is_parse_err = match &case.frames[i] {
            Frame::Raw(_) => true,
            Frame::Cmd(a) => vcore::resp::parse_zc(a).is_err(),
            _ => false,
        };
        if is_parse_err {
            ctx.label("frame:rejected_by_command_parser");
            if i + 1 < n {
                err_followed = true;
            }
        }
        if *r == Reply::Int(i64::MIN) {
            ctx.label("reply:i64_min");
        }
        if matches!(r, Reply::Int(v) if *v == i64::MAX || *v == i64::MIN + 1) {
            ctx.label("reply:i64_extreme");
        }
        if has_crlf_line(r) {
            ctx.label("reply:crlf_in_error_text");
        }
        if matches!(&case.frames[i], Frame::Raw(_)) {
            ctx.label("frame:not_an_array_of_bulks");
        }
        if enc_case.ends[i] - starts[i] > 8192 {
            ctx.label("frame:spans_several_8192_reads");
        }
    }
    if err_followed {
        ctx.label("rejected_frame_followed_by_frames");
    }
    if [4096usize, 8192, 16384].contains(&enc_case.frames_len) || enc_case.ends.iter().any(|e| *e == 8192 || *e == 16384) {
        ctx.label("aim:frame_ends_exactly_at_read_size");
    }
    if [8191usize, 8193, 4095, 4097, 16385].contains(&enc_case.frames_len) {
        ctx.label("aim:stream_length_read_size_pm1");
    }
    match &tail {
        TailRef::Violation(_) => ctx.label("tail:protocol_violation"),
        TailRef::Truncated => ctx.label("tail:truncated_frame"),
        TailRef::None => {}
    }
    let big = enc_case.ends.iter().zip(starts.iter()).any(|(e, s)| e - s > 8192);
    if n >= 3 && (inside > 0 || err_followed || big) {
        ctx.nontrivial(&(vcore::fnv64(&enc_case.bytes), cuts.clone()));
    }

    // the server
    let port = match with_server() {
        Ok(p) => p,
        Err(StartError::ExitedEarly { status, log_tail }) => {
            return Err(format!("the server (memory store, empty state) exited during start-up with {}; log tail:\n{}", status, log_tail));
        }
        Err(StartError::Inconclusive(why)) => {
            proc::INCONCLUSIVE.fetch_add(1, Ordering::Relaxed);
            ctx.label("inconclusive:server_start");
            eprintln!("[e2e] inconclusive: {}", why);
            return Ok(());
        }
    };

    let run = |kind: &str, f: &dyn Fn() -> Result<Delivered, String>| -> Result<Option<Delivered>, String> {
        match f() {
            Ok(d) => Ok(Some(d)),
            Err(setup) => {
                // the connection / FLUSHALL before the delivery failed: if the server died that
                // is an observation, otherwise there is nothing to judge
                if let Some((st, log)) = server_died() {
                    drop_server();
                    return Err(format!("the server process died ({}) before delivery '{}' could start: {}; log tail:\n{}", st, kind, setup, log));
                }
                Err(format!("delivery '{}': set-up on a fresh connection failed although the server is alive: {}", kind, setup))
            }
        }
    };

    // known finding: status/error text with CR/LF is written verbatim (counted once per case)
    let any_crlf = exps.iter().any(|e| e.crlf) || tail_exp.as_ref().map(|e| e.crlf).unwrap_or(false);
    let crlf_tolerated = any_crlf && ctx.tolerate(FINDING_CRLF);

    // the three deliveries; (i) + structure per delivery. After a failure only the cheap
    // lock-step run is still made (for the message): a delivery that waits for replies which
    // never come costs a 10 s timeout each.
    let kinds: [(&str, &str, u8); 3] = [
        ("whole (one write, half-close)", "delivery:whole", 0),
        ("lock-step (one frame per write)", "delivery:lock_step", 1),
        ("fragmented (generated split points)", "delivery:fragmented", 2),
    ];
    let mut per: Vec<(&str, Vec<Vec<u8>>)> = Vec::new();
    let mut first_err: Option<String> = None;
    for (k, label, which) in kinds {
        if first_err.is_some() && which == 2 {
            break;
        }
        let d = match which {
            0 => run(k, &|| deliver_whole(port, &enc_case.bytes))?,
            1 => run(k, &|| deliver_lockstep(port, &enc_case, &exps))?,
            _ => run(k, &|| deliver_fragments(port, &enc_case, &exps, &cuts))?,
        };
        let Some(d) = d else { continue };
        ctx.label(label);
        ctx.add_evaluations(1);
        if let Some((st, log)) = server_died() {
            drop_server();
            return Err(format!("the server process died ({}) while serving this stream (delivery {}); log tail:\n{}", st, k, log));
        }
        if let Some(why) = &d.inconclusive {
            if first_err.is_some() {
                break;
            }
            proc::INCONCLUSIVE.fetch_add(1, Ordering::Relaxed);
            ctx.label("inconclusive:no_eof");
            eprintln!("[e2e] inconclusive: delivery {}: {}", k, why);
            drop_server();
            return Ok(());
        }
        match split_output(k, &d, case, &exps, &tail, tail_exp.as_ref(), crlf_tolerated) {
            Ok(p) => per.push((k, p)),
            Err(e) => {
                if first_err.is_none() {
                    first_err = Some(e);
                }
            }
        }
    }
    if let Some(e) = first_err {
        // say how the other deliveries fared: "depends on fragmentation" is the C04/C15 point
        let others: Vec<String> = per.iter().map(|(k, p)| format!("{}: {} replies, all well-formed", k, p.len())).collect();
        return Err(format!("{}\n  other deliveries of the same bytes — {}\n  stream ({} bytes, {} frames): {}", e, if others.is_empty() { "none complete".to_string() } else { others.join("; ") }, enc_case.bytes.len(), n, case.frames.iter().take(12).map(show_frame).collect::<Vec<_>>().join(" | ")));
    }

    // (ii) same replies whatever the delivery
    for w in per.windows(2) {
        let (ka, a) = &w[0];
        let (kb, bb) = &w[1];
        for i in 0..n {
            if !same_reply(&enc_case.names[i], &a[i], &bb[i]) {
                return Err(format!(
                    "(ii) reply {} (to {}) depends on how the bytes were delivered: {} gave {}, {} gave {}",
                    i,
                    show_frame(&case.frames[i]),
                    ka,
                    clip(&a[i]),
                    kb,
                    clip(&bb[i])
                ));
            }
        }
    }

    // (iii) byte-identical to the canonical encoding of the library's reply
    for (k, p) in &per {
        for i in 0..n {
            if exps[i].crlf {
                continue; // compared byte for byte in split_output
            }
            if !same_reply(&enc_case.names[i], &p[i], &exps[i].bytes) {
                return Err(format!(
                    "(iii) {}: reply {} (to {}) is {} but the library answers {} for the same parsed command (canonical encoding {})",
                    k,
                    i,
                    show_frame(&case.frames[i]),
                    clip(&p[i]),
                    exps[i].reply.show().chars().take(300).collect::<String>(),
                    clip(&exps[i].bytes)
                ));
            }
        }
    }
    Ok(())
}

/// Minimal reproducer of KF-C15-05 through the same closure (strict mode = nothing tolerated).
pub fn probe_case() -> PipeCase {
    PipeCase {
        frames: vec![Frame::Cmd(av(&["ACL", "x\r\n+OK"])), Frame::Cmd(av(&["PING"]))],
        tail: None,
        cuts: vec![Cut::At(30000)],
        frame_end_cuts: false,
    }
}
