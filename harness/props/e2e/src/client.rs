//! Blocking RESP client used by the e2e sub-checks. Timeouts (10 s) only classify "no bytes
//! arrived"; verdicts about missing replies are drawn from the complete output after a
//! half-close (the server's connection loop ends at EOF, so what it wrote until then is all).

use crate::proc::IO_TIMEOUT;
use std::io::{Read, Write};
use std::net::{Shutdown, TcpStream};
use std::time::Duration;
use vcore::resp::{decode_reply, DecodeError, Reply};

pub struct Conn {
    s: TcpStream,
    /// bytes received but not yet handed out
    buf: Vec<u8>,
    pub eof: bool,
}

#[derive(Debug)]
pub enum ReadErr {
    /// the peer closed; `Vec` = bytes that were pending (an incomplete reply)
    Eof(Vec<u8>),
    /// nothing arrived within IO_TIMEOUT
    Timeout(Vec<u8>),
    /// the pending bytes can never become a well-formed reply
    Malformed(String, Vec<u8>),
    Io(String),
}

impl Conn {
    pub fn connect(port: u16) -> Result<Conn, String> {
        let s = TcpStream::connect_timeout(&([127, 0, 0, 1], port).into(), Duration::from_secs(5))
            .map_err(|e| format!("connect to port {}: {}", port, e))?;
        let _ = s.set_nodelay(true);
        let _ = s.set_read_timeout(Some(IO_TIMEOUT));
        let _ = s.set_write_timeout(Some(IO_TIMEOUT));
        Ok(Conn { s, buf: Vec::new(), eof: false })
    }

    pub fn try_clone_stream(&self) -> std::io::Result<TcpStream> {
        self.s.try_clone()
    }

    pub fn send(&mut self, bytes: &[u8]) -> Result<(), String> {
        self.s.write_all(bytes).map_err(|e| format!("write: {}", e))
    }

    pub fn shutdown_write(&mut self) {
        let _ = self.s.shutdown(Shutdown::Write);
    }

    /// One read() into the pending buffer. Ok(0) = EOF.
    fn fill(&mut self) -> Result<usize, ReadErr> {
        let mut tmp = [0u8; 16384];
        loop {
            match self.s.read(&mut tmp) {
                Ok(0) => {
                    self.eof = true;
                    return Ok(0);
                }
                Ok(n) => {
                    self.buf.extend_from_slice(&tmp[..n]);
                    return Ok(n);
                }
                Err(e) if e.kind() == std::io::ErrorKind::Interrupted => continue,
                Err(e) if matches!(e.kind(), std::io::ErrorKind::WouldBlock | std::io::ErrorKind::TimedOut) => {
                    return Err(ReadErr::Timeout(self.buf.clone()));
                }
                Err(e) if e.kind() == std::io::ErrorKind::ConnectionReset => {
                    // the server closed while unread input was pending on its side: for the
                    // reader this is the end of the output
                    self.eof = true;
                    return Ok(0);
                }
                Err(e) => return Err(ReadErr::Io(e.to_string())),
            }
        }
    }

    /// Exactly one reply, decoded by the strict RESP2 decoder; returns the reply and its bytes.
    pub fn read_reply(&mut self) -> Result<(Reply, Vec<u8>), ReadErr> {
        loop {
            match decode_reply(&self.buf) {
                Ok((r, n)) => {
                    let raw: Vec<u8> = self.buf.drain(..n).collect();
                    return Ok((r, raw));
                }
                Err(DecodeError::Malformed(m)) => return Err(ReadErr::Malformed(m, self.buf.clone())),
                Err(DecodeError::Incomplete) => {}
            }
            if self.eof {
                return Err(ReadErr::Eof(self.buf.clone()));
            }
            if self.fill()? == 0 {
                return Err(ReadErr::Eof(self.buf.clone()));
            }
        }
    }

    /// Exactly `n` bytes (used where the expected reply is known not to be strictly decodable).
    pub fn read_n(&mut self, n: usize) -> Result<Vec<u8>, ReadErr> {
        while self.buf.len() < n {
            if self.eof || self.fill()? == 0 {
                return Err(ReadErr::Eof(self.buf.clone()));
            }
        }
        Ok(self.buf.drain(..n).collect())
    }

    /// Everything until the peer closes (pending bytes included).
    pub fn read_to_eof(&mut self) -> Result<Vec<u8>, ReadErr> {
        while !self.eof {
            self.fill()?;
        }
        Ok(std::mem::take(&mut self.buf))
    }

    /// Pending bytes that were received but not consumed.
    pub fn take_pending(&mut self) -> Vec<u8> {
        std::mem::take(&mut self.buf)
    }

    /// Send one command and read its reply (lock-step).
    pub fn call(&mut self, argv: &[Vec<u8>]) -> Result<Reply, String> {
        self.send(&vcore::resp::encode_command(argv))?;
        match self.read_reply() {
            Ok((r, _)) => Ok(r),
            Err(e) => Err(format!("reading the reply to {}: {:?}", vcore::resp::show_argv(argv), short(&e))),
        }
    }
}

pub fn short(e: &ReadErr) -> String {
    match e {
        ReadErr::Eof(p) => format!("connection closed by the server ({} pending bytes: {})", p.len(), vcore::show(&p[..p.len().min(80)])),
        ReadErr::Timeout(p) => format!("no bytes for {:?} ({} pending bytes)", IO_TIMEOUT, p.len()),
        ReadErr::Malformed(m, p) => format!("malformed reply ({}): {}", m, vcore::show(&p[..p.len().min(120)])),
        ReadErr::Io(m) => format!("io error: {}", m),
    }
}
