//! `e2e_restart` (serves C09, C11, C08): 2–3 process lifetimes of the real server binary over ONE
//! pair of directories (localfs data dir + WAL dir); each lifetime runs the binary's own start-up
//! sequence (integration.recover → WAL replay → start_workers/set_delta_sink →
//! spawn_wal_actor/set_wal_handle), then acknowledged writes in lock-step, optionally an
//! unacknowledged pipelined tail, then SIGKILL or SIGINT.
//!
//! Model = plain per-key Redis semantics of the few command shapes used (strings and hashes),
//! advanced only by ACKNOWLEDGED commands; every reply is compared with the model's (a difference
//! means the model does not describe this tree: the run is then inconclusive, not a verdict).
//!
//! Oracle after every restart (every key of the pool read through GET / HGETALL / EXISTS):
//!  * guaranteed end (fsync=always and any end, or SIGINT and any configuration): the served value
//!    equals the model's; for keys touched by the unacknowledged tail: the value after SOME prefix
//!    of the tail (C09: nothing acknowledged is lost, nothing older comes back; C11: recovery =
//!    everything persisted; C08: a write made after a restart beats the recovered value at the
//!    next recovery);
//!  * not guaranteed (SIGKILL with everysec / no / WAL off): only "no invented value": a string
//!    equals one of the values the key had during the lifetime, a hash field likewise;
//!  * the start-up itself must succeed on intact files.

use crate::client::Conn;
use crate::proc::{self, Server, ServerCfg, StartError};
use proptest::prelude::*;
use proptest::strategy::BoxedStrategy;
use serde::{Deserialize, Serialize};
use std::collections::{BTreeMap, BTreeSet};
use std::path::Path;
use std::sync::atomic::{AtomicU64, Ordering};
use std::time::Duration;
use vcore::resp::{Argv, Reply};
use vcore::{CaseCtx, Level, Session};

pub static DIVERGED: AtomicU64 = AtomicU64::new(0);

fn b(s: &str) -> Vec<u8> {
    s.as_bytes().to_vec()
}

// ---------------------------------------------------------------------------------------------
// key / value pools
// ---------------------------------------------------------------------------------------------

pub const STR_KEYS: &[&str] = &[
    "s0",
    "s1",
    "s2",
    "s3",
    "s4",
    "s5",
    "key with space",
    "\u{043a}\u{043b}\u{044e}\u{0447}",
    "a-much-longer-key-name-that-exceeds-the-small-string-boundary-0123456789-0123456789",
    "n0",
    "n1",
];
pub const HASH_KEYS: &[&str] = &["h0", "h1", "h2"];
pub const FIELDS: &[&str] = &["f0", "f1", "f2", "field three"];

fn key_name(k: u8) -> &'static str {
    let n = STR_KEYS.len() + HASH_KEYS.len();
    let i = (k as usize * n) >> 8;
    if i < STR_KEYS.len() {
        STR_KEYS[i]
    } else {
        HASH_KEYS[i - STR_KEYS.len()]
    }
}
fn is_hash_pool(key: &str) -> bool {
    HASH_KEYS.contains(&key)
}
fn all_keys() -> Vec<&'static str> {
    STR_KEYS.iter().chain(HASH_KEYS.iter()).copied().collect()
}
fn field_name(f: u8) -> &'static str {
    FIELDS[(f as usize * FIELDS.len()) >> 8]
}

/// The shard the binary's coordinator routes a key to (`DefaultHasher::new()`, 16 shards) —
/// used for labels only.
fn shard_of(key: &str) -> usize {
    use std::hash::{Hash, Hasher};
    let mut h = std::collections::hash_map::DefaultHasher::new();
    key.hash(&mut h);
    (h.finish() as usize) % 16
}

#[derive(Clone, Debug, PartialEq, Eq, Hash, Serialize, Deserialize)]
pub enum V {
    /// a token that is unique enough to tell every write from every other: `v<id>`
    Tok(u16),
    Lit(Vec<u8>),
    /// `len` bytes of `fill` followed by the token id (big values stay compact in replay files)
    Rep { len: u16, fill: u8, id: u16 },
}

impl V {
    fn bytes(&self) -> Vec<u8> {
        match self {
            V::Tok(i) => format!("v{}", i).into_bytes(),
            V::Lit(l) => l.clone(),
            V::Rep { len, fill, id } => {
                let mut v = vec![b'a' + fill % 26; *len as usize];
                v.extend_from_slice(format!("#{}", id).as_bytes());
                v
            }
        }
    }
}

#[derive(Clone, Debug, PartialEq, Eq, Hash, Serialize, Deserialize)]
pub enum Op {
    /// mode 0 plain, 1 NX, 2 XX
    Set { k: u8, v: V, mode: u8 },
    Del { ks: Vec<u8> },
    Append { k: u8, v: V },
    Incr { k: u8 },
    Decr { k: u8 },
    IncrBy { k: u8, n: i64 },
    GetSet { k: u8, v: V },
    MSet { kv: Vec<(u8, V)> },
    HSet { k: u8, fv: Vec<(u8, V)> },
    HDel { k: u8, fs: Vec<u8> },
    /// `n` plain SETs of fresh tokens on one key: raises the stamp of the key (and the clock of
    /// its shard) far above what a restarted node starts with
    Burst { k: u8, n: u8, base: u16 },
}

#[derive(Clone, Debug, PartialEq, Eq, Hash, Serialize, Deserialize)]
pub enum End {
    /// SIGKILL
    Crash,
    /// SIGINT, wait for the exit
    Graceful,
}

#[derive(Clone, Debug, PartialEq, Eq, Hash, Serialize, Deserialize)]
pub struct Lifetime {
    /// (connection 0/1, command), executed in lock-step
    pub ops: Vec<(u8, Op)>,
    /// sent in ONE write without reading any reply, right before the end
    pub tail: Vec<Op>,
    /// pause between the tail and the end, in units of 200 µs (changes which prefix of the tail
    /// the server got through, never the verdict)
    pub tail_pause: u8,
    pub end: End,
    /// after a graceful end with the WAL off: fold everything persisted into a checkpoint
    /// (library CheckpointWriter + Manifest::compact_segments), so that the next start-up recovers
    /// through the checkpoint path
    pub plant_checkpoint: bool,
}

#[derive(Clone, Debug, PartialEq, Eq, Hash, Serialize, Deserialize)]
pub struct RestartCase {
    /// 0 WAL always, 1 WAL everysec, 2 WAL no, 3 WAL disabled
    pub fsync: u8,
    pub lifetimes: Vec<Lifetime>,
}

// ---------------------------------------------------------------------------------------------
// generator
// ---------------------------------------------------------------------------------------------

fn str_key() -> BoxedStrategy<u8> {
    // indices that map into the string pool
    let n = STR_KEYS.len() + HASH_KEYS.len();
    (0..STR_KEYS.len()).prop_map(move |i| ((i * 256 + 255) / n).min(255) as u8).boxed()
}
fn hash_key() -> BoxedStrategy<u8> {
    let n = STR_KEYS.len() + HASH_KEYS.len();
    (STR_KEYS.len()..n).prop_map(move |i| ((i * 256 + 255) / n).min(255) as u8).boxed()
}
fn any_key() -> BoxedStrategy<u8> {
    // mostly of the right pool; 1 in 30 from the other pool (cross-type shapes: only run when the
    // finding that covers them is fixed)
    any::<u8>().boxed()
}

fn val() -> BoxedStrategy<V> {
    prop_oneof![
        12 => any::<u16>().prop_map(V::Tok),
        1 => Just(V::Lit(vec![])),
        1 => Just(V::Lit(b("10"))),
        1 => Just(V::Lit(b("-5"))),
        1 => Just(V::Lit(b("0"))),
        1 => Just(V::Lit(b("9223372036854775806"))),
        1 => Just(V::Lit(b("with\r\nnewline"))),
        1 => Just(V::Lit(vec![0x00, 0xff, 0x80, 0x0d, 0x0a])),
        2 => (4990u16..5010, any::<u8>(), any::<u16>()).prop_map(|(len, fill, id)| V::Rep { len, fill, id }),
    ]
    .boxed()
}

fn dedup_by_key<T: Clone>(v: Vec<(u8, T)>, name: fn(u8) -> &'static str) -> Vec<(u8, T)> {
    let mut seen = BTreeSet::new();
    v.into_iter().filter(|(k, _)| seen.insert(name(*k))).collect()
}

fn op() -> BoxedStrategy<Op> {
    let sk = || prop_oneof![29 => str_key(), 1 => hash_key()];
    let hk = || prop_oneof![29 => hash_key(), 1 => str_key()];
    let _ = any_key;
    prop_oneof![
        10 => (sk(), val(), prop_oneof![6 => Just(0u8), 2 => Just(1u8), 2 => Just(2u8)]).prop_map(|(k, v, mode)| Op::Set { k, v, mode }),
        4 => proptest::collection::vec(prop_oneof![14 => str_key(), 1 => hash_key()], 1..3).prop_map(|ks| {
            let mut seen = BTreeSet::new();
            Op::Del { ks: ks.into_iter().filter(|k| seen.insert(key_name(*k))).collect() }
        }),
        3 => (sk(), val()).prop_map(|(k, v)| Op::Append { k, v }),
        3 => sk().prop_map(|k| Op::Incr { k }),
        1 => sk().prop_map(|k| Op::Decr { k }),
        2 => (sk(), prop_oneof![4 => -20i64..20, 1 => Just(i64::MAX), 1 => Just(i64::MIN)]).prop_map(|(k, n)| Op::IncrBy { k, n }),
        1 => (sk(), val()).prop_map(|(k, v)| Op::GetSet { k, v }),
        3 => proptest::collection::vec((str_key(), val()), 1..4).prop_map(|kv| Op::MSet { kv: dedup_by_key(kv, key_name) }),
        6 => (hk(), proptest::collection::vec((any::<u8>(), val()), 1..4)).prop_map(|(k, fv)| Op::HSet { k, fv: dedup_by_key(fv, field_name) }),
        3 => (hk(), proptest::collection::vec(any::<u8>(), 1..3)).prop_map(|(k, fs)| {
            let mut seen = BTreeSet::new();
            Op::HDel { k, fs: fs.into_iter().filter(|f| seen.insert(field_name(*f))).collect() }
        }),
    ]
    .boxed()
}

/// Tail commands: shapes whose being excluded or not does not depend on uncertain state.
fn tail_op() -> BoxedStrategy<Op> {
    prop_oneof![
        5 => (str_key(), val()).prop_map(|(k, v)| Op::Set { k, v, mode: 0 }),
        2 => (str_key(), val()).prop_map(|(k, v)| Op::Append { k, v }),
        2 => str_key().prop_map(|k| Op::Incr { k }),
        1 => proptest::collection::vec(str_key(), 1..3).prop_map(|ks| {
            let mut seen = BTreeSet::new();
            Op::Del { ks: ks.into_iter().filter(|k| seen.insert(key_name(*k))).collect() }
        }),
        2 => proptest::collection::vec((str_key(), val()), 1..4).prop_map(|kv| Op::MSet { kv: dedup_by_key(kv, key_name) }),
        3 => (hash_key(), proptest::collection::vec((any::<u8>(), val()), 1..3)).prop_map(|(k, fv)| Op::HSet { k, fv: dedup_by_key(fv, field_name) }),
        1 => (hash_key(), any::<u8>()).prop_map(|(k, f)| Op::HDel { k, fs: vec![f] }),
    ]
    .boxed()
}

fn end(crash_w: u32, graceful_w: u32) -> BoxedStrategy<End> {
    prop_oneof![crash_w => Just(End::Crash), graceful_w => Just(End::Graceful)].boxed()
}

fn lifetime(max_ops: usize, crash_w: u32, graceful_w: u32) -> BoxedStrategy<Lifetime> {
    (
        proptest::collection::vec((prop_oneof![3 => Just(0u8), 1 => Just(1u8)], op()), 1..max_ops),
        prop_oneof![3 => Just(vec![]), 2 => proptest::collection::vec(tail_op(), 1..6)],
        prop_oneof![3 => Just(0u8), 1 => Just(1u8), 1 => Just(5u8), 1 => Just(25u8)],
        end(crash_w, graceful_w),
        prop_oneof![1 => Just(false), 1 => Just(true)],
    )
        .prop_map(|(ops, tail, tail_pause, end, plant_checkpoint)| Lifetime { ops, tail, tail_pause, end, plant_checkpoint })
        .boxed()
}

/// Generic histories (C09 / C11 focus decided by the weights).
fn generic_case(always_w: u32, other_w: u32, crash_w: u32, graceful_w: u32) -> BoxedStrategy<RestartCase> {
    (
        prop_oneof![always_w => Just(0u8), other_w => prop_oneof![Just(1u8), Just(2u8), Just(3u8)]],
        prop_oneof![
            3 => proptest::collection::vec(lifetime(14, crash_w, graceful_w), 2..=2),
            2 => proptest::collection::vec(lifetime(10, crash_w, graceful_w), 3..=3),
        ],
    )
        .prop_map(|(fsync, lifetimes)| RestartCase { fsync, lifetimes })
        .boxed()
}

/// C08 shape: a key written MANY times in lifetime 1 (high stamp), recovered, overwritten or
/// deleted exactly once in lifetime 2, served again by lifetime 3.
fn hot_key_case() -> BoxedStrategy<RestartCase> {
    (
        prop_oneof![3 => Just(0u8), 1 => Just(1u8), 2 => Just(3u8)],
        str_key(),
        5u8..40,
        any::<u16>(),
        proptest::collection::vec((Just(0u8), op()), 0..5),
        prop_oneof![
            4 => val().prop_map(|v| (0u8, v)),
            2 => Just((1u8, V::Tok(0))),
            2 => val().prop_map(|v| (2u8, v)),
            1 => Just((3u8, V::Tok(0))),
        ],
        proptest::collection::vec((Just(0u8), op()), 0..4),
        end(2, 1),
        end(1, 1),
        any::<bool>(),
        proptest::collection::vec(lifetime(6, 1, 1), 0..=1),
    )
        .prop_map(|(fsync, k, n, base, extra1, (how, v), extra2, e1, e2, plant, more)| {
            let mut l1: Vec<(u8, Op)> = vec![(0, Op::Burst { k, n, base })];
            l1.extend(extra1);
            let once = match how {
                0 => Op::Set { k, v, mode: 0 },
                1 => Op::Del { ks: vec![k] },
                2 => Op::Append { k, v },
                _ => Op::Incr { k },
            };
            // exactly one write to the hot key after the restart: other commands of lifetime 2
            // must not touch it
            let hot = key_name(k);
            let touches = |o: &Op| match o {
                Op::Set { k, .. } | Op::Append { k, .. } | Op::Incr { k } | Op::Decr { k } | Op::IncrBy { k, .. } | Op::GetSet { k, .. } | Op::HSet { k, .. } | Op::HDel { k, .. } | Op::Burst { k, .. } => key_name(*k) == hot,
                Op::Del { ks } => ks.iter().any(|k| key_name(*k) == hot),
                Op::MSet { kv } => kv.iter().any(|(k, _)| key_name(*k) == hot),
            };
            let mut l2: Vec<(u8, Op)> = extra2.into_iter().filter(|(_, o)| !touches(o)).collect();
            let at = l2.len() / 2;
            l2.insert(at, (0, once));
            // with fsync != always only a graceful end guarantees anything
            let (e1, e2) = if fsync == 0 { (e1, e2) } else { (End::Graceful, End::Graceful) };
            let mut lifetimes = vec![
                Lifetime { ops: l1, tail: vec![], tail_pause: 0, end: e1, plant_checkpoint: plant },
                Lifetime { ops: l2, tail: vec![], tail_pause: 0, end: e2, plant_checkpoint: false },
            ];
            lifetimes.extend(more);
            RestartCase { fsync, lifetimes }
        })
        .boxed()
}

pub fn case_strategy(prop: &str) -> BoxedStrategy<RestartCase> {
    match prop {
        // durability of acknowledged writes: mostly always-fsync and SIGKILL
        "C09" => prop_oneof![8 => generic_case(9, 1, 4, 1), 1 => hot_key_case()].boxed(),
        // newest write wins across restarts
        "C08" => prop_oneof![3 => generic_case(3, 1, 1, 1), 5 => hot_key_case()].boxed(),
        // recovery = everything persisted: all configurations, both ends
        _ => prop_oneof![6 => generic_case(3, 2, 1, 1), 1 => hot_key_case()].boxed(),
    }
}

// ---------------------------------------------------------------------------------------------
// model
// ---------------------------------------------------------------------------------------------

#[derive(Clone, Debug, PartialEq, Eq)]
pub enum Val {
    Str(Vec<u8>),
    Hash(BTreeMap<Vec<u8>, Vec<u8>>),
}
pub type Model = BTreeMap<String, Val>;

fn show_val(v: &Option<Val>) -> String {
    fn clip(x: &[u8]) -> String {
        if x.len() > 60 {
            format!("{}…({} bytes)", vcore::show(&x[..40]), x.len())
        } else {
            vcore::show(x)
        }
    }
    match v {
        None => "(absent)".into(),
        Some(Val::Str(s)) => format!("\"{}\"", clip(s)),
        Some(Val::Hash(h)) => format!("{{{}}}", h.iter().map(|(f, v)| format!("{}: \"{}\"", clip(f), clip(v))).collect::<Vec<_>>().join(", ")),
    }
}

/// Redis `string2ll`: canonical decimal only.
fn parse_i64_strict(s: &[u8]) -> Option<i64> {
    let t = std::str::from_utf8(s).ok()?;
    if t.is_empty() {
        return None;
    }
    let digits = t.strip_prefix('-').unwrap_or(t);
    if digits.is_empty() || !digits.bytes().all(|c| c.is_ascii_digit()) {
        return None;
    }
    if digits.len() > 1 && digits.starts_with('0') {
        return None;
    }
    if t == "-0" {
        return None;
    }
    t.parse::<i64>().ok()
}

/// Expected reply class of a command.
#[derive(Clone, Debug, PartialEq, Eq)]
enum Expect {
    Exactly(Reply),
    AnyError,
}

fn argv_of(op: &Op) -> Vec<Argv> {
    match op {
        Op::Set { k, v, mode } => {
            let mut a = vec![b("SET"), b(key_name(*k)), v.bytes()];
            match mode {
                1 => a.push(b("NX")),
                2 => a.push(b("XX")),
                _ => {}
            }
            vec![a]
        }
        Op::Del { ks } => {
            let mut a = vec![b("DEL")];
            a.extend(ks.iter().map(|k| b(key_name(*k))));
            vec![a]
        }
        Op::Append { k, v } => vec![vec![b("APPEND"), b(key_name(*k)), v.bytes()]],
        Op::Incr { k } => vec![vec![b("INCR"), b(key_name(*k))]],
        Op::Decr { k } => vec![vec![b("DECR"), b(key_name(*k))]],
        Op::IncrBy { k, n } => vec![vec![b("INCRBY"), b(key_name(*k)), n.to_string().into_bytes()]],
        Op::GetSet { k, v } => vec![vec![b("GETSET"), b(key_name(*k)), v.bytes()]],
        Op::MSet { kv } => {
            let mut a = vec![b("MSET")];
            for (k, v) in kv {
                a.push(b(key_name(*k)));
                a.push(v.bytes());
            }
            vec![a]
        }
        Op::HSet { k, fv } => {
            let mut a = vec![b("HSET"), b(key_name(*k))];
            for (f, v) in fv {
                a.push(b(field_name(*f)));
                a.push(v.bytes());
            }
            vec![a]
        }
        Op::HDel { k, fs } => {
            let mut a = vec![b("HDEL"), b(key_name(*k))];
            a.extend(fs.iter().map(|f| b(field_name(*f))));
            vec![a]
        }
        Op::Burst { k, n, base } => (0..*n).map(|i| vec![b("SET"), b(key_name(*k)), format!("b{}-{}", base, i).into_bytes()]).collect(),
    }
}

/// Apply one command (argv level) to the model; returns the reply Redis semantics prescribe.
fn apply(model: &mut Model, a: &Argv) -> Expect {
    let name = String::from_utf8_lossy(&a[0]).to_uppercase();
    let key = String::from_utf8_lossy(&a[1]).into_owned();
    let wrongtype = Expect::AnyError;
    match name.as_str() {
        "SET" => {
            let mode = a.get(3).map(|m| m.as_slice());
            let exists = model.contains_key(&key);
            match mode {
                Some(b"NX") if exists => return Expect::Exactly(Reply::Nil),
                Some(b"XX") if !exists => return Expect::Exactly(Reply::Nil),
                _ => {}
            }
            model.insert(key, Val::Str(a[2].clone()));
            Expect::Exactly(Reply::ok())
        }
        "DEL" => {
            let mut n = 0;
            for k in &a[1..] {
                if model.remove(&String::from_utf8_lossy(k).into_owned()).is_some() {
                    n += 1;
                }
            }
            Expect::Exactly(Reply::Int(n))
        }
        "APPEND" => match model.get_mut(&key) {
            None => {
                model.insert(key, Val::Str(a[2].clone()));
                Expect::Exactly(Reply::Int(a[2].len() as i64))
            }
            Some(Val::Str(s)) => {
                s.extend_from_slice(&a[2]);
                Expect::Exactly(Reply::Int(s.len() as i64))
            }
            Some(Val::Hash(_)) => wrongtype,
        },
        "INCR" | "DECR" | "INCRBY" => {
            let delta: i64 = match name.as_str() {
                "INCR" => 1,
                "DECR" => -1,
                _ => String::from_utf8_lossy(&a[2]).parse().unwrap_or(0),
            };
            let cur = match model.get(&key) {
                None => 0,
                Some(Val::Str(s)) => match parse_i64_strict(s) {
                    Some(v) => v,
                    None => return Expect::AnyError,
                },
                Some(Val::Hash(_)) => return wrongtype,
            };
            match cur.checked_add(delta) {
                Some(v) => {
                    model.insert(key, Val::Str(v.to_string().into_bytes()));
                    Expect::Exactly(Reply::Int(v))
                }
                None => Expect::AnyError,
            }
        }
        "GETSET" => match model.get(&key).cloned() {
            Some(Val::Hash(_)) => wrongtype,
            old => {
                model.insert(key, Val::Str(a[2].clone()));
                Expect::Exactly(match old {
                    Some(Val::Str(s)) => Reply::Bulk(s),
                    _ => Reply::Nil,
                })
            }
        },
        "MSET" => {
            for kv in a[1..].chunks(2) {
                model.insert(String::from_utf8_lossy(&kv[0]).into_owned(), Val::Str(kv[1].clone()));
            }
            Expect::Exactly(Reply::ok())
        }
        "HSET" => match model.entry(key).or_insert_with(|| Val::Hash(BTreeMap::new())) {
            Val::Hash(h) => {
                let mut new = 0;
                for fv in a[2..].chunks(2) {
                    if h.insert(fv[0].clone(), fv[1].clone()).is_none() {
                        new += 1;
                    }
                }
                Expect::Exactly(Reply::Int(new))
            }
            Val::Str(_) => wrongtype,
        },
        "HDEL" => {
            let (n, empty) = match model.get_mut(&key) {
                None => (0, false),
                Some(Val::Str(_)) => return wrongtype,
                Some(Val::Hash(h)) => {
                    let mut n = 0;
                    for f in &a[2..] {
                        if h.remove(f).is_some() {
                            n += 1;
                        }
                    }
                    (n, h.is_empty())
                }
            };
            if empty {
                model.remove(&key);
            }
            Expect::Exactly(Reply::Int(n))
        }
        other => panic!("model: unexpected command {}", other),
    }
}

fn keys_of(a: &Argv) -> Vec<String> {
    let name = String::from_utf8_lossy(&a[0]).to_uppercase();
    match name.as_str() {
        "DEL" => a[1..].iter().map(|k| String::from_utf8_lossy(k).into_owned()).collect(),
        "MSET" => a[1..].chunks(2).map(|kv| String::from_utf8_lossy(&kv[0]).into_owned()).collect(),
        _ => vec![String::from_utf8_lossy(&a[1]).into_owned()],
    }
}

/// Command shapes kept out while the finding that covers them is open (counted). Returns the
/// finding id when the command must be skipped.
fn excluded_shape(model: &Model, a: &Argv, ctx: &mut CaseCtx<'_>) -> Option<&'static str> {
    let name = String::from_utf8_lossy(&a[0]).to_uppercase();
    let string_cmd = matches!(name.as_str(), "SET" | "APPEND" | "INCR" | "DECR" | "INCRBY" | "GETSET" | "MSET");
    let hash_cmd = matches!(name.as_str(), "HSET" | "HDEL");
    for key in keys_of(a) {
        let cur = model.get(&key);
        let id = if name == "DEL" && (matches!(cur, Some(Val::Hash(_))) || is_hash_pool(&key)) {
            // DEL of a hash key emits no tombstone
            Some("KF-C06-03")
        } else if name == "SET" && a.get(3).map(|m| m.as_slice()) == Some(b"NX") && matches!(cur, Some(Val::Str(_))) {
            // SET NX that is a no-op still records the new value
            Some("KF-C06-01")
        } else if hash_cmd && matches!(cur, Some(Val::Str(_))) {
            // failing command (WRONGTYPE) still records a write
            Some("KF-C06-02")
        } else if (hash_cmd && !is_hash_pool(&key)) || (string_cmd && (is_hash_pool(&key) || matches!(cur, Some(Val::Hash(_))))) {
            // a key that changes between string and hash: fields of older incarnations survive
            // or vanish depending on merge order
            Some("KF-C06-08")
        } else {
            None
        };
        if let Some(id) = id {
            if ctx.tolerate(id) {
                return Some(id);
            }
        }
    }
    None
}

// ---------------------------------------------------------------------------------------------
// reading the keyspace
// ---------------------------------------------------------------------------------------------

fn read_key(c: &mut Conn, key: &str) -> Result<(Option<Val>, i64), String> {
    let exists = match c.call(&[b("EXISTS"), b(key)])? {
        Reply::Int(n) => n,
        other => return Err(format!("EXISTS {} answered {}", key, other.show())),
    };
    let get = c.call(&[b("GET"), b(key)])?;
    let hga = c.call(&[b("HGETALL"), b(key)])?;
    let val = match (&get, &hga) {
        (Reply::Bulk(s), _) => Some(Val::Str(s.clone())),
        (_, Reply::Array(a)) if !a.is_empty() && a.len() % 2 == 0 => {
            let mut h = BTreeMap::new();
            for p in a.chunks(2) {
                match (&p[0], &p[1]) {
                    (Reply::Bulk(f), Reply::Bulk(v)) => {
                        h.insert(f.clone(), v.clone());
                    }
                    _ => return Err(format!("HGETALL {} answered {}", key, hga.show())),
                }
            }
            Some(Val::Hash(h))
        }
        (Reply::Nil, Reply::Array(a)) if a.is_empty() => None,
        _ => return Err(format!("GET {0} answered {1}, HGETALL {0} answered {2}", key, get.show(), hga.show())),
    };
    Ok((val, exists))
}

// ---------------------------------------------------------------------------------------------
// checkpoint planting (library code, in-process, while no server runs)
// ---------------------------------------------------------------------------------------------

fn plant_checkpoint(data_dir: &Path) -> Result<usize, String> {
    use redis_sim::replication::state::ReplicatedValue;
    use redis_sim::streaming::checkpoint::CheckpointWriter;
    use redis_sim::streaming::{CheckpointInfo, Compression, LocalFsObjectStore, ManifestManager, ObjectStore, RecoveryManager};
    use std::collections::HashMap;
    const PREFIX: &str = "redis-stream";
    vcore::block_on(async {
        let store = LocalFsObjectStore::new(data_dir.to_path_buf());
        let rec = RecoveryManager::new(store.clone(), PREFIX, 1);
        if !rec.needs_recovery().await.map_err(|e| e.to_string())? {
            return Ok(0);
        }
        let recovered = rec.recover().await.map_err(|e| format!("recover: {}", e))?;
        let mut state: HashMap<String, ReplicatedValue> = recovered.checkpoint_state.unwrap_or_default();
        for d in recovered.deltas {
            match state.get_mut(&d.key) {
                Some(v) => *v = v.merge(&d.value),
                None => {
                    state.insert(d.key.clone(), d.value);
                }
            }
        }
        let mm = ManifestManager::new(store.clone(), PREFIX);
        let mut manifest = mm.load_or_create(1).await.map_err(|e| e.to_string())?;
        let Some(last) = manifest.segments.iter().map(|s| s.id).max() else { return Ok(0) };
        let n = state.len();
        let img = CheckpointWriter::new(Compression::None).write(state, 1, last).map_err(|e| e.to_string())?;
        let key = format!("{}/checkpoints/chk-{:016}.chk", PREFIX, last);
        store.put(&key, &img).await.map_err(|e| e.to_string())?;
        manifest.compact_segments(CheckpointInfo { key, timestamp_ms: 1, key_count: n as u64, last_segment_id: last });
        mm.save(&manifest).await.map_err(|e| e.to_string())?;
        Ok(n)
    })
}

// ---------------------------------------------------------------------------------------------
// the property closure
// ---------------------------------------------------------------------------------------------

fn fsync_name(f: u8) -> &'static str {
    match f {
        0 => "always",
        1 => "everysec",
        2 => "no",
        _ => "wal_off",
    }
}

enum Outcome {
    Held,
    Violation(String),
    /// no verdict (start/stop timing limits)
    Inconclusive(String),
    /// a reply differed from the model's before any restart was judged
    Diverged(String),
}

/// What the next verification may see for the keys whose state is uncertain.
#[derive(Default)]
struct Uncertain {
    /// key -> acceptable values (whole-value candidates)
    cands: BTreeMap<String, Vec<Option<Val>>>,
    /// keys for which (not guaranteed end) a hash is judged field by field against `cands`
    fieldwise: bool,
}

fn run_case(case: &RestartCase, prop: &str, ctx: &mut CaseCtx<'_>, scratch: &Path) -> Outcome {
    let data = scratch.join("data");
    let waldir = scratch.join("wal");
    let cfg = ServerCfg {
        data_dir: Some(data.clone()),
        wal: match case.fsync {
            0 => Some((waldir.clone(), "always")),
            1 => Some((waldir.clone(), "everysec")),
            2 => Some((waldir.clone(), "no")),
            _ => None,
        },
    };
    ctx.label(&format!("fsync:{}", fsync_name(case.fsync)));
    ctx.label(&format!("lifetimes:{}", case.lifetimes.len()));

    let mut model: Model = BTreeMap::new();
    let mut uncertain = Uncertain::default();
    let mut prev_end: Option<(End, bool)> = None; // (end, guaranteed)
    let mut acked_total = 0usize;
    // C08 bookkeeping: keys recovered in this lifetime and overwritten after the restart
    let mut overwritten_after_restart: BTreeSet<String> = BTreeSet::new();
    let mut nt_c09 = false;
    let mut nt_c11 = false;
    let mut nt_c08 = false;
    let mut shards_touched: BTreeSet<usize> = BTreeSet::new();
    let mut history_log: Vec<String> = Vec::new();
    // every value a key ever held by acknowledged writes (only used to word the message)
    let mut ever: BTreeMap<String, Vec<Option<Val>>> = BTreeMap::new();

    let n_life = case.lifetimes.len();
    for li in 0..=n_life {
        // ---- start (runs the binary's recovery) ----
        let mut srv = match Server::start(&cfg, scratch, &format!("life{}", li)) {
            Ok(s) => s,
            Err(StartError::ExitedEarly { status, log_tail }) => {
                return Outcome::Violation(format!(
                    "start-up {} on intact files failed: the server exited with {} before listening (previous end: {:?}; fsync {}).\nhistory: {}\nlog tail:\n{}",
                    li + 1,
                    status,
                    prev_end,
                    fsync_name(case.fsync),
                    history_log.join(" | "),
                    log_tail
                ));
            }
            Err(StartError::Inconclusive(why)) => return Outcome::Inconclusive(why),
        };

        // ---- verify what the restarted server serves ----
        if li > 0 {
            let (pend, guaranteed) = prev_end.clone().unwrap();
            let mut c = match Conn::connect(srv.port) {
                Ok(c) => c,
                Err(e) => return Outcome::Inconclusive(format!("connect after start: {}", e)),
            };
            let mut present = 0;
            for key in all_keys() {
                let (seen, exists) = match read_key(&mut c, key) {
                    Ok(x) => x,
                    Err(e) => {
                        if let Some(st) = srv.exited() {
                            return Outcome::Violation(format!("the restarted server died ({}) while its keys were read: {}; log tail:\n{}", st, e, srv.log_tail()));
                        }
                        return Outcome::Violation(format!("reading key {:?} from the restarted server (lifetime {}): {}", key, li + 1, e));
                    }
                };
                let expect = model.get(key).cloned();
                if seen.is_some() {
                    present += 1;
                }
                let ok = match uncertain.cands.get(key) {
                    None => seen == expect,
                    Some(c) => {
                        c.contains(&seen)
                            || (uncertain.fieldwise
                                && match &seen {
                                    // a hash recovered from a SUBSET of its updates: every field
                                    // value must be one that field had
                                    Some(Val::Hash(h)) => h.iter().all(|(f, v)| {
                                        c.iter().any(|cand| matches!(cand, Some(Val::Hash(ch)) if ch.get(f) == Some(v)))
                                    }),
                                    _ => false,
                                })
                    }
                };
                if !ok {
                    let why = match uncertain.cands.get(key) {
                        None => format!("expected {}", show_val(&expect)),
                        Some(c) => format!(
                            "acceptable: {}",
                            c.iter().map(show_val).collect::<BTreeSet<_>>().into_iter().collect::<Vec<_>>().join(" or ")
                        ),
                    };
                    let older = ever.get(key).map(|h| h.contains(&seen)).unwrap_or(false) || (seen.is_none() && guaranteed);
                    let class = if guaranteed && !uncertain.cands.contains_key(key) && older && seen.is_some() {
                        "an OLDER value of the key came back: the newest acknowledged write lost against an earlier one at recovery"
                    } else if !guaranteed {
                        "a value that was never written to the key came back from recovery"
                    } else if uncertain.cands.contains_key(key) {
                        "the key is served with a value that is neither its last acknowledged value nor a value after a prefix of the unacknowledged tail"
                    } else {
                        "an acknowledged write is not what the restarted server serves"
                    };
                    return Outcome::Violation(format!(
                        "lifetime {} (after {:?}, fsync {}): {}: key {:?} is served as {} — {}.\nhistory: {}\nserver log tail:\n{}",
                        li + 1,
                        pend,
                        fsync_name(case.fsync),
                        class,
                        key,
                        show_val(&seen),
                        why,
                        history_log.join(" | "),
                        srv.log_tail()
                    ));
                }
                if (exists == 1) != seen.is_some() {
                    return Outcome::Violation(format!(
                        "lifetime {}: EXISTS {:?} answers {} but the key is served as {}",
                        li + 1,
                        key,
                        exists,
                        show_val(&seen)
                    ));
                }
                // re-synchronise (only differs where the state was uncertain)
                match seen {
                    Some(v) => {
                        model.insert(key.to_string(), v);
                    }
                    None => {
                        model.remove(key);
                    }
                }
            }
            ctx.add_evaluations(all_keys().len() as u64);
            if guaranteed && present >= 2 {
                nt_c11 = true;
            }
            if guaranteed && !overwritten_after_restart.is_empty() && li >= 2 {
                nt_c08 = true;
                ctx.label("recovered_key_overwritten_after_restart_and_read_after_next_recovery");
            }
            overwritten_after_restart.clear();
        }
        if li == n_life {
            srv.kill9();
            break;
        }

        // ---- acknowledged commands in lock-step ----
        let life = &case.lifetimes[li];
        let recovered_keys: BTreeSet<String> = model.keys().cloned().collect();
        let mut conns: Vec<Conn> = Vec::new();
        for _ in 0..2 {
            match Conn::connect(srv.port) {
                Ok(mut c) => {
                    // one round trip proves the connection was accepted: no accept is pending
                    // later, when SIGINT is sent (the binary's accept loop re-creates its
                    // ctrl_c() future per iteration and can drop a signal that arrives together
                    // with a connection; side observation in notes/E2E.md)
                    match c.call(&[b("PING")]) {
                        Ok(Reply::Simple(p)) if p == b"PONG" => conns.push(c),
                        Ok(other) => return Outcome::Violation(format!("PING on a fresh connection answered {}", other.show())),
                        Err(e) => return Outcome::Inconclusive(format!("PING on a fresh connection: {}", e)),
                    }
                }
                Err(e) => return Outcome::Inconclusive(format!("connect: {}", e)),
            }
        }
        if life.ops.iter().any(|(c, _)| *c == 1) {
            ctx.label("connections:2");
        }
        // value history of every key during this lifetime (for ends that guarantee nothing)
        let mut hist: BTreeMap<String, Vec<Option<Val>>> = BTreeMap::new();
        for key in all_keys() {
            hist.insert(key.to_string(), vec![model.get(key).cloned()]);
        }
        let mut acked = 0usize;
        history_log.push(format!("[lifetime {}]", li + 1));
        for (ci, op) in &life.ops {
            for a in argv_of(op) {
                if let Some(id) = excluded_shape(&model, &a, ctx) {
                    ctx.label(&format!("shape_kept_out:{}", id));
                    continue;
                }
                let conn = &mut conns[(*ci as usize) % 2];
                let reply = match conn.call(&a) {
                    Ok(r) => r,
                    Err(e) => {
                        if let Some(st) = srv.exited() {
                            return Outcome::Violation(format!("the server died ({}) on {}: {}; log tail:\n{}", st, vcore::resp::show_argv(&a), e, srv.log_tail()));
                        }
                        return Outcome::Violation(format!("no reply to {} although the server is alive: {}", clip_argv(&a), e));
                    }
                };
                let mut m2 = model.clone();
                let exp = apply(&mut m2, &a);
                let agrees = match &exp {
                    Expect::Exactly(r) => *r == reply,
                    Expect::AnyError => reply.is_error(),
                };
                if !agrees {
                    return Outcome::Diverged(format!(
                        "reply to {} is {} but plain Redis semantics (the harness model) give {:?}; state of the key(s): {}",
                        clip_argv(&a),
                        reply.show().chars().take(120).collect::<String>(),
                        exp,
                        keys_of(&a).iter().map(|k| format!("{}={}", k, show_val(&model.get(k).cloned()))).collect::<Vec<_>>().join(", ")
                    ));
                }
                let wrote = m2 != model || matches!(exp, Expect::Exactly(Reply::Simple(_)));
                model = m2;
                if !reply.is_error() {
                    acked += 1;
                    for k in keys_of(&a) {
                        shards_touched.insert(shard_of(&k));
                        hist.entry(k.clone()).or_default().push(model.get(&k).cloned());
                        ever.entry(k.clone()).or_default().push(model.get(&k).cloned());
                        if wrote && recovered_keys.contains(&k) && li >= 1 {
                            overwritten_after_restart.insert(k);
                        }
                    }
                }
                if history_log.len() < 400 {
                    history_log.push(format!("{} -> {}", clip_argv(&a), reply.show().chars().take(24).collect::<String>()));
                }
            }
        }
        // ---- unacknowledged pipelined tail ----
        let mut tail_cands: BTreeMap<String, Vec<Option<Val>>> = BTreeMap::new();
        let tail_argvs: Vec<Argv> = life.tail.iter().flat_map(argv_of).filter(|a| excluded_shape(&model, a, ctx).is_none()).collect();
        if !tail_argvs.is_empty() {
            ctx.label("unacknowledged_tail");
            let mut bytes = Vec::new();
            let mut m = model.clone();
            for a in &tail_argvs {
                for k in keys_of(a) {
                    tail_cands.entry(k.clone()).or_insert_with(|| vec![model.get(&k).cloned()]);
                }
            }
            for a in &tail_argvs {
                bytes.extend_from_slice(&vcore::resp::encode_command(a));
                let _ = apply(&mut m, a);
                for (k, c) in tail_cands.iter_mut() {
                    let v = m.get(k).cloned();
                    if c.last() != Some(&v) {
                        c.push(v);
                    }
                }
            }
            let _ = conns[0].send(&bytes);
            if case.fsync == 0 && life.end == End::Graceful {
                // SIGINT while an always-fsync write is in flight can leave the binary waiting
                // for its WAL actor forever (side observation in notes/E2E.md: a Shutdown message
                // that arrives inside the 200 us group-commit window is acknowledged but does not
                // end the actor loop). The shape is kept out: the pipelined burst is read to the
                // end first, which makes it a pipelined ACKNOWLEDGED burst.
                ctx.label("pipelined_burst_acknowledged_before_SIGINT(always)");
                history_log.push(format!("pipelined, then acknowledged: {}", tail_argvs.iter().map(clip_argv).collect::<Vec<_>>().join("; ")));
                for a in &tail_argvs {
                    let reply = match conns[0].read_reply() {
                        Ok((r, _)) => r,
                        Err(e) => {
                            if let Some(st) = srv.exited() {
                                return Outcome::Violation(format!("the server died ({}) during a pipelined burst; {}; log tail:\n{}", st, crate::client::short(&e), srv.log_tail()));
                            }
                            return Outcome::Violation(format!("no reply to pipelined {} although the server is alive: {}", clip_argv(a), crate::client::short(&e)));
                        }
                    };
                    let exp = apply(&mut model, a);
                    let agrees = match &exp {
                        Expect::Exactly(r) => *r == reply,
                        Expect::AnyError => reply.is_error(),
                    };
                    if !agrees {
                        return Outcome::Diverged(format!("reply to pipelined {} is {} but the harness model gives {:?}", clip_argv(a), reply.show().chars().take(120).collect::<String>(), exp));
                    }
                    if !reply.is_error() {
                        acked += 1;
                        for k in keys_of(a) {
                            hist.entry(k.clone()).or_default().push(model.get(&k).cloned());
                            if recovered_keys.contains(&k) && li >= 1 {
                                overwritten_after_restart.insert(k);
                            }
                        }
                    }
                }
                tail_cands.clear();
            } else {
                history_log.push(format!("unacknowledged tail: {}", tail_argvs.iter().map(clip_argv).collect::<Vec<_>>().join("; ")));
                if life.tail_pause > 0 {
                    std::thread::sleep(Duration::from_micros(200 * life.tail_pause as u64));
                }
            }
        }

        acked_total += acked;

        // ---- end of the lifetime ----
        let guaranteed = case.fsync == 0 || life.end == End::Graceful;
        match life.end {
            End::Crash => {
                ctx.label("end:crash(SIGKILL)");
                srv.kill9();
                history_log.push("SIGKILL".into());
                if case.fsync == 0 && acked >= 3 {
                    nt_c09 = true;
                }
            }
            End::Graceful => {
                ctx.label("end:graceful(SIGINT)");
                match srv.sigint_wait() {
                    Ok(_) => {}
                    Err(()) => {
                        return Outcome::Inconclusive(format!(
                            "the server did not exit within 20 s after SIGINT (fsync {}, lifetime {}, {} acknowledged commands, tail {}); log tail: {}",
                            fsync_name(case.fsync),
                            li + 1,
                            acked,
                            tail_argvs.len(),
                            proc::tail_of(&scratch.join(format!("server-life{}.log", li)), 600).replace('\n', " / ")
                        ))
                    }
                }
                history_log.push("SIGINT, exited".into());
            }
        }
        drop(conns);
        ctx.label(if guaranteed { "end_guarantees_acknowledged_writes" } else { "end_guarantees_nothing(no_invented_values_only)" });

        uncertain = Uncertain::default();
        if guaranteed {
            uncertain.cands = tail_cands;
        } else {
            // anything the key held during the lifetime, or after a prefix of the tail
            uncertain.fieldwise = true;
            for (k, mut h) in hist {
                if let Some(t) = tail_cands.get(&k) {
                    h.extend(t.iter().cloned());
                }
                uncertain.cands.insert(k, h);
            }
        }

        // ---- optional: fold the store into a checkpoint (WAL off, graceful end only) ----
        if life.plant_checkpoint && case.fsync == 3 && life.end == End::Graceful {
            match plant_checkpoint(&data) {
                Ok(n) if n > 0 => {
                    ctx.label("checkpoint_planted(next_start_recovers_through_checkpoint)");
                    history_log.push(format!("checkpoint of {} keys planted", n));
                }
                Ok(_) => {}
                Err(e) => return Outcome::Inconclusive(format!("checkpoint planting failed: {}", e)),
            }
        }
        prev_end = Some((life.end.clone(), guaranteed));
    }

    if shards_touched.len() >= 4 {
        ctx.label("keys_on_4+_shards");
    }
    if acked_total >= 20 {
        ctx.label("acked_writes:20+");
    }
    let nt = match prop {
        "C09" => nt_c09,
        "C08" => nt_c08,
        _ => nt_c11,
    };
    if nt {
        ctx.nontrivial(case);
    }
    Outcome::Held
}

fn clip_argv(a: &Argv) -> String {
    let s = vcore::resp::show_argv(a);
    if s.len() > 90 {
        let cut = s.char_indices().take_while(|(i, _)| *i < 80).last().map(|(i, c)| i + c.len_utf8()).unwrap_or(0);
        format!("{}…", &s[..cut])
    } else {
        s
    }
}

pub fn check(case: &RestartCase, prop: &str, ctx: &mut CaseCtx<'_>) -> Result<(), String> {
    proc::CASES.fetch_add(1, Ordering::Relaxed);
    let scratch = proc::new_scratch();
    let r = run_case(case, prop, ctx, &scratch);
    match r {
        Outcome::Held => {
            proc::remove_scratch(&scratch);
            Ok(())
        }
        Outcome::Violation(m) => Err(format!("{}\n(files kept in {})", m, scratch.display())),
        Outcome::Inconclusive(why) => {
            proc::INCONCLUSIVE.fetch_add(1, Ordering::Relaxed);
            ctx.label("inconclusive");
            eprintln!("[e2e] inconclusive: {}", why);
            proc::remove_scratch(&scratch);
            Ok(())
        }
        Outcome::Diverged(why) => {
            DIVERGED.fetch_add(1, Ordering::Relaxed);
            ctx.label("model_diverged");
            eprintln!("[e2e] model diverged from the live server (no durability verdict for this case): {}", why);
            proc::remove_scratch(&scratch);
            Ok(())
        }
    }
}

pub fn run(prop: &str, args: &vcore::Args) -> ! {
    let rule = match prop {
        "C09" => "e2e_restart: 2-3 lifetimes of the real server binary over one data dir + WAL dir, acknowledged writes in lock-step, optional unacknowledged tail, SIGKILL or SIGINT; non-trivial = a lifetime with fsync=always and at least 3 acknowledged writes ended by SIGKILL and verified after the restart; distinct by the whole case",
        "C08" => "e2e_restart: as for C09/C11; non-trivial = a key that was recovered by a restart, overwritten or deleted after it (acknowledged), and read again after the NEXT recovery (guaranteed end); distinct by the whole case",
        _ => "e2e_restart: as for C09; non-trivial = a restart after an end that guarantees the acknowledged writes (fsync=always, or SIGINT) with at least 2 keys present; distinct by the whole case",
    };
    let s = Session::new(prop, Level::Exploration, rule, args);
    s.assume("the process tier runs harness/spbin/src/main.rs, a verbatim copy of <repo>/src/bin/server_persistent.rs refreshed before every build, compiled with the harness profile against the same redis-sim build as the other checks");
    s.assume("a crash is SIGKILL of the server process: bytes handed to write() survive (page cache), so fsync itself is not exercised here, only 'acknowledged implies handed to the file' and the binary's start-up sequence; power-loss crash points are the in-process C09 check's");
    s.assume("command shapes covered by open findings are kept out by construction and counted: DEL of a hash key (KF-C06-03), SET NX on an existing string (KF-C06-01), HSET/HDEL on a string key (KF-C06-02), keys changing between string and hash (KF-C06-08); expiry is never used");
    s.assume("the harness model (plain Redis semantics of SET[NX|XX]/DEL/APPEND/INCR/DECR/INCRBY/GETSET/MSET/HSET/HDEL) is checked against every live reply; a difference makes the run inconclusive (exit 2), never a verdict");
    s.describe_check("e2e_restart", "after every restart every key of the pool is read (GET/HGETALL/EXISTS): start-up succeeds; after fsync=always or SIGINT the served value = last acknowledged value (or the value after a prefix of the unacknowledged tail for keys it touched); otherwise only values the key really had; a write made after a restart is what the next recovery serves");
    let (q, t) = (1_000, 20_000);
    let p = prop.to_string();
    s.run_cases("e2e_restart", s.scale(q, t), || case_strategy(&p), |case, ctx| {
        crate::budget::guarded(case, 40, 180, || check(case, &p, ctx))
    });
    let div = DIVERGED.load(Ordering::SeqCst);
    if div > 0 && !s.is_replay() {
        vcore::runner::fatal(&format!(
            "e2e_restart: in {} case(s) a live reply differed from the harness model (see the messages above): the model does not describe this tree, no durability verdict (inconclusive)",
            div
        ));
    }
    proc::inconclusive_gate(&s);
    s.finish();
}
