//! Process-level ("e2e") verification tier: runs the real server binary (`sp_server`, compiled
//! from a verbatim copy of `<repo>/src/bin/server_persistent.rs`) and decides parts of
//! C04 / C15 (`e2e_pipeline`) and C09 / C11 / C08 (`e2e_restart`). See /verif/notes/E2E.md.

pub mod budget;
pub mod client;
pub mod pipeline;
pub mod proc;
pub mod restart;
