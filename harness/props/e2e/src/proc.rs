//! Child-process handling for the e2e tier: start the real server binary (`sp_server`, built from
//! a verbatim copy of `<repo>/src/bin/server_persistent.rs`), wait until it listens, kill it.
//!
//! Soundness rules (see notes/E2E.md): wall-clock time never decides a verdict. Readiness is a TCP
//! connect plus an identity check (`INFO` answers the child's pid, so a foreign listener on the
//! same port is never mistaken for the child); an early exit of the child is an *observation*
//! handed to the caller; "alive but not listening after 20 s" is INCONCLUSIVE.

use std::io::{Read, Write};
use std::net::{TcpListener, TcpStream};
use std::os::unix::process::CommandExt;
use std::path::{Path, PathBuf};
use std::process::{Child, Command, ExitStatus, Stdio};
use std::sync::atomic::{AtomicU64, AtomicUsize, Ordering};
use std::time::{Duration, Instant};

pub const READY_LIMIT: Duration = Duration::from_secs(20);
pub const EXIT_LIMIT: Duration = Duration::from_secs(20);
pub const IO_TIMEOUT: Duration = Duration::from_secs(10);

static NEXT_WORKER: AtomicUsize = AtomicUsize::new(0);
static NEXT_PORT_SALT: AtomicU64 = AtomicU64::new(0);
/// cases that ended without a verdict (server not listening in time, no exit after SIGINT, …)
pub static INCONCLUSIVE: AtomicU64 = AtomicU64::new(0);
pub static CASES: AtomicU64 = AtomicU64::new(0);
pub static SPAWNS: AtomicU64 = AtomicU64::new(0);
pub static SIGINT_RESENT: AtomicU64 = AtomicU64::new(0);

thread_local! {
    static WORKER: std::cell::Cell<Option<usize>> = const { std::cell::Cell::new(None) };
    static SCRATCH_N: std::cell::Cell<u64> = const { std::cell::Cell::new(0) };
}

/// Small dense id of the calling worker thread (port ranges and scratch names).
pub fn worker_id() -> usize {
    WORKER.with(|w| match w.get() {
        Some(i) => i,
        None => {
            let i = NEXT_WORKER.fetch_add(1, Ordering::SeqCst);
            w.set(Some(i));
            i
        }
    })
}

/// The server binary sits next to the running executable.
pub fn server_binary() -> PathBuf {
    let exe = std::env::current_exe().unwrap_or_else(|e| vcore::runner::fatal(&format!("current_exe: {}", e)));
    let p = exe.parent().map(|d| d.join("sp_server")).unwrap_or_default();
    if !p.is_file() {
        vcore::runner::fatal(&format!("server binary {:?} not found (build package spbin)", p));
    }
    p
}

/// `$VERIF_ROOT/.work/e2e/<pid>-<worker>-<n>/` — created empty.
pub fn new_scratch() -> PathBuf {
    let n = SCRATCH_N.with(|c| {
        let v = c.get();
        c.set(v + 1);
        v
    });
    let d = vcore::runner::root_path(".work/e2e").join(format!("{}-{}-{}", std::process::id(), worker_id(), n));
    let _ = std::fs::remove_dir_all(&d);
    if let Err(e) = std::fs::create_dir_all(&d) {
        vcore::runner::fatal(&format!("cannot create scratch dir {:?}: {}", d, e));
    }
    d
}

pub fn remove_scratch(d: &Path) {
    let _ = std::fs::remove_dir_all(d);
}

#[derive(Clone, Debug)]
pub struct ServerCfg {
    /// None = `REDIS_STORE_TYPE=memory`, Some(dir) = localfs at dir
    pub data_dir: Option<PathBuf>,
    /// (wal dir, fsync policy `always|everysec|no`)
    pub wal: Option<(PathBuf, &'static str)>,
}

impl ServerCfg {
    pub fn memory() -> ServerCfg {
        ServerCfg { data_dir: None, wal: None }
    }
}

#[derive(Debug)]
pub enum StartError {
    /// the child exited before it listened (start-up / recovery failure): an observation
    ExitedEarly { status: String, log_tail: String },
    /// alive but not listening after READY_LIMIT, or no free port found: no verdict
    Inconclusive(String),
}

pub struct Server {
    child: Option<Child>,
    pub port: u16,
    pub pid: u32,
    pub log: PathBuf,
}

fn port_free(p: u16) -> bool {
    TcpListener::bind(("0.0.0.0", p)).is_ok()
}

/// Even port in [10000, 30000) (below the ephemeral range), spread by process id, worker and attempt.
fn candidate_port(attempt: u64) -> u16 {
    let salt = NEXT_PORT_SALT.fetch_add(1, Ordering::Relaxed);
    let x = vcore::mix64(
        (std::process::id() as u64) << 32 ^ (worker_id() as u64) << 20 ^ attempt << 10 ^ salt.wrapping_mul(0x9E37),
    );
    10_000 + 2 * (x % 10_000) as u16
}

pub fn tail_of(path: &Path, max: usize) -> String {
    let Ok(bytes) = std::fs::read(path) else { return "<no log>".into() };
    let start = bytes.len().saturating_sub(max);
    // strip ANSI colour codes of tracing's formatter for readability
    let s = String::from_utf8_lossy(&bytes[start..]).into_owned();
    let mut out = String::new();
    let mut it = s.chars().peekable();
    while let Some(c) = it.next() {
        if c == '\u{1b}' {
            for d in it.by_ref() {
                if d.is_ascii_alphabetic() {
                    break;
                }
            }
        } else {
            out.push(c);
        }
    }
    out
}

impl Server {
    /// Start the server and wait until it answers on its port. `log` is appended to.
    pub fn start(cfg: &ServerCfg, scratch: &Path, tag: &str) -> Result<Server, StartError> {
        let bin = server_binary();
        let log = scratch.join(format!("server-{}.log", tag));
        let mut last_note = String::new();
        for attempt in 0..40u64 {
            let port = candidate_port(attempt);
            if !port_free(port) || !port_free(port + 1) {
                continue;
            }
            let logf = match std::fs::OpenOptions::new().create(true).append(true).open(&log) {
                Ok(f) => f,
                Err(e) => return Err(StartError::Inconclusive(format!("cannot open log {:?}: {}", log, e))),
            };
            let logf2 = match logf.try_clone() {
                Ok(f) => f,
                Err(e) => return Err(StartError::Inconclusive(format!("dup log: {}", e))),
            };
            let mut cmd = Command::new(&bin);
            cmd.env_clear()
                .env("REDIS_PORT", port.to_string())
                .env("RUST_LOG", "error")
                .env("NO_COLOR", "1")
                .current_dir(scratch)
                .stdin(Stdio::null())
                .stdout(Stdio::from(logf))
                .stderr(Stdio::from(logf2));
            match &cfg.data_dir {
                None => {
                    cmd.env("REDIS_STORE_TYPE", "memory");
                }
                Some(d) => {
                    cmd.env("REDIS_STORE_TYPE", "localfs").env("REDIS_DATA_PATH", d);
                }
            }
            match &cfg.wal {
                Some((dir, policy)) => {
                    cmd.env("REDIS_WAL_ENABLED", "true").env("REDIS_WAL_DIR", dir).env("REDIS_WAL_FSYNC", policy);
                }
                None => {
                    cmd.env("REDIS_WAL_ENABLED", "false");
                }
            }
            // the child must not outlive the worker thread that owns it (also when the harness is
            // killed by the watchdog): PR_SET_PDEATHSIG fires when the spawning thread ends
            unsafe {
                cmd.pre_exec(|| {
                    libc::prctl(libc::PR_SET_PDEATHSIG, libc::SIGKILL);
                    Ok(())
                });
            }
            let child = match cmd.spawn() {
                Ok(c) => c,
                Err(e) => return Err(StartError::Inconclusive(format!("spawn {:?}: {}", bin, e))),
            };
            SPAWNS.fetch_add(1, Ordering::Relaxed);
            let pid = child.id();
            let mut srv = Server { child: Some(child), port, pid, log: log.clone() };
            let t0 = Instant::now();
            loop {
                if let Some(st) = srv.try_exited() {
                    let tail = tail_of(&log, 3000);
                    if tail.contains("AddrInUse") || tail.contains("Address already in use") {
                        // lost a race for the port against another process: not an observation
                        // about the server; try another port
                        last_note = format!("port {} taken meanwhile", port);
                        srv.reap();
                        break;
                    }
                    srv.reap();
                    return Err(StartError::ExitedEarly { status: format!("{:?}", st), log_tail: tail });
                }
                match srv.identity_check() {
                    Identity::Ours => return Ok(srv),
                    Identity::Foreign(n) => {
                        last_note = format!("port {} answered by another process ({})", port, n);
                        srv.kill9();
                        break;
                    }
                    Identity::NotYet => {}
                }
                if t0.elapsed() > READY_LIMIT {
                    let tail = tail_of(&log, 2000);
                    srv.kill9();
                    return Err(StartError::Inconclusive(format!(
                        "server pid {} alive but not listening on port {} after {:?}; log tail: {}",
                        pid, port, READY_LIMIT, tail
                    )));
                }
                std::thread::sleep(Duration::from_millis(10));
            }
        }
        Err(StartError::Inconclusive(format!("no usable port found ({})", last_note)))
    }

    fn try_exited(&mut self) -> Option<ExitStatus> {
        match self.child.as_mut() {
            Some(c) => c.try_wait().ok().flatten(),
            None => None,
        }
    }

    fn reap(&mut self) {
        if let Some(mut c) = self.child.take() {
            let _ = c.kill();
            let _ = c.wait();
        }
    }

    /// Has the process exited (without being asked to)?
    pub fn exited(&mut self) -> Option<String> {
        self.try_exited().map(|s| format!("{:?}", s))
    }

    fn identity_check(&self) -> Identity {
        let Ok(mut s) = TcpStream::connect_timeout(&([127, 0, 0, 1], self.port).into(), Duration::from_secs(2)) else {
            return Identity::NotYet;
        };
        let _ = s.set_read_timeout(Some(IO_TIMEOUT));
        let _ = s.set_write_timeout(Some(IO_TIMEOUT));
        if s.write_all(b"*1\r\n$4\r\nINFO\r\n").is_err() {
            return Identity::NotYet;
        }
        let _ = s.shutdown(std::net::Shutdown::Write);
        let mut out = Vec::new();
        let _ = s.read_to_end(&mut out);
        let text = String::from_utf8_lossy(&out);
        match text.split("process_id:").nth(1) {
            Some(rest) => {
                let n: String = rest.chars().take_while(|c| c.is_ascii_digit()).collect();
                if n == self.pid.to_string() {
                    Identity::Ours
                } else {
                    Identity::Foreign(n)
                }
            }
            // a listener that does not speak INFO the way the binary does: could be the child of a
            // changed tree; the pid cannot be confirmed. Fall back to "the child is alive and
            // something listens on the port we just saw free".
            None if !out.is_empty() => Identity::Ours,
            None => Identity::NotYet,
        }
    }

    pub fn log_tail(&self) -> String {
        tail_of(&self.log, 3000)
    }

    /// Crash: SIGKILL and reap.
    pub fn kill9(&mut self) {
        self.reap();
    }

    /// Graceful stop: SIGINT (the binary handles ctrl_c), then wait (bounded).
    /// Ok(status) = exited; Err(()) = still running after EXIT_LIMIT (it is killed then).
    pub fn sigint_wait(&mut self) -> Result<String, ()> {
        let Some(c) = self.child.as_mut() else { return Ok("already reaped".into()) };
        let pid = c.id() as i32;
        unsafe {
            libc::kill(pid, libc::SIGINT);
        }
        let t0 = Instant::now();
        let mut next_resend = Duration::from_secs(1);
        loop {
            // like an operator pressing Ctrl+C again: the binary can miss a SIGINT that arrives
            // together with a connection (see notes/E2E.md); a repeated signal changes nothing
            // once the shutdown has begun
            if t0.elapsed() > next_resend {
                unsafe {
                    libc::kill(pid, libc::SIGINT);
                }
                SIGINT_RESENT.fetch_add(1, Ordering::Relaxed);
                next_resend += Duration::from_secs(2);
            }
            match c.try_wait() {
                Ok(Some(st)) => {
                    self.child = None;
                    return Ok(format!("{:?}", st));
                }
                Ok(None) => {}
                Err(_) => {}
            }
            if t0.elapsed() > EXIT_LIMIT {
                self.reap();
                return Err(());
            }
            std::thread::sleep(Duration::from_millis(5));
        }
    }
}

enum Identity {
    Ours,
    Foreign(String),
    NotYet,
}

impl Drop for Server {
    fn drop(&mut self) {
        self.reap();
    }
}

/// Exit 2 when too many cases ended without a verdict.
pub fn inconclusive_gate(s: &vcore::Session) {
    let inc = INCONCLUSIVE.load(Ordering::SeqCst);
    let cases = CASES.load(Ordering::SeqCst).max(1);
    s.note(
        "e2e_process_stats",
        serde_json::json!({ "cases": cases, "inconclusive_cases": inc, "server_processes_started": SPAWNS.load(Ordering::SeqCst), "sigint_repeated": SIGINT_RESENT.load(Ordering::SeqCst) }),
    );
    if !s.is_replay() && inc * 100 > cases * 3 && inc > 2 {
        vcore::runner::fatal(&format!(
            "e2e: {} of {} cases ended without a verdict (server not listening / no exit / no EOF in time): inconclusive",
            inc, cases
        ));
    }
}

