//! Bound on the number of case evaluations spent on shrinking. A process-level case costs
//! 10 ms – 2 s; proptest's shrinker (max_shrink_iters = 4000 in vcore) would otherwise take up to
//! an hour. After the first failure seen by a worker thread every further evaluation on that
//! thread is a shrink step (vcore stops generating new cases then); once `max` of them (or `max_secs` seconds since the first failure) were
//! spent, unknown candidates count as "passes" (so the shrinker backs off and terminates quickly)
//! while the last failing case keeps failing with its recorded message, so the final re-run that
//! vcore does on the minimal case reports the genuine message. Only the size of the replay file
//! depends on this, never the verdict.

use serde::Serialize;
use std::cell::{Cell, RefCell};

thread_local! {
    static FAILED: Cell<bool> = const { Cell::new(false) };
    static FAILED_AT: Cell<Option<std::time::Instant>> = const { Cell::new(None) };
    static SPENT: Cell<u32> = const { Cell::new(0) };
    static LAST_FAIL: RefCell<Option<(u64, String)>> = const { RefCell::new(None) };
}

pub fn guarded<T: Serialize>(case: &T, max: u32, max_secs: u64, f: impl FnOnce() -> Result<(), String>) -> Result<(), String> {
    let key = vcore::fnv64_str(&serde_json::to_string(case).unwrap_or_default());
    let shrinking = FAILED.with(|c| c.get());
    let late = FAILED_AT.with(|c| c.get()).map(|t| t.elapsed().as_secs() >= max_secs).unwrap_or(false);
    if shrinking && (late || SPENT.with(|c| c.get()) >= max) {
        return LAST_FAIL.with(|l| match &*l.borrow() {
            Some((k, m)) if *k == key => Err(m.clone()),
            _ => Ok(()),
        });
    }
    if shrinking {
        SPENT.with(|c| c.set(c.get() + 1));
    }
    // a panic inside the case is a failure like any other (vcore would catch it further out)
    let r = vcore::runner::catch(f).and_then(|r| r);
    if let Err(m) = &r {
        FAILED.with(|c| c.set(true));
        FAILED_AT.with(|c| {
            if c.get().is_none() {
                c.set(Some(std::time::Instant::now()));
            }
        });
        LAST_FAIL.with(|l| *l.borrow_mut() = Some((key, m.clone())));
    }
    r
}
